"""C12 - Error skipping drops only failing elements; otherwise the first error surfaces.

A case = (operator chain, record stream, failure set, options).  One operator
of the chain (apply / assign / filter / sink) and/or the data source (a
random-access sequence with or without slice support behind
`SequenceDataSource(..., ignore_error=True)`) raises ValueError/TypeError for
chosen *units*; a unit is what the function is called with (one record, or one
re-batched group when fn_batch_size is set).  The oracle is the C08 reference
interpreter evaluated with the failing units removed (DESIGN section 4, C08
rule 7 and C12).

skipping on   the delivered stream equals the oracle (sequence for num_threads
              0/1, multiset for 2), sinks saw exactly the surviving records,
              sinks closed, helper threads ended, next() after the end stops
skipping off  an exception reaches the caller whose __cause__/__context__ chain
              holds the original exception object; what was delivered before
              is a prefix of the failure-free stream; nothing was processed
              after the first error; a further next() yields no data; sinks are
              closed; threading.enumerate() returns to its baseline

Mechanism keys of the genuine defects found on the unchanged tree (kept firing):
  filter-does-not-skip-errors
      FilterFn.iterate never passes ignore_error: the error surfaces, or (when
      another operator follows) everything after the failing record is lost
  assign-with-batch-size-loses-tail-after-skipped-error
      Assign with batch_size > 0: the re-batching generator dies with the
      skipped error, every later record is silently dropped
  sink-before-failing-operator-stays-open-until-iterator-dropped:threads
      num_threads >= 1, skipping off: a sink upstream of the failing operator is
      closed only when the caller drops the iterator
Other violations are keyed '<kind>:<failing target>[:rebatch][:threads]'.

Scenario families of `vlib/c12_ext.py` (added after the independent pipeline
audit, audits/pipeline/hunt_2..5) and their root-cause keys, each attributed by
the scenario of the case, never by the symptom alone:
  srcfirst  failing source rows in front of every kind of first operator and of
            re-batching first operators, skipped by the source, by
            iterate(ignore_error=True), by both or by nobody
      source-error-with-input-rebatching-truncates-stream
          rows fail in the source, only iterate() skips, the first operator has
          fn_batch_size: the input-side re-batcher dies with the passing error
      source-error-first-operator-assign-filter-sink-indexerror
          same scenario, first operator assign / filter / sink:
          IndexError('No element left.') from the input tee
  release   chained named stages with num_threads 0..3, a failing aggregate or a
            failing operator of a later stage; bounded wait, then no thread
            named after a stage may be alive (no maybe_stop() before the verdict)
      threads-not-released-after-aggregate-error         (threads of the stage
          whose aggregate failed)
      threads-not-released-after-downstream-stage-error  (threads of a stage
          upstream of the failing one)
      iterator-yields-data-after-aggregate-error         (next() after the error
          of an aggregate delivers further records)
  tsink     sinks under num_threads 0..3 with slow records
      threaded-sink-closed-per-worker-thread  (num_threads >= 2: close() per
          worker, writes after the first close)

Two further families of `vlib/c12_ext.py` (third audit round, audits/pipeline/round3
hunt_3 and audits/sharding/round3 hunt_3), again attributed by the scenario:
  fresult   the failure class "the operator's function returns normally but its RESULT
            is unusable by the operator": a filter predicate whose result cannot be
            truth-tested for the chosen units (a 2-element ndarray, or an object whose
            __bool__ raises ValueError / TypeError), the filter being the only / first /
            a middle / the last operator of the chain, num_threads 0..2, skipping on /
            off. Oracle: exactly as when the predicate itself raises for these units.
      filter-truth-test-outside-error-skipping
          skipping on: the truth test runs outside the skipped call; the stream ends
          silently at the failing record, or the error aborts the run
  restore   a chain with a sink, single-threaded, over a SequenceDataSource: c records
            are taken, the iterator is checkpointed and restored (it.from_state(
            it.state)), the ORIGINAL iterator is dropped (del + gc.collect()) before or
            while the restored one runs to the end. Oracle: every record is delivered
            and written exactly once over original + restored, close() is called
            exactly once, nothing is written after it.
      abandoned-pre-restore-iterator-closes-shared-sink
          the finally of Sink.iterate in the dropped original closes the sink the
          restored iterator shares

Failing units are selected by position in the interpreter's evaluation and
communicated to the real run by the canonical text of the call arguments, so
the real function and the oracle fail on exactly the same calls, whatever the
thread interleaving.
"""

from __future__ import annotations

import gc
import itertools
import random
import threading
import time

ID = 'C12'
LEVEL = 'exploration'
RULE = (
    'a case is (chain of 1-5 operators around one failing operator kind from '
    'apply/assign/filter/sink and/or a failing random-access source with/without '
    'slice support, batching options fn_batch_size/batch_size in {0,1,2,3}, '
    'num_threads in {0,1,2}, skipping on/off, ValueError/TypeError, failure set); '
    'plus three families: srcfirst = (first operator kind from apply/select/assign/'
    'filter/sink/batch and their fn_batch_size/batch_size variants, who skips the '
    'failing source rows: source/iterate/both/nobody, num_threads, failing rows), '
    'release = (1-3 chained named stages with num_threads 0..3, 4-60 (thorough: 4-250) records, failing '
    'aggregate update call or failing operator units of a later stage, skipping '
    'on/off) followed by a bounded wait for the helper threads, tsink = (chain with '
    'a sink, num_threads 0..3, slow units of one operator); '
    'fresult = (filter as the only / first / a middle / the last operator of a chain '
    'of <= 5 operators, num_threads 0..2, skipping on/off, the predicate RESULT of the '
    'chosen units is not truth-testable: 2-element ndarray or object whose __bool__ '
    'raises ValueError/TypeError; every subset of <= 2 and 8 random subsets of 3 '
    'failing positions); restore = (chain with >= 1 sink over a SequenceDataSource, '
    'num_threads 0, checkpoint after c in 0..len deliveries, it.from_state(it.state), '
    'the original dropped after d further deliveries of the restored iterator); '
    'quick: EVERY subset of <= 3 failing positions of the <= 8 units of each '
    'scenario, thorough: random subsets of <= 6 positions of streams of <= 30 '
    'records; non-trivial = >= 1 failing unit with a surviving unit after it; '
    'distinct = hash of the whole spec')
ASSUMPTIONS = [
    'C08 assumptions (resolvable keys only, documented-valid assign/batch '
    'placements, pure function pool); chains avoid the known C08 defect triggers',
    'the failing function raises before doing anything else; every exception of a '
    'user function is skippable, source errors are ValueError/TypeError raised by '
    '__getitem__ of a random-access object behind SequenceDataSource and are skippable '
    'by SequenceDataSource(ignore_error=True) as well as by iterate(ignore_error=True) '
    '(the property quantifies over failing elements in the data source)',
    'assign/filter/sink pair each unit with its own record, so with failures their '
    'batch options are restricted to the unit == record cases (fn_batch_size in '
    '{0, B}, batch_size in {0, B}, B = rows per record); apply/select re-batch freely',
    'num_threads=2 only with operators that do not re-batch (group composition '
    'would depend on the interleaving) and compared as multisets; num_threads=1 '
    'keeps order and is compared as a sequence',
    'the random-access source returns eager lists from slices (or refuses slices '
    'with TypeError); lazily evaluated slices are not generated',
    'sinks are checked closed after the caught exception has been released and '
    'gc.collect() ran (frames referenced by a live traceback keep generators open)',
    'in the failure scenarios with num_threads=2 close() calls per worker thread and '
    'writes after the first close are observed only; they are judged in the failure-free '
    'tsink family (every record written once, close() exactly once after the last '
    'write has returned; a slow record sleeps inside a user function or inside write())',
    'an aggregate error is not skippable: aggregates fail only with skipping off; '
    'release / tsink chains hold no re-batching operator and no batch()',
    'release: helper threads are the live threads whose name carries a stage name '
    '(stages get unique names); the verdict is taken after the run has ended and a '
    'bounded wait of 4 s, before any maybe_stop(); idle pool workers of a pool that '
    'was never shut down count as alive; a watchdog expiry of the run itself is '
    'inconclusive; sinks of release cases are not judged',
    'fresult: a predicate result that cannot be truth-tested is a failure of the '
    'element like a raising predicate (the property quantifies over failing elements '
    '"in any operator"); with a 2-element ndarray result the original exception is '
    'created by numpy, it is recognised in the cause chain by its text',
    'restore: chains hold no re-batching operator and no batch(), num_threads=0; the '
    'checkpoint is taken between deliveries, restored on the iterator that produced it '
    'with the state object as is; the sink is the same object for both iterators (the '
    'pipeline object is shared); a restore whose original never delivered a record '
    '(cut 0) is a control',
]
REQUIRED = ['noop_stage_checks', 'skip_on_checks', 'skip_off_checks', 'cause_chain_checks',
            'next_after_error_checks', 'sink_closed_checks', 'thread_baseline_checks',
            'prefix_checks', 'selftest_checks',
            'fail_apply', 'fail_assign', 'fail_filter', 'fail_sink', 'fail_source',
            'threads_0', 'threads_1', 'threads_2', 'rebatch_fail_checks',
            'source_slice_checks', 'source_noslice_checks', 'source_merged_checks',
            'exc_ValueError', 'exc_TypeError',
            'srcfirst_checks', 'first_apply', 'first_select', 'first_assign',
            'first_filter', 'first_sink', 'first_batch', 'first_rebatch_apply',
            'first_rebatch_select', 'first_rebatch_assign', 'src_skipped_by_iterate',
            'src_skipped_by_own', 'src_skipped_by_both', 'src_skipped_by_none',
            'release_checks', 'release_fault_agg', 'release_fault_op',
            'release_fault_none', 'release_error_checks', 'release_no_error_checks',
            'release_thread_checks', 'release_helper_threads_identified',
            'release_stage_threads_1', 'release_stage_threads_2',
            'release_stage_threads_3', 'release_next_after_end_checks',
            'tsink_checks', 'tsink_threads_0', 'tsink_threads_1', 'tsink_threads_2',
            'tsink_threads_3', 'tsink_written_once_checks', 'tsink_close_once_checks',
            'tsink_slow_records_slept', 'tsink_thread_checks',
            'fresult_checks', 'fresult_pos_only', 'fresult_pos_first',
            'fresult_pos_middle', 'fresult_pos_last', 'fresult_form_array2',
            'fresult_form_boolraises', 'fresult_skip_on', 'fresult_skip_off',
            'fresult_unusable_results_returned',
            'restore_checks', 'restore_cut_inside', 'restore_cut_0', 'restore_cut_end',
            'restore_dropped_before_restored_runs', 'restore_dropped_while_restored_runs',
            'restore_written_once_checks', 'restore_close_once_checks',
            'restore_delivered_once_checks']
CHUNK_TIMEOUT_S = {'quick': 240, 'thorough': 3000}
TARGETS = ['apply', 'assign', 'filter', 'sink', 'source', 'source+apply', 'apply_rebatch',
           'assign_rebatch']
READ_LIMIT = 1000
WAIT_S = 5.0
HANG_S = 20.0
_LINGER = {'seen': 0}


def plan(tier, seed):
  if tier == 'quick':
    n_scen, chunks = 432, 24
  else:
    n_scen, chunks = 12288, 64
  per = n_scen // chunks
  from vlib import c12_ext
  # the families of vlib/c12_ext.py first: their `release` chunks end with a bounded wait
  specs = [{'mode': 'selftest'}] + c12_ext.plan(tier, seed)
  for j in range(2 if tier == 'quick' else 8):
    specs.append({'mode': 'noopstage', 'rseed': seed, 'index': j,
                  'count': 60 if tier == 'quick' else 600})
  for c in range(chunks):
    specs.append({'mode': 'scenarios', 'rseed': seed, 'lo': c * per, 'hi': (c + 1) * per})
  return specs


# ---------------------------------------------------------------------------
# Failing functions / sources
# ---------------------------------------------------------------------------


class Runaway(BaseException):
  """The source was read far more often than any correct iteration needs."""


class Poison:
  """Wraps a user function: raises for the calls whose arguments are in `bad`."""

  def __init__(self, fn, bad, exc):
    self.fn, self.bad, self.exc = fn, bad, exc
    self.raised = []
    self.lock = threading.Lock()

  def __call__(self, *args, **kwargs):
    from vlib import pipeline_gen as g
    key = g.canon((args, sorted(kwargs.items())))
    if key in self.bad:
      e = self.exc(f'poisoned call {key[:60]}')
      with self.lock:
        self.raised.append(e)
      raise e
    return self.fn(*args, **kwargs) if self.fn is not None else None


class Untestable:
  """A function result that cannot be truth-tested: bool() raises."""

  def __init__(self, owner, key):
    self.owner, self.key = owner, key

  def __bool__(self):
    e = self.owner.exc(f'the result of call {self.key[:60]} has no truth value')
    with self.owner.lock:
      self.owner.raised.append(e)
    raise e


class PoisonResult(Poison):
  """Wraps a user function: for the calls whose arguments are in `bad` it returns
  normally, but a RESULT the operator cannot use (not truth-testable)."""

  ARRAY_TEXT = 'truth value of an array'

  def __init__(self, fn, bad, exc, form):
    super().__init__(fn, bad, exc)
    self.form = form
    self.returned = 0

  def __call__(self, *args, **kwargs):
    from vlib import pipeline_gen as g
    key = g.canon((args, sorted(kwargs.items())))
    if key in self.bad:
      with self.lock:
        self.returned += 1
      if self.form == 'array2':
        import numpy as np
        return np.array([True, False])
      return Untestable(self, key)
    return self.fn(*args, **kwargs) if self.fn is not None else None


class Probe:
  """Records the canonical arguments of every call (dry pass of the oracle)."""

  def __init__(self, fn):
    self.fn, self.keys = fn, []

  def __call__(self, *args, **kwargs):
    from vlib import pipeline_gen as g
    self.keys.append(g.canon((args, sorted(kwargs.items()))))
    return self.fn(*args, **kwargs) if self.fn is not None else None


class RaisingSeq:
  """Random-access sequence raising at chosen indices."""

  def __init__(self, data, bad, exc, slicing, shared=None):
    self.data, self.bad, self.exc, self.slicing = list(data), set(bad), exc, slicing
    self.shared = shared if shared is not None else {'reads': 0, 'raised': [],
                                                     'runaway': False}
    self.lock = threading.Lock()

  def __len__(self):
    return len(self.data)

  def _fail(self, i):
    e = self.exc(f'source fails at {i}')
    with self.lock:
      self.shared['raised'].append(e)
    raise e

  def __getitem__(self, i):
    with self.lock:
      self.shared['reads'] += 1
      if self.shared['reads'] > READ_LIMIT:
        self.shared['runaway'] = True
        raise Runaway()
    if isinstance(i, slice):
      if not self.slicing:
        raise TypeError('this sequence does not support slices')
      idxs = range(*i.indices(len(self.data)))
      for j in idxs:
        if j in self.bad:
          self._fail(j)
      return [self.data[j] for j in idxs]
    if i < 0:
      i += len(self.data)
    if i in self.bad:
      self._fail(i)
    return self.data[i]


EXC = {'ValueError': ValueError, 'TypeError': TypeError}


# ---------------------------------------------------------------------------
# Oracle
# ---------------------------------------------------------------------------


def oracle(case, records):
  """Returns dict(want, want_nofail, sinks, bad={op index: canon set}, n_failing,
  survivor_after) from the reference interpreter."""
  from vlib import pipeline_gen as g
  from vlib.oracles import pipeline_interp as interp
  chain = case['chain']
  fail = {int(k): v for k, v in case.get('fail', {}).items()}
  src = case.get('src') or {}
  src_bad = set(src.get('bad', [])) & set(range(len(records)))
  stream = [r for i, r in enumerate(records) if i not in src_bad]
  n_failing = len(src_bad)
  survivor_after = bool(src_bad) and any(
      i not in src_bad for i in range(min(src_bad), len(records)))
  # failure-free reference (source records skipped by the source itself removed)
  want_nofail, _ = interp.run_chain(
      chain, stream if src.get('ignore') else records, g.resolve)
  import copy
  stream = [copy.deepcopy(r) for r in stream]
  bad, sink_logs = {}, []
  for i, op in enumerate(chain):
    fn = g.resolve(op)
    keys = set()
    if i in fail:
      probe = Probe(fn)
      interp.run_op(op, stream, lambda _op, p=probe: p, skip=True)
      keys = {probe.keys[p] for p in fail[i]['pos'] if p < len(probe.keys)}
      first_bad = min((j for j, k in enumerate(probe.keys) if k in keys), default=None)
      n_failing += sum(1 for k in probe.keys if k in keys)
      if first_bad is not None and any(k not in keys for k in probe.keys[first_bad:]):
        survivor_after = True
    bad[i] = keys
    poison = Poison(fn, keys, ValueError)
    use = (lambda _op, p=poison: p) if (keys or op['op'] == 'sink') else g.resolve
    log = []
    stream = interp.run_op(op, stream, use, skip=True, sink_log=log)
    if op['op'] == 'sink':
      sink_logs.append(log)
  return {'want': stream, 'want_nofail': want_nofail, 'sinks': sink_logs, 'bad': bad,
          'n_failing': n_failing, 'survivor_after': survivor_after}


# ---------------------------------------------------------------------------
# Real run
# ---------------------------------------------------------------------------


def make_source(case, records):
  """Returns (iterable for iterate(), shared state of the raising source)."""
  from ml_metrics._src.chainables import io
  src = case.get('src')
  feed = case['feed']
  if not src:
    if feed == 'seq_ds':
      return io.SequenceDataSource(records), None
    return records, None
  exc = EXC[src['exc']]
  ign = src['ignore']
  if src.get('split') is None:
    seq = RaisingSeq(records, src['bad'], exc, src['slicing'])
    return io.SequenceDataSource(seq, ignore_error=ign), seq.shared
  cut = src['split']
  first = RaisingSeq(records[:cut], [b for b in src['bad'] if b < cut], exc,
                     src['slicing'])
  second = RaisingSeq(records[cut:], [b - cut for b in src['bad'] if b >= cut], exc,
                      src['slicing'], shared=first.shared)
  return io.SequenceDataSource.from_sequences([first, second], ignore_error=ign), \
      first.shared


def in_chain(err, originals):
  """True if one of `originals` is `err` or in its __cause__/__context__ chain."""
  seen, todo = set(), [err]
  while todo:
    e = todo.pop()
    if e is None or id(e) in seen:
      continue
    seen.add(id(e))
    if any(e is o for o in originals):
      return True
    todo.extend([e.__cause__, e.__context__])
  return False


def consume(it, limit):
  """Iterates until the end or an error; returns (items, error or None, overrun)."""
  got = []
  try:
    for x in it:
      got.append(x)
      if len(got) > limit:
        return got, None, True
  except Runaway:
    return got, 'runaway', False
  except Exception as e:  # pylint: disable=broad-exception-caught
    return got, e, False
  return got, None, False


def _digest_result(res, poisons, shared):
  """Reduces (items, error, overrun) to plain data; keeps no exception alive."""
  got, err, overrun = res
  op_raised = [e for p in poisons.values() for e in p.raised]
  raised = op_raised + (shared['raised'] if shared is not None else [])
  obs = {'got': got, 'overrun': overrun, 'runaway': err == 'runaway',
         'err_repr': None, 'in_chain': None, 'first_in_chain': None,
         'n_raised_ops': len(op_raised)}
  if isinstance(err, Exception):
    obs['err_repr'] = f'{type(err).__name__}: {str(err)[:160]}'
    obs['in_chain'] = in_chain(err, raised)
    obs['first_in_chain'] = (in_chain(err, op_raised[:1])
                             if op_raised and shared is None else None)
    if any(getattr(p, 'form', None) == 'array2' and p.returned for p in poisons.values()):
      # the exception object is numpy's: recognised by its text
      obs['in_chain'] = obs['in_chain'] or text_in_chain(err, PoisonResult.ARRAY_TEXT)
  obs['n_unusable_results'] = sum(getattr(p, 'returned', 0) for p in poisons.values())
  return obs


def text_in_chain(err, text):
  seen, todo = set(), [err]
  while todo:
    e = todo.pop()
    if e is None or id(e) in seen:
      continue
    seen.add(id(e))
    if text in str(e):
      return True
    todo.extend([e.__cause__, e.__context__])
  return False


def real_run(case, records, bad):
  """Runs the real pipeline; returns a dict of observations."""
  from vlib import pipeline_gen as g
  chain = case['chain']
  fail = {int(k): v for k, v in case.get('fail', {}).items()}
  poisons = {}

  def resolve_fn(op):
    i = op['id']
    fn = g.resolve(op)
    if bad.get(i):
      if fail[i].get('mode') == 'result':
        poisons[i] = PoisonResult(fn, bad[i], EXC[fail[i]['exc']], fail[i]['form'])
      else:
        poisons[i] = Poison(fn, bad[i], EXC[fail[i]['exc']])
      return poisons[i]
    return fn

  baseline = set(threading.enumerate())
  t, sinks = g.build(chain, resolve_fn, num_threads=case['num_threads'])
  source, shared = make_source(case, records)
  if (case.get('src') or {}).get('via_state'):
    # The data source as a worker / a recovered iterator sees it: rebuilt from
    # its recorded state (same elements, same error-skipping configuration).
    source = source.from_state(source.state)
  it = t.make().iterate(source, ignore_error=case['ignore_error'])
  box = {}

  def work():
    box['res'] = consume(it, 10 * len(records) + 50)

  if case['num_threads'] or shared is not None:
    th = threading.Thread(target=work, daemon=True, name='c12-consumer')
    th.start()
    deadline = time.time() + HANG_S
    while th.is_alive() and time.time() < deadline:
      th.join(0.02)
      if shared is not None and shared['runaway']:
        th.join(0.2)
        break
    if th.is_alive():
      return {'hang': True, 'runaway': bool(shared and shared['runaway']),
              'sinks': sinks}
  else:
    work()
  obs = _digest_result(box.pop('res'), poisons, shared)
  obs.update(sinks=sinks, hang=False)
  # a further next() must not yield data
  extra = []
  for _ in range(2):
    try:
      extra.append(('data', next(it)))
    except StopIteration:
      extra.append(('stop', None))
    except Runaway:
      extra.append(('runaway', None))
    except Exception as e:  # pylint: disable=broad-exception-caught
      extra.append(('error', type(e).__name__))
  obs['extra'] = extra
  obs['closed_while_error_alive'] = [s.closed for s in sinks]
  for p in poisons.values():        # the harness must not keep tracebacks alive
    p.raised.clear()
  if shared is not None:
    shared['raised'].clear()
  if not all(s.closed for s in sinks):
    gc.collect()
  obs['closed'] = [s.closed for s in sinks]
  # bounded wait; once two cases of this process saw lingering threads the bound
  # shrinks so that a systematic leak does not cost WAIT_S per case
  deadline = time.time() + (WAIT_S if _LINGER["seen"] < 2 else 0.05)
  while True:
    alive = [x for x in set(threading.enumerate()) - baseline if x.is_alive()]
    if not alive or time.time() > deadline:
      break
    time.sleep(0.01)
  if alive:
    _LINGER['seen'] += 1
  obs['threads_alive'] = [x.name for x in alive]
  del it
  if not all(s.closed for s in sinks):
    gc.collect()
  obs['closed_after_iterator_dropped'] = [s.closed for s in sinks]
  return obs


# ---------------------------------------------------------------------------
# Case check
# ---------------------------------------------------------------------------


def _target(case):
  chain = case['chain']
  parts = []
  if case.get('src'):
    parts.append('source')
  for k in sorted(case.get('fail', {}), key=int):
    op = chain[int(k)]
    parts.append(op['op'] + (':rebatch' if op.get('fbs') or op.get('bs') else ''))
  return '+'.join(parts) or 'none'


def _mech(kind, case, err_repr=None):
  from vlib import c12_ext
  special = c12_ext.srcfirst_mechanism(kind, case, err_repr) or \
      c12_ext.fresult_mechanism(kind, case)
  if special:
    return special
  target = _target(case)
  skipping_on = case['ignore_error']
  if skipping_on and kind in ('stream_differs', 'raised_while_skipping', 'sink_records',
                              'data_after_end'):
    # root causes of the two known defects (see the final report / known findings)
    if 'filter' in target.split('+'):
      return 'filter-does-not-skip-errors'
    if 'assign:rebatch' in target.split('+'):
      return 'assign-with-batch-size-loses-tail-after-skipped-error'
  m = f'{kind}:{target}'
  if case['num_threads']:
    m += ':threads'
  return m


def multiset(xs):
  from vlib import pipeline_gen as g
  return sorted(g.canon(x) + '|' + repr(x) for x in xs)


def check_case(ctx, case):
  from vlib import pipeline_gen as g
  from vlib.props import C08
  records = g.dec(case['records'])
  chain = case['chain']
  nt = case['num_threads']
  from vlib.oracles import pipeline_interp as interp
  try:
    ora = oracle(case, records)
  except (interp.RouteError, interp.Undefined):
    # removing the failing units changed the schema seen by a later operator
    # (e.g. a shorter last re-batched group): outside the workload (DESIGN C08.7)
    ctx.count('skipped_key_unresolvable_after_removal')
    return
  except Exception as e:  # pylint: disable=broad-exception-caught
    ctx.inconclusive_case(f'oracle failed: {type(e).__name__}: {e}', case)
    return
  ctx.case(('c12', case), ora['n_failing'] >= 1 and ora['survivor_after'])
  for k in case.get('fail', {}):
    op = chain[int(k)]
    ctx.count('fail_' + op['op'])
    ctx.count('exc_' + case['fail'][k]['exc'])
    if op.get('fbs') or op.get('bs'):
      ctx.count('rebatch_fail_checks')
  if case.get('src'):
    ctx.count('fail_source')
    ctx.count('exc_' + case['src']['exc'])
    ctx.count('source_slice_checks' if case['src']['slicing'] else 'source_noslice_checks')
    if case['src'].get('split') is not None:
      ctx.count('source_merged_checks')
  ctx.count(f'threads_{nt}')
  if case.get('family') == 'srcfirst':
    base, _, rb = case['first'].partition('_')
    ctx.count('srcfirst_checks')
    ctx.count('first_' + base)
    if rb:
      ctx.count('first_rebatch_' + base)
    ctx.count('src_skipped_by_' + case['src_mode'])
  if case.get('family') == 'fresult':
    ctx.count('fresult_checks')
    ctx.count('fresult_pos_' + case['pos'])
    ctx.count('fresult_skip_' + ('on' if case['ignore_error'] else 'off'))
    for f in case.get('fail', {}).values():
      ctx.count('fresult_form_' + f['form'])
  if len(ctx.samples) < 2 and ora['n_failing'] >= 2:
    ctx.sample({k: v for k, v in case.items()})

  obs = real_run(case, g.dec(case['records']), ora['bad'])
  if obs.get('n_unusable_results'):
    ctx.count('fresult_unusable_results_returned', obs['n_unusable_results'])

  def viol(kind, detail):
    from vlib import c12_ext
    mech = _mech(kind, case, obs.get('err_repr'))
    ctx.count('viol:' + mech)
    if not c12_ext.keep_witness(ctx, kind, mech):
      return
    ctx.violation(kind, case, dict(detail, target=_target(case),
                                   chain=[C08.op_tags(op) for op in chain]),
                  mechanism=mech)

  if obs['hang']:
    if obs['runaway']:
      viol('source_read_runaway', {'note': f'> {READ_LIMIT} reads of the source'})
    else:
      ctx.inconclusive_case(f'real run did not finish within {HANG_S} s', case)
    return
  if obs['runaway']:
    viol('source_read_runaway', {'note': f'> {READ_LIMIT} reads of the source'})
    return
  if obs['overrun']:
    viol('endless_stream', {'delivered': len(obs['got'])})
    return

  src = case.get('src')
  # operator errors are skipped by iterate(ignore_error=True); failing source rows
  # by the source's own ignore_error or by iterate(ignore_error=True)
  op_error = any(ora['bad'].values()) and not case['ignore_error']
  src_error = bool(src) and bool(set(src['bad']) & set(range(len(records)))) and \
      not (src['ignore'] or case['ignore_error'])
  expect_error = op_error or src_error
  seq_eq = (lambda a, b: C08.same(a, b)) if nt <= 1 else \
      (lambda a, b: multiset(a) == multiset(b))

  if not expect_error:
    ctx.count('skip_on_checks')
    if obs['err_repr'] is not None:
      viol('raised_while_skipping', {'error': obs['err_repr'],
                                     'delivered': C08.short(obs['got']),
                                     'want': C08.short(ora['want'])})
    elif not seq_eq(obs['got'], ora['want']):
      viol('stream_differs', {'got': C08.short(obs['got'], 400),
                              'want': C08.short(ora['want'], 400)})
    else:
      for j, (sink, log) in enumerate(zip(obs['sinks'], ora['sinks'], strict=True)):
        if not seq_eq(sink.data, log):
          viol('sink_records', {'sink': j, 'got': C08.short(sink.data),
                                'want': C08.short(log)})
          break
  else:
    ctx.count('skip_off_checks')
    if obs['err_repr'] is None:
      viol('error_swallowed', {'delivered': C08.short(obs['got']),
                               'failing_units': ora['n_failing']})
    else:
      ctx.count('cause_chain_checks')
      if not obs['in_chain']:
        viol('original_exception_not_in_chain', {'error': obs['err_repr']})
      elif nt <= 1 and obs['first_in_chain'] is False:
        viol('not_the_first_error', {'error': obs['err_repr']})
      if nt <= 1 and obs['n_raised_ops'] > 1:
        viol('processing_continued_after_error', {'raises': obs['n_raised_ops']})
      ctx.count('prefix_checks')
      ref = ora['want_nofail']
      if nt <= 1:
        ok = len(obs['got']) <= len(ref) and C08.same(obs['got'], ref[:len(obs['got'])])
      else:
        pool = multiset(ref)
        ok = all(x in pool for x in multiset(obs['got']))
      if not ok:
        viol('wrong_data_before_error', {'got': C08.short(obs['got']),
                                         'failure_free': C08.short(ref)})
  ctx.count('next_after_error_checks')
  if any(k == 'data' for k, _ in obs['extra']):
    viol('data_after_end', {'extra': C08.short(obs['extra'])})
  if obs['sinks']:
    ctx.count('sink_closed_checks')
    if not all(obs['closed']) and nt and all(obs['closed_after_iterator_dropped']) \
        and obs['err_repr'] is not None:
      mech = 'sink-before-failing-operator-stays-open-until-iterator-dropped:threads'
      ctx.count('viol:' + mech)
      ctx.violation('sink_not_closed', case, {
          'closed': obs['closed'], 'closed_after_iterator_dropped': True,
          'error': obs['err_repr'], 'target': _target(case),
          'chain': [C08.op_tags(op) for op in chain]}, mechanism=mech)
    elif not all(obs['closed']):
      viol('sink_not_closed', {
          'closed': obs['closed'],
          'closed_after_iterator_dropped': obs['closed_after_iterator_dropped'],
          'error': obs['err_repr']})
    elif not all(obs['closed_while_error_alive']):
      ctx.observe('sink_closed_only_after_exception_released', _target(case))
    if any(s.writes_after_close for s in obs['sinks']):
      ctx.observe('sink_write_after_close', f'num_threads={nt}')
    if nt <= 1 and any(s.close_calls > 1 for s in obs['sinks']):
      ctx.observe('sink_closed_more_than_once', f'num_threads={nt}')
  ctx.count('thread_baseline_checks')
  if obs['threads_alive']:
    viol('helper_threads_alive', {'threads': obs['threads_alive'], 'waited_s': WAIT_S})


# ---------------------------------------------------------------------------
# Scenarios
# ---------------------------------------------------------------------------

GRID_APPLY = [(f, b) for f in range(4) for b in range(4) if b or not f]
ALL_KINDS = None


def gen_scenario(rseed, sidx, tier):
  """Returns a base case (without failure positions) plus the unit counts."""
  from vlib import pipeline_gen as g
  from vlib.oracles import pipeline_interp as interp
  rng = random.Random(f'C12:{rseed}:{sidx}')
  target = TARGETS[sidx % len(TARGETS)]
  nt = (sidx // len(TARGETS)) % 3
  ignore = (sidx // (3 * len(TARGETS))) % 2 == 0
  exc = ['ValueError', 'TypeError'][(sidx // (6 * len(TARGETS))) % 2]
  variant = sidx // (12 * len(TARGETS))
  if nt == 2 and target.endswith('_rebatch'):
    nt = 1
  n_max = 8 if tier == 'quick' else rng.choice([8, 12, 20, 30])
  rebatch = target.endswith('_rebatch')
  kind = target.split('_')[0].split('+')[-1]
  kinds_ctx = [k for k in g.KINDS if k != 'batch' or nt < 2]
  for _ in range(60):
    if rebatch:
      keys = rng.choice([['a'], ['a', 'b']])
      rows = rng.choice([1, 2, 3])
      n = rng.randint(3, min(n_max, 8 if tier == 'quick' else 30))
      records = []
      for r in range(n):
        b = 100 * (r + 1)
        k_rows = rows if kind == 'assign' else rng.randint(1, 3)
        records.append({k: [b + 10 * j + i for i in range(k_rows)]
                        for j, k in enumerate(keys)})
    else:
      shape = rng.choice(['dict', 'dict', 'list', 'int', 'tuple'])
      _, records = g.gen_records(rng, shape=shape, n=rng.randint(4, n_max))
    ok_rebatch = nt < 2
    state = g.gen_chain(rng, records, rng.choice([0, 0, 1, 2]), kinds=kinds_ctx,
                        rebatch_ok=ok_rebatch and not rebatch, c12_assign=True)
    if not state[1] or (kind != 'source' and len(state[1]) < 3):
      continue
    tidx = None
    if kind != 'source' or target == 'source+apply':
      want_kind = 'apply' if target == 'source+apply' else kind
      op = None
      grid = None
      if rebatch and kind == 'apply':
        grid = GRID_APPLY[(variant + sidx) % len(GRID_APPLY)]
      for _try in range(300):
        op = g.propose(rng, state[1], state[2], kinds=[want_kind],
                       rebatch_ok=rebatch, c12_assign=True)
        if op is None or g.op_triggers(op, state[2]):
          op = None
          continue
        if want_kind == 'assign' and not g.assign_is_documented_valid(state[2], op['out']):
          op = None
          continue
        has_rb = bool(op.get('fbs') or op.get('bs'))
        if has_rb != rebatch:
          op = None
          continue
        if grid and (op.get('fbs', 0), op.get('bs', 0)) != grid:
          op = None
          continue
        try:
          state2 = g._extend(state, op)  # pylint: disable=protected-access
        except Exception:  # pylint: disable=broad-exception-caught
          op = None
          continue
        break
      if op is None:
        continue
      tidx = len(state[0])
      state = state2
    if state[1]:
      state = g.gen_chain(rng, records, rng.choice([0, 1, 1, 2]), kinds=kinds_ctx,
                          rebatch_ok=ok_rebatch and not rebatch, c12_assign=True,
                          state=state)
    chain = state[0]
    if not chain:
      continue
    for i, op in enumerate(chain):
      op['id'] = i
    case = {'chain': chain, 'records': g.enc(records), 'num_threads': nt,
            'ignore_error': ignore, 'feed': rng.choice(['list', 'list', 'seq_ds']),
            'fail': {}, 'src': None}
    units = {}
    if tidx is not None:
      # number of units the target operator sees (failure-free evaluation)
      stream = [g.dec(g.enc(r)) for r in records]
      for op in chain[:tidx]:
        stream = interp.run_op(op, stream, g.resolve)
      probe = Probe(g.resolve(chain[tidx]))
      interp.run_op(chain[tidx], stream, lambda _op: probe, skip=True)
      units['op'] = (tidx, len(probe.keys), exc)
      if len(probe.keys) < 2:
        continue
    if kind == 'source' or target == 'source+apply':
      src_ignore = ignore or (variant % 2 == 1)
      case['src'] = {'bad': [], 'exc': exc, 'slicing': rng.random() < 0.5,
                     'ignore': src_ignore, 'via_state': rng.random() < 0.4,
                     'split': rng.randint(0, len(records)) if rng.random() < 0.35 else None}
      case['feed'] = 'raising_seq'
      units['src'] = len(records)
    return case, units
  return None, None


def subsets(n, tier, rng):
  if tier == 'quick':
    n = min(n, 8)
    for k in (1, 2, 3):
      yield from itertools.combinations(range(n), k)
  else:
    for _ in range(40):
      k = rng.randint(1, min(6, n))
      yield tuple(sorted(rng.sample(range(n), k)))


def run_scenario(ctx, rseed, sidx, tier):
  import copy
  case, units = gen_scenario(rseed, sidx, tier)
  if case is None:
    ctx.count('scenario_not_generated')
    return
  ctx.count('scenarios')
  rng = random.Random(f'C12S:{rseed}:{sidx}')
  if 'op' in units and 'src' in units:
    tidx, n_units, exc = units['op']
    for pos in subsets(n_units, tier, rng):
      c = copy.deepcopy(case)
      c['fail'] = {str(tidx): {'pos': list(pos), 'exc': exc}}
      c['src']['bad'] = sorted(rng.sample(range(units['src']),
                                          rng.randint(1, min(2, units['src']))))
      check_case(ctx, c)
  elif 'op' in units:
    tidx, n_units, exc = units['op']
    for pos in subsets(n_units, tier, rng):
      c = copy.deepcopy(case)
      c['fail'] = {str(tidx): {'pos': list(pos), 'exc': exc}}
      check_case(ctx, c)
  else:
    for pos in subsets(units['src'], tier, rng):
      c = copy.deepcopy(case)
      c['src']['bad'] = list(pos)
      check_case(ctx, c)
  c = copy.deepcopy(case)           # the failure-free twin of the scenario
  ctx.count('failure_free_twins')
  check_case(ctx, c)


# ---------------------------------------------------------------------------
# Stages without an operator in front of a failing source
# ---------------------------------------------------------------------------


class _BadRows:
  """Random access source: the rows in `bad` cannot be read."""

  def __init__(self, n, bad):
    self._n, self._bad = n, set(bad)

  def __len__(self):
    return self._n

  def __getitem__(self, i):
    if isinstance(i, slice):
      return [self[j] for j in range(*i.indices(self._n))]
    if i in self._bad:
      raise ValueError(f'unreadable row {i}')
    return i


class _Collect:

  def create_state(self):
    return []

  def update_state(self, state, x):
    return state + [x]

  def merge_states(self, states):
    return [x for st in states for x in st]

  def get_result(self, state):
    return sorted(state)


def _times10(x):
  return x * 10


def check_noop_stage_case(ctx, case):
  """The stage that owns the data source has no operator (source -> aggregate, or a
  bare `read` stage chained to a `proc` stage): skipping still drops only the
  unreadable rows, with and without worker threads on the reading stage."""
  import threading as _th
  from ml_metrics._src.chainables import io, transform
  T = transform.TreeTransform
  n, bad, nt, layout = case['n'], case['bad'], case['threads'], case['layout']
  ctx.case(('noopstage', n, tuple(bad), nt, layout), bool(bad))
  ctx.count('noop_stage_checks')
  good = [i for i in range(n) if i not in bad]

  def build():
    ds = io.SequenceDataSource(_BadRows(n, bad))
    if layout == 'agg_only':
      return T.new(name='read', num_threads=nt).data_source(ds).aggregate(
          fn=_Collect(), output_keys='seen'), good, good
    read = T.new(name='read', num_threads=nt).data_source(ds)
    proc = T.new(name='proc').apply(fn=_times10).aggregate(fn=_Collect(), output_keys='seen')
    return read.chain(proc), [g * 10 for g in good], [g * 10 for g in good]

  box = {}

  def run():
    p, want_out, want_agg = build()
    it = p.make().iterate(ignore_error=True)
    box['it'] = it
    outs = list(it)
    box['res'] = (sorted(outs), want_out, it.agg_result, want_agg)

  for attempt in (0, 1):
    box.clear()
    t = _th.Thread(target=_catch, args=(run, box), daemon=True, name='c12-noop')
    t.start()
    t.join(15)
    if not t.is_alive():
      break
    try:
      box['it'].maybe_stop()
    except Exception:  # pylint: disable=broad-exception-caught
      pass
  else:
    ctx.violation('no_completion_within_watchdog', case, {'attempts': 2, 'watchdog_s': 15},
                  mechanism='noop-stage-source-error:hang:' + ('threads' if nt else 'inline'))
    return
  if 'error' in box:
    ctx.violation('raised_while_skipping', case, {'error': box['error'][:300]},
                  mechanism='noop-stage-source-error:raised:' + layout)
    return
  outs, want_out, agg, want_agg = box['res']
  if outs != sorted(want_out) or dict(agg or {}).get('seen') != sorted(want_agg):
    ctx.violation('stream_differs', case,
                  {'got': outs[:30], 'want': sorted(want_out)[:30], 'agg': repr(agg)[:200]},
                  mechanism='noop-stage-source-error:rows-lost:' + layout)


def _catch(fn, box):
  try:
    fn()
  except Exception as e:  # pylint: disable=broad-exception-caught
    box['error'] = f'{type(e).__name__}: {e}'


def run_noop_stage_chunk(ctx, spec):
  rng = random.Random(spec['rseed'] * 2654435761 % (1 << 31) + spec['index'])
  for _ in range(spec['count']):
    n = rng.randint(1, 9)
    nbad = rng.choice([0, 1, 1, 2])
    check_noop_stage_case(ctx, {
        'family': 'noopstage', 'n': n, 'bad': sorted(rng.sample(range(n), min(nbad, n))),
        'threads': rng.choice([0, 0, 1, 2]), 'layout': rng.choice(['agg_only', 'read_proc'])})


def run_chunk(ctx, spec):
  if spec['mode'] == 'noopstage':
    run_noop_stage_chunk(ctx, spec)
    return
  if spec['mode'] == 'selftest':
    from vlib import pipeline_selftest
    from vlib.props import C08
    pipeline_selftest.run(ctx, C08.same)
    return
  if spec['mode'] != 'scenarios':
    from vlib import c12_ext
    c12_ext.run_chunk(ctx, spec)
    return
  for sidx in range(spec['lo'], spec['hi']):
    run_scenario(ctx, spec['rseed'], sidx, spec['tier'])


def run_case(ctx, case):
  if 'selftest' in case:
    from vlib import pipeline_selftest
    from vlib.props import C08
    pipeline_selftest.run(ctx, C08.same, only=case['selftest'])
  elif case.get('family') == 'noopstage':
    check_noop_stage_case(ctx, case)
  elif case.get('family') in ('release', 'tsink', 'restore'):
    from vlib import c12_ext
    c12_ext.run_case(ctx, case)
  else:
    check_case(ctx, case)
