"""C17 - Lazy expressions evaluate to what the eager expression would.

Every case is a history of operations (maybe_make direct / rebuilt / pickled, dereference
of lazy results, clear_cache, clear_object) over a pool of traced expression trees. The
real library runs in 'lazy' world; `vlib/oracles/c17_model.Model` is the eager twin that
evaluates the same callables eagerly and predicts hit / miss / evict of both bounded
caches with a reference LRU. After every operation the value, the per-callable call
counters, cache_info()/object_info() and the LruCache invariants are compared.

Two further case kinds: 'ident' histories request one expression OBJECT (a cached call whose
callable / argument hashes by identity and is pickled by value) directly and through the
pickler (`_classify_ident` decides whether a failure carries the identity-hash signature);
'conc' scenarios (vlib/c17conc.py) run 2-3 scheduler-controlled threads against fresh caches.
"""

from __future__ import annotations

import random

ID = 'C17'
LEVEL = 'exploration'
RULE = (
    'a case is (pool of expression trees, operation history, cache bounds), regenerated '
    'from (seed, chunk, index, kind): "tree" cases are one random tree of depth <= 5 '
    '(pure / stateful callables, Box/Acc attribute-item-call chains, lazies as positional '
    'and keyword arguments, legal cache_result_/lazy_result_ combinations) with a short '
    'make / pickle / clear / dereference history; "hist_*" cases are 300-3000 operations '
    'over more distinct cached expressions than the bound (128 LazyFn results, 1024 '
    'LazyObjects, or a harness-reduced bound); non-trivial = tree depth >= 2 or a history '
    'in which the reference LRU evicted; distinct = hash of the generator tuple. "ident" cases '
    'request ONE expression object (cached call with a lambda / closure / functools.partial '
    'callable or an identity-hashed argument, plus importable controls) 5-18 times directly and '
    'through the pickler. "conc" cases run 2-3 scheduler-controlled threads that request the '
    'same cached call (same_expr) or insert distinct cached calls into a full cache of bound '
    '1-4 (evict_race) under one seeded interleaving; distinct = (scenario, schedule trace)')
ASSUMPTIONS = [
    'constants are ints, strs, tuples of those and None: ==-equal values of different '
    'types (1, True, 1.0) never occur in one history (functools.lru_cache convention)',
    'bytes are not used as constants (maybe_make unpickles any bytes argument)',
    'unhashable constants (lists, dicts) only occur in trees without cache_result_ (a '
    'cached call is keyed by hash of callable and arguments)',
    'lazy_result_=True is generated at the root of an expression and at the head of an '
    'attribute / item / call chain (as in lazy_fns_test); as a plain function argument it '
    'hands the callee a LazyObject reference by design and is not generated',
    'callables never raise; the only expected error is LazyObjectMissingError',
    'reduced-bound histories set LruCache.maxsize from the harness before the first '
    'operation on empty caches and restore it afterwards',
    'histories are single-threaded; concurrent materialisation is exercised by the separate '
    '"conc" scenarios only (pre-emption at statement boundaries of _maybe_lru_cache / LruCache / '
    'LazyFn.__hash__/result_ and inside the user callables; a watchdog or step-bound '
    'expiry is inconclusive, never a verdict)',
    'conc scenarios re-decorate LazyFn.result_ / LazyObject.result_ with the library\'s own '
    '_maybe_lru_cache (fresh caches, scenario bound) after the threading shims are installed and '
    'restore the originals afterwards',
    'ident histories: the eager twin counts one evaluation per cached expression OBJECT (the '
    'LazyFn id survives pickling and LazyFn.__eq__ honours it); rebuilt expressions are not '
    'generated there (a new closure / Cfg object is a different expression)',
    'the direct LruCache sub-check writes a key only when it is absent (the only way the '
    'library writes); recency after overwriting a present key is unspecified',
]
REQUIRED = [
    'directed_cases', 'lru_decorator_checks', 'trees', 'histories', 'hist_fn_bound_128', 'hist_obj_bound_1024', 'hist_reduced_bound',
    'value_checks', 'counter_checks', 'cache_info_checks', 'object_info_checks',
    'lru_invariant_checks', 'lru_order_checks', 'identity_checks',
    'identity_same_generation', 'pickle_roundtrips',
    'pickle_eq_checks', 'deref_checks', 'missing_error_checks', 'both_flags_rejected',
    'predicted_hits', 'predicted_misses', 'predicted_evictions_fn',
    'predicted_evictions_obj', 'lru_direct_ops', 'evaluations_counted',
    'op:make', 'op:deref', 'op:use_ref', 'op:new_obj', 'op:clear_cache', 'op:clear_object',
    'flag:cache', 'flag:lazy_root', 'flag:lazy_chain', 'node:attr', 'node:item',
    'node:callres', 'node:lazy_arg', 'node:kwargs_lazy',
    'ident_histories', 'ident_pickled_makes', 'ident_control_pickled_makes',
    'conc_schedules', 'conc_same_expr', 'conc_evict_race', 'conc_line_preemptions',
    'conc_same_expr_checks', 'conc_evict_race_checks',
]
CHUNK_TIMEOUT_S = {'quick': 240, 'thorough': 3000}


def plan(tier, seed):
  specs = [{'mode': 'directed', 'index': 0, 'count': 0, 'rseed': seed}]
  if tier == 'quick':
    tree_chunks, per_tree = 16, 900
    hist = [('hist_fn', 8, 16), ('hist_obj', 8, 8), ('hist_small', 8, 30), ('ident', 4, 150),
            ('conc', 8, 120)]
    lru = (8, 300)
  else:
    tree_chunks, per_tree = 32, 12000
    hist = [('hist_fn', 16, 120), ('hist_obj', 16, 50), ('hist_small', 16, 360),
            ('ident', 8, 1500), ('conc', 16, 1500)]
    lru = (8, 5000)
  for i in range(tree_chunks):
    specs.append({'mode': 'tree', 'index': i, 'count': per_tree, 'rseed': seed})
  for kind, chunks, per in hist:
    for i in range(chunks):
      specs.append({'mode': kind, 'index': i, 'count': per, 'rseed': seed})
  for i in range(lru[0]):
    specs.append({'mode': 'lru_direct', 'index': i, 'count': lru[1], 'rseed': seed})
  return specs


# ---------------------------------------------------------------------------
# Case generation (deterministic from the generator tuple)
# ---------------------------------------------------------------------------


def _rng(gen):
  return random.Random('c17:' + ':'.join(str(x) for x in gen))


def gen_case(gen):
  """gen = [rseed, chunk, index, kind] -> {'pool', 'ops', 'bounds'}."""
  from vlib.oracles import c17_model as M
  rng = _rng(gen)
  kind = gen[3]
  if kind == 'tree':
    return _gen_tree_case(rng, M)
  if kind == 'directed':
    return _directed_cases()[gen[2]]
  if kind == 'hist_fn':
    return _gen_hist(rng, M, fn_bound=128, obj_bound=1024, focus='fn')
  if kind == 'hist_obj':
    return _gen_hist(rng, M, fn_bound=128, obj_bound=1024, focus='obj')
  if kind == 'hist_small':
    return _gen_hist(rng, M, fn_bound=rng.randint(2, 12), obj_bound=rng.randint(2, 12),
                     focus='small')
  if kind == 'ident':
    return _gen_ident(rng, M)
  raise ValueError(kind)


def _directed_cases():
  """Literal histories for input classes the random generator reaches only rarely."""
  B = {'fn': 128, 'obj': 1024}
  c = lambda v: ('c', v)
  return [
      # a lazy constant and the plain constant as argument of the same cached call
      {'pool': [('call', 'f', (('t', 5, False),), (), True, False),
                ('call', 'f', (c(5),), (), True, False)],
       'ops': [('make', 0, 'direct'), ('make', 1, 'direct'), ('make', 0, 'direct')],
       'bounds': B},
      {'pool': [('call', 'f', (), (('k', c('a')),), True, False),
                ('call', 'f', (), (('k', ('t', 'a', False)),), True, False)],
       'ops': [('make', 0, 'direct'), ('make', 1, 'pickle'), ('make', 1, 'direct')],
       'bounds': B},
      # the docstring examples of lazy_fns.trace: class, call chain, lazy argument
      {'pool': [('callres', ('call', 'Box', (), (('w', c(1)),), False, False),
                 (c(3),), (), False, False),
                ('callres', ('call', 'Box', (), (('w', ('call', 'const7', (), (), False, False)),),
                             False, False), (c('b'),), (), False, False)],
       'ops': [('make', 0, 'direct'), ('make', 1, 'direct'), ('make', 0, 'pickle'),
               ('make', 1, 'loads')],
       'bounds': B},
      # lazy_fns_test.test_lazy_object_lazy_result: chains on a lazy result
      {'pool': [('call', 'Box', (c((1, 2)),), (), False, True),
                ('attr', ('call', 'Box', (c((1, 2)),), (), False, True), 'w'),
                ('item', ('callres', ('call', 'Box', (c((1, 2)),), (), False, True),
                          (c(2),), (), False, False), 0)],
       'ops': [('make', 0, 'direct'), ('deref', 0, 'direct'), ('make', 1, 'direct'),
               ('make', 2, 'direct'), ('clear_object',), ('deref', 0, 'direct')],
       'bounds': B},
  ]


VIAS = ['direct', 'direct', 'rebuild', 'pickle', 'picklez', 'loads', 'explicit_false']


def _gen_tree_case(rng, M):
  node = M.gen_tree(rng)
  lazy_root = M.root_is_lazy(node)
  ops = [('make', 0, 'direct')]
  slots = 1 if lazy_root else 0
  for _ in range(rng.randint(3, 9)):
    r = rng.random()
    if slots and r < 0.3:
      if rng.random() < 0.7:
        ops.append(('deref', rng.randrange(slots), rng.choice(['direct', 'pickle'])))
      else:
        ops.append(('use_ref', rng.randrange(slots), rng.choice(['f', 'tagged']),
                    rng.choice([1, 'a']), rng.random() < 0.5))
    elif r < 0.86:
      ops.append(('make', 0, rng.choice(VIAS)))
      slots += 1 if lazy_root else 0
    elif r < 0.94:
      ops.append(('clear_cache',))
    else:
      ops.append(('clear_object',))
  if slots:
    ops.append(('deref', rng.randrange(slots), 'direct'))
  return {'pool': [node], 'ops': ops, 'bounds': {'fn': 128, 'obj': 1024}}


PICKLED_VIAS = ('pickle', 'picklez', 'loads')
IDENT_VIAS = ['direct', 'direct', 'pickle', 'picklez', 'loads']


def _gen_ident(rng, M):
  """Requests of ONE expression object (same LazyFn id) directly and through the pickler."""
  pool = M.gen_ident_pool(rng)
  ops = []
  for _ in range(rng.randint(5, 18)):
    r = rng.random()
    if r < 0.93:
      ops.append(('make', rng.randrange(len(pool)), rng.choice(IDENT_VIAS)))
    else:
      ops.append(('clear_cache',))
  return {'pool': pool, 'ops': ops, 'bounds': {'fn': 128, 'obj': 1024}}


def _gen_hist(rng, M, fn_bound, obj_bound, focus):
  n_ops = {'fn': rng.randint(300, 1500), 'obj': rng.randint(1800, 3000),
           'small': rng.randint(300, 900)}[focus]
  if focus == 'fn':
    n_flat = rng.randint(fn_bound + 30, fn_bound * 3)
  elif focus == 'obj':
    n_flat = rng.randint(20, 160)
  else:
    n_flat = rng.randint(fn_bound + 2, fn_bound * 3 + 4)
  pool = []
  # Many distinct small cached expressions (distinct by argument / keyword / callee).
  for i in range(n_flat):
    shape = rng.randrange(6)
    if shape == 0:
      node = ('call', 'tagged', (('c', i),), (), True, False)
    elif shape == 1:
      node = ('call', 'bump', (('c', 't'), ('c', i)), (), True, False)
    elif shape == 2:
      node = ('call', 'f', (('c', i),), (('k', ('c', 'a')),), True, False)
    elif shape == 3:
      node = ('call', 'f', (), (('k', ('c', i)),), True, False)
    elif shape == 4:
      inner = ('call', 'tagged', (('c', i),), (), rng.random() < 0.5, False)
      node = ('call', 'g', (inner,), (), True, False)
    else:
      node = ('callres', ('call', 'Acc', (('c', i),), (), True, False),
              (('c', 1),), (), False, False)
    pool.append(node)
  # Deeper random trees (cached and uncached, lazy roots).
  for _ in range(rng.randint(5, 25)):
    pool.append(M.gen_tree(rng))
  # Lazy-result producers.
  n_lazy = rng.randint(2, 8)
  for i in range(n_lazy):
    pool.append(rng.choice([
        ('call', 'tagged', (('c', i),), (), False, True),
        ('call', 'Box', (('c', i),), (), False, True),
        ('call', 'Acc', (('c', i),), (), False, True),
        ('t', ('obj', i), True),
    ]))
  lazy_idx = [i for i, n in enumerate(pool) if M.root_is_lazy(n)]
  ops, slots, recent = [], 0, []
  p_ref = {'fn': 0.08, 'obj': 0.62, 'small': 0.25}[focus]
  # (clear_cache, clear_object) rates: rare enough for the natural bounds to fill up.
  p_clear = {'fn': (0.0012, 0.003), 'obj': (0.003, 0.002), 'small': (0.006, 0.004)}[focus]
  while len(ops) < n_ops:
    r = rng.random()
    if r < p_ref:
      if rng.random() < 0.7 or not lazy_idx:
        ops.append(('new_obj', ('o', len(ops))))
      else:
        ops.append(('make', rng.choice(lazy_idx), rng.choice(VIAS)))
      slots += 1
    elif r < p_ref + 0.12 and slots:
      # dereference: recent, old (probably evicted) or arbitrary
      pick = rng.random()
      if pick < 0.5:
        s = max(0, slots - 1 - rng.randrange(min(slots, max(2, obj_bound // 2))))
      elif pick < 0.8:
        s = rng.randrange(slots)
      else:
        s = rng.randrange(max(1, slots // 4))
      ops.append(('deref', s, rng.choice(['direct', 'direct', 'pickle'])))
    elif r < p_ref + 0.16 and slots:
      ops.append(('use_ref', rng.randrange(max(0, slots - 20), slots),
                  rng.choice(['f', 'tagged']), rng.choice([1, 'a']), rng.random() < 0.6))
    elif r < p_ref + 0.16 + p_clear[0]:
      ops.append(('clear_cache',))
    elif r < p_ref + 0.16 + p_clear[0] + p_clear[1] and \
        (focus != 'obj' or slots > obj_bound + 250):
      ops.append(('clear_object',))
    else:
      # working-set access pattern: recent expressions are likely re-requested
      if recent and rng.random() < 0.55:
        idx = rng.choice(recent[-min(len(recent), max(3, fn_bound // 2)):])
      else:
        idx = rng.randrange(len(pool))
      recent.append(idx)
      ops.append(('make', idx, rng.choice(VIAS)))
      if M.root_is_lazy(pool[idx]):
        slots += 1
  return {'pool': pool, 'ops': ops, 'bounds': {'fn': fn_bound, 'obj': obj_bound}}


# ---------------------------------------------------------------------------
# Comparison helpers
# ---------------------------------------------------------------------------


def _values_equal(real, model, lazy_fns, M):
  if isinstance(model, M.RefTok):
    return type(real) is lazy_fns.LazyObject and real.cache_result and real.value is None
  if isinstance(real, lazy_fns.LazyObject):
    return False
  if isinstance(model, tuple):
    return isinstance(real, tuple) and len(real) == len(model) and all(
        _values_equal(r, m, lazy_fns, M) for r, m in zip(real, model))
  if isinstance(model, list):
    return isinstance(real, list) and len(real) == len(model) and all(
        _values_equal(r, m, lazy_fns, M) for r, m in zip(real, model))
  return type(real) is type(model) and real == model


def _lru_of(fn):
  """The LruCache instance behind a `_maybe_lru_cache` wrapped function."""
  return fn.cache_info.__self__


def _count_nodes(ctx, n, under_chain=False, as_arg=False):
  t = n[0]
  if t == 't' and as_arg:
    ctx.count('node:lazy_arg')
  if t in ('c', 't', 'ref'):
    return
  if t in ('call', 'callres'):
    if n[4]:
      ctx.count('flag:cache')
    if n[5]:
      ctx.count('flag:lazy_chain' if under_chain else 'flag:lazy_root')
    if t == 'callres':
      ctx.count('node:callres')
      _count_nodes(ctx, n[1], under_chain=True)
    for a in n[2]:
      if a[0] not in ('c',):
        ctx.count('node:lazy_arg')
      _count_nodes(ctx, a, as_arg=True)
    for _, v in n[3]:
      if v[0] not in ('c',):
        ctx.count('node:kwargs_lazy')
      _count_nodes(ctx, v, as_arg=True)
  else:
    ctx.count('node:' + t)
    _count_nodes(ctx, n[1], under_chain=True)


# ---------------------------------------------------------------------------
# History execution
# ---------------------------------------------------------------------------


class _Fail(Exception):

  def __init__(self, kind, detail, mechanism):
    super().__init__(kind)
    self.kind, self.detail, self.mechanism = kind, detail, mechanism


def run_history(ctx, gen, light=False):
  from ml_metrics._src.chainables import lazy_fns
  from vlib.oracles import c17_lib as lib
  from vlib.oracles import c17_model as M
  lib.reset_locals()
  case = gen_case(gen)
  kind = gen[3]
  pool, ops, bounds = case['pool'], case['ops'], case['bounds']
  fn_lru, obj_lru = _lru_of(lazy_fns.LazyFn.result_), _lru_of(lazy_fns.LazyObject.result_)
  saved = (fn_lru.maxsize, obj_lru.maxsize)
  lazy_fns.clear_cache()
  lazy_fns.clear_object()
  lib.reset_counts()
  if len(fn_lru.data) or len(obj_lru.data) or fn_lru.currsize or obj_lru.currsize:
    # clear_cache()/clear_object() must drop everything ("until the cache is cleared").
    ctx.violation('clear_did_not_empty_cache', {'gen': list(gen)},
                  {'fn_entries': len(fn_lru.data), 'obj_entries': len(obj_lru.data)},
                  mechanism='clear/not-empty')
    for lru in (fn_lru, obj_lru):
      lru.data.clear()
      lru.currsize = lru.hits = lru.misses = 0
  fn_lru.maxsize, obj_lru.maxsize = bounds['fn'], bounds['obj']
  model = M.Model(bounds['fn'], bounds['obj'])
  for n in pool:
    _count_nodes(ctx, n)
  max_depth = max(M.depth(n) for n in pool)
  state = {'i': -1}
  try:
    _run_ops(ctx, lazy_fns, lib, M, model, pool, ops, fn_lru, obj_lru, state,
             order_every=1 if bounds['fn'] <= 16 else 16)
    failure = None
  except _Fail as f:
    failure = f
    if kind == 'ident':
      _classify_ident(lazy_fns, M, pool, ops, state['i'], f)
  finally:
    fn_lru.maxsize, obj_lru.maxsize = saved
    lazy_fns.clear_cache()
    lazy_fns.clear_object()
    lib.WORLD[0] = 'lazy'
  evicted = model.fn.evictions + model.obj.evictions
  nontrivial = max_depth >= 2 or evicted > 0
  ctx.case(('c17',) + tuple(gen), nontrivial)
  ctx.count({'tree': 'trees', 'directed': 'directed_histories'}.get(kind, 'histories'))
  if kind == 'hist_fn':
    ctx.count('hist_fn_bound_128')
  elif kind == 'hist_obj':
    ctx.count('hist_obj_bound_1024')
  elif kind == 'hist_small':
    ctx.count('hist_reduced_bound')
  elif kind == 'ident':
    ctx.count('ident_histories')
    ctx.count('ident_pickled_makes', sum(
        1 for o in ops if o[0] == 'make' and o[2] in PICKLED_VIAS
        and M.has_identity_hashed(pool[o[1]])))
    ctx.count('ident_control_pickled_makes', sum(
        1 for o in ops if o[0] == 'make' and o[2] in PICKLED_VIAS
        and not M.has_identity_hashed(pool[o[1]])))
  ctx.count('predicted_evictions_fn', model.fn.evictions)
  ctx.count('predicted_evictions_obj', model.obj.evictions)
  ctx.count('evaluations_counted', sum(lib.COUNTS['eager'].values()))
  if kind != 'tree':
    if model.fn.evictions:
      ctx.count('hist_with_fn_eviction')
    if model.obj.evictions:
      ctx.count('hist_with_obj_eviction')
  if failure is not None:
    i = state['i']
    detail = dict(failure.detail)
    detail['op_index'] = i
    detail['op'] = repr(ops[i]) if 0 <= i < len(ops) else None
    if 0 <= i < len(ops) and ops[i][0] == 'make':
      detail['expr'] = M.show(pool[ops[i][1]])[:500]
    detail['bounds'] = bounds
    detail['history_prefix'] = [repr(o) for o in ops[max(0, i - 6):i + 1]] \
        if kind != 'tree' else [repr(o) for o in ops[:i + 1]]
    ctx.violation(failure.kind, {'gen': list(gen)}, detail, mechanism=failure.mechanism)
  elif len(ctx.samples) < 3 and nontrivial:
    ctx.sample({'gen': list(gen), 'expr': M.show(pool[0])[:300], 'ops': len(ops),
                'bounds': bounds})


def _cached_subexprs(x, lazy_fns, out=None):
  """All cached LazyFns inside a real expression, in a fixed traversal order."""
  out = [] if out is None else out
  if isinstance(x, lazy_fns.LazyFn):
    if x.cache_result:
      out.append(x)
    _cached_subexprs(x.value, lazy_fns, out)
    for a in x.args:
      _cached_subexprs(a, lazy_fns, out)
    for _, a in x.kwargs:
      _cached_subexprs(a, lazy_fns, out)
  return out


IDENT_MECHANISM = 'cached-lazyfn-identity-hash-reevaluated-after-pickle'


def _classify_ident(lazy_fns, M, pool, ops, i, failure):
  """Attributes a failure of an 'ident' history to the identity-hash root cause only when
  (a) the failing expression has a cached call with a by-value callable / identity-hashed
  argument, (b) that expression went through the pickler at or before the failing request,
  (c) the symptom is a re-evaluation (never a lost one) and (d) two unpickled copies of the
  expression are == (same id) but hash differently. Anything else keeps its own key."""
  op = ops[i] if 0 <= i < len(ops) else None
  generic = 'ident/' + failure.mechanism
  failure.mechanism = generic
  if not op or op[0] != 'make':
    return
  idx = op[1]
  node = pool[idx]
  symptom = failure.kind in ('roundtrip_expression_not_equal', 'value_differs_from_eager',
                             'cached_result_not_identical',
                             'cache_info_differs_from_reference_lru') or (
                                 failure.kind == 'evaluation_count_differs'
                                 and generic.endswith('/evaluated-more'))
  pickled_before = any(o[0] == 'make' and o[1] == idx and o[2] in PICKLED_VIAS
                       for o in ops[:i + 1])
  if not (symptom and pickled_before and M.has_identity_hashed(node)):
    return
  expr = M.build(node, lazy_fns)
  a = lazy_fns.pickler.loads(lazy_fns.pickler.dumps(expr))
  b = lazy_fns.pickler.loads(lazy_fns.pickler.dumps(expr))
  pairs = list(zip(_cached_subexprs(a, lazy_fns), _cached_subexprs(b, lazy_fns)))
  unstable = [(x, y) for x, y in pairs if x == y and hash(x) != hash(y)]
  if unstable:
    failure.detail = dict(failure.detail, symptom=failure.kind,
                          two_unpickled_copies={'eq': True, 'same_id': unstable[0][0].id == unstable[0][1].id,
                                                'hash_eq': False})
    failure.kind = 'cached_call_reevaluated_after_pickle'
    failure.mechanism = IDENT_MECHANISM


def _mech_for_node(M, node, base):
  flags = []
  if M.has_cached(node):
    flags.append('cached')
  if M.root_is_lazy(node):
    flags.append('lazyroot')
  return base + ('/' + '+'.join(flags) if flags else '')


def _run_ops(ctx, lazy_fns, lib, M, model, pool, ops, fn_lru, obj_lru, state,
             order_every):
  built = {}
  refs = []            # slot -> real LazyObject | None
  first_deref = {}     # slot -> object returned by the first dereference
  root_real = {}       # structural key -> real object returned when it was cached
  serial_of_id = {}    # real LazyObject id -> model serial
  prev = {'fn': (0, 0), 'obj': (0, 0)}
  cleared = {'fn': False, 'obj': False}

  def real_make(target):
    lib.WORLD[0] = 'lazy'
    try:
      return ('ok', lazy_fns.maybe_make(target))
    except lazy_fns.LazyObjectMissingError as e:
      return ('missing', e)
    except Exception as e:  # pylint: disable=broad-exception-caught
      return ('exc', e)
    finally:
      lib.WORLD[0] = 'eager'

  def model_do(fn, *a):
    lib.WORLD[0] = 'eager'
    try:
      return ('ok', fn(*a))
    except M.Missing as e:
      return ('missing', e)

  for i, op in enumerate(ops):
    state['i'] = i
    name = op[0]
    ctx.count('op:' + name)
    expect_new_slot = False
    node = None
    if name == 'make':
      _, idx, via = op
      node = pool[idx]
      if idx not in built:
        built[idx] = M.build(node, lazy_fns)
      expr = built[idx]
      if via == 'direct':
        target = expr
      elif via == 'rebuild':
        target = M.build(node, lazy_fns)
      elif via == 'explicit_false':
        target = M.build(node, lazy_fns, explicit_false=True)
      elif via == 'pickle':
        target = lazy_fns.pickler.dumps(expr)
        ctx.count('pickle_roundtrips')
      elif via == 'picklez':
        target = lazy_fns.pickler.loadz(lazy_fns.pickler.dumpz(expr))
        ctx.count('pickle_roundtrips')
      else:
        target = lazy_fns.pickler.loads(lazy_fns.pickler.dumps(expr))
        ctx.count('pickle_roundtrips')
      if via in ('picklez', 'loads', 'rebuild', 'explicit_false') and \
         isinstance(expr, lazy_fns.LazyObject):
        ctx.count('pickle_eq_checks')
        same = (target == expr)
        hash_same = True
        if M.has_cached(node):
          hash_same = hash(target) == hash(expr)
        if not same or not hash_same:
          raise _Fail('roundtrip_expression_not_equal',
                      {'via': via, 'eq': same, 'hash_eq': hash_same},
                      f'expr-identity/{via}')
      mres = model_do(model.make, node)
      rres = real_make(target)
      expect_new_slot = M.root_is_lazy(node)
    elif name == 'deref':
      _, slot, via = op
      if slot >= len(refs) or refs[slot] is None:
        ctx.count('op_skipped')
        continue
      target = refs[slot] if via == 'direct' else lazy_fns.pickler.dumps(refs[slot])
      mres = model_do(model.obj_get, model.slot_serial[slot])
      rres = real_make(target)
      ctx.count('deref_checks')
    elif name == 'use_ref':
      _, slot, fname, const, cache = op
      if slot >= len(refs) or refs[slot] is None:
        ctx.count('op_skipped')
        continue
      node = ('call', fname, (('ref', slot), ('c', const)), (), cache, False)
      target = M.build(node, lazy_fns, refs)
      mres = model_do(model.make, node)
      rres = real_make(target)
    elif name == 'new_obj':
      value = tuple(op[1])
      lib.WORLD[0] = 'lazy'
      ref = lazy_fns.LazyObject.new(value)
      serial = model.obj_insert(value)
      refs.append(ref)
      model.slot_serial.append(serial)
      serial_of_id[ref.id] = serial
      first_deref[len(refs) - 1] = value
      mres = rres = None
    elif name == 'clear_cache':
      lazy_fns.clear_cache()
      model.fn.clear()
      root_real.clear()
      cleared['fn'] = True
      mres = rres = None
    elif name == 'clear_object':
      lazy_fns.clear_object()
      model.obj.clear()
      cleared['obj'] = True
      mres = rres = None
    else:
      raise ValueError(name)

    # ---- outcome comparison ------------------------------------------------------
    if mres is not None:
      base = {'make': 'make', 'deref': 'deref', 'use_ref': 'use-ref'}[name]
      mech = _mech_for_node(M, node, base) if node is not None else base
      if name == 'make':
        mech += '@' + op[2] if op[2] in ('pickle', 'picklez', 'loads') else ''
      ctx.count('value_checks')
      if rres[0] == 'exc':
        e = rres[1]
        if isinstance(e, AttributeError) and "object has no attribute 'id'" in str(e):
          # LazyObject.__eq__ reads other.id of a non-LazyObject operand: a cached call
          # whose argument is trace(v) meets the same call with the plain v.
          ctx.count('viol:lazyobject-eq-non-lazy-operand')
          raise _Fail('materialisation_raised',
                      {'error': f'{type(e).__name__}: {e}', 'want': repr(mres)[:300]},
                      'lazyobject-eq-non-lazy-operand')
        raise _Fail('unexpected_exception',
                    {'error': f'{type(e).__name__}: {str(e)[:300]}',
                     'model': repr(mres)[:300]},
                    mech + f'/raised-{type(e).__name__}')
      if mres[0] == 'missing':
        ctx.count('missing_error_checks')
        if rres[0] != 'missing':
          raise _Fail('missing_object_returned_a_value',
                      {'got': repr(rres[1])[:300]}, mech + '/stale-instead-of-missing')
        if type(rres[1]) is not lazy_fns.LazyObjectMissingError:
          raise _Fail('wrong_error_type', {'got': repr(rres[1])}, mech + '/error-type')
      else:
        if rres[0] == 'missing':
          raise _Fail('unexpected_missing_error',
                      {'error': str(rres[1])[:300], 'model': repr(mres[1])[:300]},
                      mech + '/missing-but-held')
        got, want = rres[1], mres[1]
        if not _values_equal(got, want, lazy_fns, M):
          raise _Fail('value_differs_from_eager',
                      {'got': repr(got)[:400], 'want': repr(want)[:400]},
                      mech + '/value')
        if name == 'deref':
          slot = op[1]
          ctx.count('identity_checks')
          if slot in first_deref:
            if got is not first_deref[slot]:
              raise _Fail('dereference_not_identical',
                          {'got': repr(got)[:200]}, mech + '/identity')
          else:
            first_deref[slot] = got
        if name in ('make', 'use_ref') and node[0] in ('call', 'callres') and node[4]:
          key = M.skey(node, model.slot_serial)
          ctx.count('identity_checks')
          # The entry may have been evicted and re-inserted by a nested evaluation of
          # the same call since it was last seen at root level: compare identity only
          # within one insertion (generation) of the reference LRU.
          generation = model.generation.get(key)
          if model.last_root_hit:
            ctx.count('predicted_hits')
            if key in root_real and root_real[key][0] == generation:
              ctx.count('identity_same_generation')
              if got is not root_real[key][1]:
                raise _Fail('cached_result_not_identical',
                            {'got': repr(got)[:200]}, mech + '/identity')
          else:
            ctx.count('predicted_misses')
          root_real[key] = (generation, got)
      if expect_new_slot:
        if rres[0] == 'ok' and mres[0] == 'ok':
          refs.append(rres[1])
          model.slot_serial.append(mres[1].serial)
          serial_of_id[rres[1].id] = mres[1].serial
        else:
          refs.append(None)
          model.slot_serial.append(None)
      # identical-evaluation-count check
      ctx.count('counter_checks')
      if lib.COUNTS['lazy'] != lib.COUNTS['eager']:
        diff = {k: (lib.COUNTS['lazy'].get(k, 0), lib.COUNTS['eager'].get(k, 0))
                for k in set(lib.COUNTS['lazy']) | set(lib.COUNTS['eager'])
                if lib.COUNTS['lazy'].get(k, 0) != lib.COUNTS['eager'].get(k, 0)}
        more = any(a > b for a, b in diff.values())
        raise _Fail('evaluation_count_differs',
                    {'lazy_vs_eager': {k: list(v) for k, v in diff.items()}},
                    mech + ('/evaluated-more' if more else '/evaluated-less'))

    # ---- cache bookkeeping after every operation ---------------------------------
    for label, lru, ref_lru, info in (
        ('fn', fn_lru, model.fn, lazy_fns.cache_info()),
        ('obj', obj_lru, model.obj, lazy_fns.object_info())):
      ctx.count('cache_info_checks' if label == 'fn' else 'object_info_checks')
      got = (info.hits, info.misses, info.currsize, info.maxsize)
      if got != ref_lru.info():
        raise _Fail('cache_info_differs_from_reference_lru',
                    {'cache': label, 'got(hits,misses,currsize,maxsize)': list(got),
                     'want': list(ref_lru.info())},
                    f'lru-{label}/info')
      ctx.count('lru_invariant_checks')
      if not (len(lru.data) == lru.currsize == len(lru) <= lru.maxsize):
        raise _Fail('lru_invariant', {'cache': label, 'len_data': len(lru.data),
                                      'currsize': lru.currsize, 'maxsize': lru.maxsize},
                    f'lru-{label}/invariant')
      if not cleared[label] and (info.hits < prev[label][0] or info.misses < prev[label][1]):
        raise _Fail('lru_counters_not_monotone', {'cache': label},
                    f'lru-{label}/monotone')
      prev[label] = (info.hits, info.misses)
      cleared[label] = False
    if i % order_every == 0 or i == len(ops) - 1:
      ctx.count('lru_order_checks')
      real_order = [M.real_skey(k, serial_of_id, lazy_fns) for k in fn_lru.data]
      if real_order != list(model.fn.d):
        raise _Fail('lru_order_differs',
                    {'cache': 'fn', 'real_tail': [repr(k)[:80] for k in real_order[-4:]],
                     'model_tail': [repr(k)[:80] for k in list(model.fn.d)[-4:]],
                     'real_head': [repr(k)[:80] for k in real_order[:3]],
                     'model_head': [repr(k)[:80] for k in list(model.fn.d)[:3]]},
                    'lru-fn/order')
      known = set(serial_of_id.values())
      real_known = [serial_of_id[k.id] for k in obj_lru.data if k.id in serial_of_id]
      model_known = [s for s in model.obj.d if s in known]
      if real_known != model_known:
        raise _Fail('lru_order_differs',
                    {'cache': 'obj', 'real_tail': real_known[-5:], 'model_tail': model_known[-5:],
                     'real_head': real_known[:5], 'model_head': model_known[:5]},
                    'lru-obj/order')


# ---------------------------------------------------------------------------
# Flag combination and direct LruCache sub-checks
# ---------------------------------------------------------------------------


def check_both_flags(ctx):
  from ml_metrics._src.chainables import lazy_fns
  from vlib.oracles import c17_lib as lib
  probes = [
      ('trace(f)(1, cache_result_=True, lazy_result_=True)',
       lambda: lazy_fns.trace(lib.f)(1, cache_result_=True, lazy_result_=True)),
      ('trace(Box)(1).get(cache_result_=True, lazy_result_=True)',
       lambda: lazy_fns.trace(lib.Box)(1).get(cache_result_=True, lazy_result_=True)),
      ('LazyObject.new(1, cache_result=True, lazy_result=True)',
       lambda: lazy_fns.LazyObject.new(1, cache_result=True, lazy_result=True)),
  ]
  for text, probe in probes:
    ctx.count('both_flags_rejected')
    try:
      got = probe()
    except ValueError:
      continue
    except Exception as e:  # pylint: disable=broad-exception-caught
      ctx.violation('both_flags_wrong_error', {'probe': text},
                    {'error': f'{type(e).__name__}: {e}'}, mechanism='both-flags/error-type')
      continue
    ctx.violation('both_flags_accepted', {'probe': text}, {'got': repr(got)[:200]},
                  mechanism='both-flags/accepted')


def run_lru_direct(ctx, gen):
  """func_utils.LruCache against the reference LRU, operation by operation."""
  from ml_metrics._src.utils import func_utils
  from vlib.oracles import c17_model as M
  rng = _rng(gen)
  maxsize = rng.choice([1, 2, 3, 5, 8, 16, 128])
  real, ref = func_utils.LruCache(maxsize=maxsize), M.RefLRU(maxsize)
  keys = list(range(rng.randint(maxsize + 1, maxsize * 3 + 3)))
  n_ops = rng.randint(50, 600)
  ctx.case(('c17lru',) + tuple(gen), True)
  prev = (0, 0)
  for i in range(n_ops):
    ctx.count('lru_direct_ops')
    r = rng.random()
    k = rng.choice(keys)
    detail = None
    if r < 0.45:
      try:
        want = ('ok', ref.get(k))
      except KeyError:
        want = ('miss',)
      try:
        got = ('ok', real[k])
      except KeyError:
        got = ('miss',)
      if got != want:
        detail = {'op': f'get {k}', 'got': repr(got), 'want': repr(want)}
    elif r < 0.9:
      # The library only writes a key after a miss (or a brand-new id): whether
      # overwriting a present key refreshes its recency is not specified.
      if k in ref.d:
        continue
      v = (k, i)
      ref.put(k, v)
      if rng.random() < 0.5:
        real[k] = v
      else:
        real.cache_insert(k, v)
    elif r < 0.97:
      if (k in real) != (k in ref.d):
        detail = {'op': f'contains {k}', 'got': k in real, 'want': k in ref.d}
    else:
      real.cache_clear()
      ref.clear()
      prev = (0, 0)
    info = real.cache_info()
    if detail is None and (info.hits, info.misses, info.currsize, info.maxsize) != ref.info():
      detail = {'op': 'info', 'got': [info.hits, info.misses, info.currsize, info.maxsize],
                'want': list(ref.info())}
    if detail is None and list(real) != list(ref.d):
      detail = {'op': 'order', 'got': list(real)[:8], 'want': list(ref.d)[:8]}
    if detail is None and not (len(real.data) == real.currsize == len(real) <= maxsize):
      detail = {'op': 'invariant', 'len': len(real.data), 'currsize': real.currsize}
    if detail is None and (info.hits < prev[0] or info.misses < prev[1]):
      detail = {'op': 'monotone'}
    prev = (info.hits, info.misses)
    if detail is not None:
      detail['op_index'] = i
      detail['maxsize'] = maxsize
      ctx.violation('lru_direct_differs', {'gen': list(gen)}, detail,
                    mechanism='lru-direct/' + detail['op'].split(' ')[0])
      return


# ---------------------------------------------------------------------------
# Entry points
# ---------------------------------------------------------------------------


def run_chunk(ctx, spec):
  mode = spec['mode']
  if mode == 'lru_direct':
    for i in range(spec['count']):
      run_lru_direct(ctx, [spec['rseed'], spec['index'], i, 'lru_direct'])
    return
  if mode == 'tree':
    check_both_flags(ctx)
  if mode == 'conc':
    from vlib import c17conc
    for i in range(spec['count']):
      c17conc.run_case(ctx, [spec['rseed'], spec['index'], i, 'conc'])
    return
  if mode == 'directed':
    for i in range(len(_directed_cases())):
      ctx.count('directed_cases')
      run_history(ctx, [spec['rseed'], 0, i, 'directed'])
    check_lru_cache_decorator(ctx, spec['rseed'])
    return
  for i in range(spec['count']):
    run_history(ctx, [spec['rseed'], spec['index'], i, mode])


def check_lru_cache_decorator(ctx, rseed):
  """func_utils.lru_cache (the decorator form of the same LruCache): a cached call
  never returns the value of another call, also when argument tuples hash alike."""
  import random as _r
  from ml_metrics._src.utils import func_utils
  rng = _r.Random(rseed * 977 + 5)
  calls = []

  @func_utils.lru_cache(maxsize=8)
  def f(x, y=0):
    calls.append((x, y))
    return ('v', x, y)

  pool = [-1, -2, 0, 2**61 - 1, 1, 1.5, 2**61, 'a', (1, 2), (1, -1), (1, -2)]
  case = {'lru_decorator': 1, 'rseed': rseed}
  for _ in range(300):
    x, y = rng.choice(pool), rng.choice([0, 0, -1, -2])
    ctx.count('lru_decorator_checks')
    got = f(x, y) if y else f(x)
    if got != ('v', x, y) or type(got[1]) is not type(x):
      ctx.violation('cached_call_returned_other_value', case,
                    {'args': repr((x, y)), 'got': repr(got)},
                    mechanism='lru-cache-decorator-keyed-by-hash-of-arguments')
      return
  ctx.case(('lru_decorator', rseed), True)


def run_case(ctx, case):
  if 'lru_decorator' in case:
    check_lru_cache_decorator(ctx, case['rseed'])
    return
  if 'probe' in case:
    check_both_flags(ctx)
    return
  gen = case['gen']
  if gen[3] == 'lru_direct':
    run_lru_direct(ctx, gen)
  elif gen[3] == 'conc':
    from vlib import c17conc
    c17conc.run_case(ctx, gen)
  else:
    run_history(ctx, gen)
