"""C18 - Tree views obey get/set laws and never mutate the viewed data.

Code under test: `ml_metrics._src.chainables.tree` (`TreeMapView`, `Key`, `Index`,
`Literal`, SELF / SKIP, `copy_and_set`, `copy_and_update`, `|`, `apply`, iteration,
`key_paths=` views).

Oracle: `vlib/oracles/c18_model.py` - an independent persistent-update model, DFS leaf
enumeration, recursive map and deep snapshots with node identities. A case is fully
determined by (rseed, index, profile): the generator draws the tree and the whole
operation sequence from `random.Random(f(rseed, index))` against the *model* only (it
never looks at what the library returned), so replay is exact.
"""

from __future__ import annotations

import random

from vlib.oracles import c18_model as m

ID = 'C18'
LEVEL = 'exploration'
RULE = (
    'a case is (tree, operation sequence): a random tree of dict/list/tuple containers '
    '(depth <= 4, <= 4-5 children) with unique scalar / str / None / ndarray / empty '
    'container leaves, then 1-10 copying operations (copy_and_set with Key path, scalar '
    'key, 1-key tuple, multi-key tuple incl. SKIP; copy_and_update with dict / pair list '
    '/ view / items(); `|` with dict / view; SELF, Key() root replacement) on existing '
    'leaf paths, inner nodes, new dict keys, list appends, nested creation, ndarray '
    'elements and set-to-current; each step is compared with the model, read back, '
    'frame-checked on all unrelated leaves and followed by a snapshot check of every '
    'original (initial tree, every supplied value, every intermediate result); plus on '
    'the initial and final tree: leaf enumeration vs an independent DFS, multi-key '
    'reads (paths, scalar keys, SELF, Literal, Key()), map_fn + apply() vs a recursive '
    'map, one copying set per node / per container of the initial tree ("allpaths") and '
    'failing sets that must still not mutate. non-trivial = tree depth >= 2 and >= 2 '
    'leaves; distinct = hash of (tree repr, operation descriptions). Three further '
    'case kinds (case["kind"]): "seqleaf" = the same case shape, but ~30% of the leaves '
    'of the INITIAL tree are bytes / bytearray / range / collections.deque values of '
    'length 0..3 (model leaves; values supplied by operations never are); "leafroot" = '
    'the tree is ONE leaf (truthy / falsy Python and numpy scalars, None, str, 0-d, '
    'size-1, empty, 1-D and 2-D arrays): exactly one listed path that reads back the '
    'root, keys()/values()/items()/len aligned, view[(SELF, Key(), Literal(v))], '
    'apply() == fn(root) with fn called on the root only, root not mutated (non-trivial '
    '= the root is not a truthy scalar); "keypaths" = a container tree with extra None '
    'leaves viewed through key_paths= 1..6 distinct existing paths (leaf paths; in 20% '
    'of the cases any node paths, then without apply), given as Key paths or scalar '
    'keys in random order, at least one None-valued path in about half of the cases: '
    'keys()/values()/items()/len/view[key_paths] aligned with key_paths for the plain '
    'view and for a view with a leaf function that returns None for a random subset of '
    'the selected leaves, apply() vs the model (exactly the key paths mapped, all other '
    'leaves shared), apply() without a function reproduces the tree (non-trivial = >= 2 '
    'key paths). Mechanism keys of these kinds are given by input class AND symptom: '
    'the audited key only when the case belongs to the input class (falsy leaf root / '
    'leaf root whose bool() raises / tree with a non-empty non-list sequence leaf / '
    'selected (mapped) value None) and every symptom is the one that class explains '
    '(nothing listed and root unmapped / ValueError "truth value" / paths listed below '
    'the sequence leaf / exactly the None-valued key paths missing); any other symptom '
    'gets a key of its own. "inplace" = 1-4 in-place sets (view[k] = v, view.set(k, v), '
    'view.set(k, v, in_place=True); Key path / scalar key / 1-key tuple / multi-key '
    'tuple / SELF / (SELF,) / Key()) on the empty TreeMapView() (30%), on {} / [] (20%) '
    'or on a dict / list tree, drawn against the model; after every operation each set '
    'path must read back the set value (non-trivial = some operation creates or '
    'replaces the root). Mechanism key of that class: the operation had to create / '
    'replace the root AND the view still holds the previous root object; every other '
    'failure gets a key of its own. "mapfn" = a container tree viewed through a leaf '
    'function, 60% with key_paths= 1..6 distinct existing leaf paths (Key paths or scalar '
    'keys, random order), 40% without key_paths (all leaves); the function is total (1/6, '
    'fresh wrapper per leaf object) or partial: it raises KeyError (2/6), IndexError '
    '(2/6) or ValueError (1/6) for a random non-empty subset (at most half) of the viewed '
    'leaf objects - a vocabulary lookup of an unknown token. Demanded: iter / keys() / '
    'len equal those of the same view without a function (or raise the function\'s own '
    'exception); view[k] returns f(leaf) or raises the exception f raised; values() / '
    'items() / view[all keys] / apply() are aligned resp. equal the model when f is total '
    'and raise the exception of f (possibly wrapped: it is in the cause chain) when f '
    'raises for a viewed leaf (non-trivial = >= 2 viewed leaves and a partial function). '
    'Mechanism key of that class: key_paths given AND f raises KeyError / IndexError for '
    'a viewed leaf AND every symptom is the one the class explains (exactly the keys of '
    'the raising leaves missing from the listing, values() / items() aligned with that '
    'shorter listing, apply() equal to the tree with exactly the other key paths mapped); '
    'every other symptom gets a key of its own (mapfn:<form>:<fn class>:<symptom>)')
ASSUMPTIONS = [
    'roots of all copying-set cases are plain dict / list / tuple containers. A root '
    'that is itself a leaf (Python / numpy scalar incl. the falsy ones, None, str incl. '
    "'', ndarray of any shape incl. 0-d and empty) is generated by the leaf-root cases "
    'and only the read-only clauses are demanded there: iteration lists exactly one '
    'path (any key - upstream uses SELF - that reads back the very root object), '
    'keys()/values()/items()/len agree, multi-key reads of SELF / Key() / Literal, '
    'apply() returns fn(root) and calls fn on nothing else, the root is not mutated. No '
    'set is performed on a leaf root; an EMPTY dict / list / tuple root lists no leaf; '
    'bytes / bytearray / range / deque roots and a NullMap (default) root are not '
    'generated',
    'containers are exactly dict, list, tuple (no subclasses, namedtuples, '
    'MappingProxyType); dict keys are str or non-bool int; sequence positions are '
    'addressed with Index(i), dict keys with the plain key',
    'leaf definition: everything that is not a non-empty dict / list / tuple - i.e. the '
    'library docstring definition (non-Mapping, non-Sequence, str; ndarray is a leaf; an '
    'empty dict/list/tuple is a leaf when it has a parent path) EXTENDED to values of the '
    'Sequence types bytes, bytearray, range and collections.deque, which '
    '__getitem__ / set cannot index into and which the seqleaf cases therefore demand '
    'to be listed, read back and mapped as whole values (empty ones included); such '
    'values occur only in the initial tree of seqleaf cases, are only ever read or '
    'replaced as a whole, and other Sequence types (array.array, memoryview, user '
    'classes) are not generated',
    'copying set is demanded only where documented/tested: replace an existing key or '
    'position (dict, list, tuple -> tuple), new dict key, list append at index == len, '
    'creation through missing keys (dict for a key, list for Index(0)), a 1-D int64 / '
    'float64 ndarray element set to a Python int / float of the same kind (read back by '
    'equality, the array copy is compared by bytes); NOT generated: negative indices, '
    'append to a tuple or ndarray, non-zero index into a missing position, paths below a '
    'scalar leaf, Index on a dict / key on a list, SELF or SKIP inside a longer path in a '
    'set, Literal in a set, a NullMap (default) root, strict=True',
    'key_paths= views (keypaths cases): every key path exists in the tree and the paths '
    'are pairwise distinct (absent key paths, which the library skips by design, '
    'duplicates, SELF / Literal / SKIP entries and strict=True are not generated); a '
    'present key path must be listed whatever its value or mapped value is (None '
    'included), in the order given; apply() is checked only when all key paths are leaf '
    'paths (a key path to an inner node makes the function a node function); how often '
    'the leaf function is called is not judged, only on which objects; the leaf function '
    'is deterministic per leaf object (memoised), returning None or a fresh wrapper',
    'within one multi-key operation no key path is a prefix of (or equal to) another; '
    'keys are applied in the given order (later keys may append after earlier ones, as in '
    'the upstream copy_and_update tests)',
    'multi-key copy_and_set values are exact tuples of len(keys); a 1-key tuple gets '
    'either a non-tuple value, a 1-tuple (value,), or a tuple of length >= 2 that is '
    'stored as the value itself (all three are upstream-tested conventions)',
    'SELF / Key() replace the root only with a container value',
    'in-place sets (view[k] = v, view.set(k, v), view.set(k, v, in_place=True); "inplace" '
    'cases): only the law "reading a path after a set returns the set value" is '
    'demanded - read from the view itself after view[k] = v and from the view that '
    'set() returned - nothing about what else was mutated (frame, originals, aliasing); '
    'roots: the empty TreeMapView() (NullMap placeholder), {} / [], dict / list trees '
    'built of dict and list containers only (a tuple on the path cannot be mutated and '
    'is rejected by design), no container object under two positions; paths: existing '
    'leaf / inner node, new dict key, list append, nested creation, on an empty view a '
    'fresh path (key or Index(0) first), root replacement by SELF / (SELF,) / Key() with '
    'a container value, multi-key tuples of 2-3 unrelated paths; no SKIP, Literal, '
    'ndarray element, strict=True',
    'views with a leaf function (mapfn cases): key paths as in the keypaths cases (existing, '
    'pairwise distinct leaf paths); the leaf function is deterministic per leaf object '
    '(equal singleton leaves such as None / small ints share their fate), raises only '
    'KeyError, IndexError or ValueError, always a fresh exception object; view.get(k, '
    'default) is NOT judged (Mapping.get may turn a KeyError into the default by its '
    'contract); a listing (iter / keys() / len) that raises the function\'s own exception '
    'is accepted; how often the function is called is not judged',
    'operations outside the domain above are only required not to mutate any original; '
    'whether they raise is not judged, but one that is accepted must read back the value '
    'under the path it was given',
    'dict key order, container identity off the path and the iteration order are not '
    'judged; only leaf identity, container type, keys and lengths are (for key_paths '
    'views the listing order is the given key_paths order and IS judged)',
]
REQUIRED = ['set_ops', 'model_checks', 'get_after_set_checks', 'frame_checks',
            'original_snapshot_checks', 'set_current_checks', 'iter_checks',
            'multiget_checks', 'apply_checks', 'fresh_path_ops', 'nested_creation_ops',
            'append_ops', 'skip_ops', 'self_ops', 'literal_reads', 'multikey_ops',
            'update_ops', 'or_ops', 'view_merge_ops', 'array_element_ops',
            'tuple_node_ops', 'error_nonmutation_checks', 'allpaths_ops', 'alias_ops',
            'aliased_tree_iter_checks', 'leaf_root_checks', 'leaf_root_truthy_checks',
            'leaf_root_falsy_checks', 'leaf_root_ambiguous_checks',
            'leaf_root_array_checks', 'sequence_leaf_checks', 'key_paths_checks',
            'key_paths_none_value_checks', 'key_paths_none_mapped_checks',
            'inplace_set_ops', 'inplace_get_after_set_checks', 'inplace_empty_view_ops',
            'inplace_root_replace_ops', 'inplace_multikey_ops', 'inplace_below_root_ops',
            'inplace_api_setitem_ops', 'inplace_api_set_ops', 'inplace_api_set_inplace_ops',
            'mapfn_checks', 'mapfn_total_fn_checks', 'mapfn_partial_fn_checks',
            'mapfn_key_paths_partial_checks', 'mapfn_all_leaves_partial_checks',
            'mapfn_raises_KeyError_checks', 'mapfn_raises_IndexError_checks',
            'mapfn_raises_ValueError_checks', 'mapfn_key_paths_lookup_error_checks',
            'mapfn_read_checks', 'mapfn_error_propagation_checks']
EXHAUSTIVE = {'quick': False, 'thorough': False}

KEEP_WITNESSES = 3

KEYS = ['a', 'b', 'c', 'd', 'e', 'f', 'model', 'pred', 0, 1, 2, 7, 'SELF', 'SKIP']
NEWKEYS = ['n1', 'n2', 'n3', 'n4', 'n5', 'n6', 11, 12, 13, 'SKIP', 'SELF']

PROFILES = {
    'quick': {'max_depth': 4, 'max_children': 4, 'max_ops': 10},
    'thorough': {'max_depth': 4, 'max_children': 5, 'max_ops': 10},
}


# ---------------------------------------------------------------------------
# Generator (draws from rng and the model only)
# ---------------------------------------------------------------------------


class Gen:

  def __init__(self, rng, prof):
    self.rng = rng
    self.prof = prof
    self.n = 1000
    self.alias_base = None
    # Widened input classes; both flags are off in the classic cases, so the classic
    # random stream is exactly what it was.
    self.seq_leaves = False   # bytes / bytearray / range / deque leaf values
    self.none_boost = False   # more None leaves (key_paths cases)
    self.mutable_only = False  # in-place cases: dict / list containers, no aliases

  def uid(self):
    self.n += 1
    return self.n

  def scalar(self):
    r, n = self.rng.random(), self.uid()
    if r < 0.5:
      return n
    if r < 0.65:
      return n + 0.5
    if r < 0.82:
      return 's%d' % n
    if r < 0.88:
      return None
    if r < 0.92:
      return self.rng.choice([0, '', 0.0, False])
    return n

  def array(self):
    import numpy as np
    r, n, ln = self.rng.random(), self.uid(), self.rng.randint(0, 4)
    if r < 0.55:
      return np.arange(n * 10, n * 10 + ln, dtype=np.int64)
    if r < 0.8:
      return np.arange(ln, dtype=np.float64) + n + 0.25
    if r < 0.9:
      return np.arange(n * 10, n * 10 + 2 * max(ln, 1), dtype=np.int64).reshape(-1, 2)
    return np.array(n)

  def seqleaf(self):
    """A value of a Sequence type other than list / tuple / str (a model leaf)."""
    import collections
    rng, n = self.rng, self.uid()
    ln = rng.choice([0, 1, 2, 2, 3])
    r = rng.random()
    if r < 0.35:
      return bytes((n + j) % 256 for j in range(ln))
    if r < 0.45:
      return bytearray((n + j) % 256 for j in range(ln))
    if r < 0.7:
      return range(n * 10, n * 10 + ln)
    return collections.deque(n * 10 + j for j in range(ln))

  def leaf_root(self):
    """A root that is itself a leaf; returns (value, generator class)."""
    import numpy as np
    rng, n = self.rng, self.uid()
    cls = rng.choice(['truthy', 'falsy', 'falsy', 'none', 'str', 'arr0d', 'arr1',
                      'arrn', 'arrn'])
    if cls == 'truthy':
      v = rng.choice([n, n + 0.5, True, -n, np.float32(n + 0.5), np.int64(n),
                      np.bool_(True)])
    elif cls == 'falsy':
      v = rng.choice([0, 0.0, False, '', np.float32(0), np.int64(0), np.float64(0),
                      np.bool_(False)])
    elif cls == 'none':
      v = None
    elif cls == 'str':
      v = 's%d' % n
    elif cls == 'arr0d':
      v = np.array(rng.choice([n, 0, n + 0.25, 0.0, True, False]))
    elif cls == 'arr1':
      x = rng.choice([n, 0, n + 0.25, 0.0])
      v = np.array([[x]]) if rng.random() < 0.3 else np.array([x])
    else:
      r = rng.random()
      if r < 0.25:
        v = np.array([], dtype=rng.choice([np.int64, np.float64]))
      elif r < 0.35:
        v = np.zeros((0, 2), dtype=np.int64)
      elif r < 0.75:
        ln = rng.randint(2, 5)
        v = (np.arange(n * 10, n * 10 + ln, dtype=np.int64) if rng.random() < 0.5
             else np.arange(ln, dtype=np.float64) + n + 0.25)
        if rng.random() < 0.25:
          v = v * 0
      else:
        v = np.arange(n * 10, n * 10 + 2 * rng.randint(1, 3), dtype=np.int64).reshape(-1, 2)
    return v, cls

  def leaf(self):
    if self.seq_leaves and self.rng.random() < 0.3:
      return self.seqleaf()
    if self.none_boost and self.rng.random() < 0.2:
      return None
    r = self.rng.random()
    if r < 0.72:
      return self.scalar()
    if r < 0.9:
      return self.array()
    if self.mutable_only:
      return self.rng.choice([dict, list])()
    return self.rng.choice([dict, list, tuple])()

  def container(self, depth, kinds=('dict', 'dict', 'list', 'tuple')):
    rng = self.rng
    if self.mutable_only:
      kinds = tuple(k for k in kinds if k != 'tuple') or ('dict',)
    kind = rng.choice(kinds)
    nchild = rng.randint(1, self.prof['max_children'])
    if rng.random() < 0.05:
      nchild = 0
    kids = []
    for _ in range(nchild):
      prev = [k for k in kids if type(k) in (dict, list, tuple) and k]
      if prev and not self.mutable_only and rng.random() < 0.12:
        # The same container object under two positions (a repeated row).
        kids.append(rng.choice(prev))
      elif depth > 1 and rng.random() < 0.55:
        kids.append(self.container(depth - 1))
      else:
        kids.append(self.leaf())
    if kind == 'dict':
      keys = rng.sample(KEYS, nchild)
      return dict(zip(keys, kids))
    return kids if kind == 'list' else tuple(kids)

  def value(self):
    r = self.rng.random()
    if r < 0.7:
      return self.leaf()
    return self.container(self.rng.randint(1, 2))

  def container_value(self):
    return self.container(self.rng.randint(1, 2))

  # ---- paths ---------------------------------------------------------------
  def nest_tail(self):
    rng = self.rng
    tail = []
    for _ in range(rng.choice([0, 0, 1, 1, 2, 3])):
      tail.append(('i', 0) if rng.random() < 0.35 else ('k', rng.choice(NEWKEYS)))
    return tuple(tail)

  def item(self, tree, cls):
    """Returns {'steps','value','cls'} for path class `cls`, or None."""
    rng = self.rng
    if cls == 'root':
      return {'steps': (), 'value': self.container_value(), 'cls': 'root'}
    if cls == 'leaf':
      ls = m.leaves(tree)
      if not ls:
        return None
      steps, _ = rng.choice(ls)
      return {'steps': steps, 'value': self.value(), 'cls': cls}
    if cls == 'node':
      ns = [p for p, n in m.nodes(tree) if m.is_branch(n)]
      if not ns:
        return None
      return {'steps': rng.choice(ns), 'value': self.value(), 'cls': cls}
    if cls == 'newkey':
      cs = [(p, c) for p, c in m.containers(tree) if type(c) is dict]
      if not cs:
        return None
      p, c = rng.choice(cs)
      free = [k for k in NEWKEYS + KEYS if k not in c]
      tail = self.nest_tail()
      return {'steps': p + (('k', rng.choice(free)),) + tail, 'value': self.value(),
              'cls': 'nested' if tail else 'newkey'}
    if cls == 'append':
      cs = [(p, c) for p, c in m.containers(tree) if type(c) is list]
      if not cs:
        return None
      p, c = rng.choice(cs)
      tail = self.nest_tail()
      return {'steps': p + (('i', len(c)),) + tail, 'value': self.value(),
              'cls': 'append_nested' if tail else 'append'}
    if cls in ('arrelem', 'arrelem_current'):
      import numpy as np
      arrs = [(p, a) for p, a in m.leaves(tree)
              if isinstance(a, np.ndarray) and a.ndim == 1 and a.shape[0] > 0
              and a.dtype.kind in 'if']
      if not arrs:
        return None
      p, a = rng.choice(arrs)
      j = rng.randrange(a.shape[0])
      if cls == 'arrelem_current':
        v = int(a[j]) if a.dtype.kind == 'i' else float(a[j])
      else:
        v = self.uid() if a.dtype.kind == 'i' else self.uid() + 0.5
      return {'steps': p + (('i', j),), 'value': v, 'cls': cls}
    if cls == 'current':
      ns = m.nodes(tree)
      if not ns:
        return None
      p, n = rng.choice(ns)
      return {'steps': p, 'value': n, 'cls': cls}
    if cls == 'alias':
      # A non-empty container read from one path is set under another path: the
      # same object is then reachable twice.
      # The source is read from the tree the whole operation starts from (not
      # from the partially updated tree of a multi-key operation).
      base = self.alias_base if self.alias_base is not None else tree
      srcs = [(p, n) for p, n in m.nodes(base)
              if m.is_branch(n) and len(m.leaves(n)) <= 10]
      if not srcs or len(m.leaves(tree)) > 60:
        return None
      it = self.item(tree, rng.choice(['newkey', 'append', 'leaf']))
      if it is None:
        return None
      it['alias_src'], it['value'] = rng.choice(srcs)
      return it
    raise ValueError(cls)

  def any_item(self, tree, classes):
    order = list(classes)
    self.rng.shuffle(order)
    # Weighted first pick, then the rest as fall-backs.
    for cls in order + ['root']:
      it = self.item(tree, cls)
      if it is not None:
        return it
    raise AssertionError('unreachable')


ITEM_CLASSES = ['leaf', 'leaf', 'node', 'newkey', 'newkey', 'append', 'append',
                'arrelem', 'alias']
SINGLE_FORMS = ['set_key', 'set_key', 'set_scalar', 'set_multi1', 'update_dict',
                'or_dict', 'update_pairs']
MULTI_FORMS = ['set_multi', 'set_multi', 'update_dict', 'or_dict', 'update_pairs']


def gen_op(g, tree):
  """Draws one operation against model state `tree`; returns the op dict."""
  rng = g.rng
  g.alias_base = tree
  r = rng.random()
  if r < 0.05:
    return _finish(g, tree, {'form': rng.choice(['skip', 'skip_multi']), 'items': [],
                             'junk': g.value()})
  if r < 0.08:
    return _finish(g, tree, {'form': 'update_empty', 'items': []})
  if r < 0.13:
    it = g.item(tree, 'root')
    return _finish(g, tree, {'form': rng.choice(['set_self', 'set_self_multi',
                                                 'set_root']), 'items': [it]})
  if r < 0.23:
    cls = rng.choice(['current', 'current', 'arrelem_current'])
    it = g.item(tree, cls) or g.item(tree, 'current')
    if it is not None:
      form = rng.choice(['set_key', 'set_key', 'update_dict', 'set_multi1'])
      return _finish(g, tree, {'form': form, 'items': [it], 'current': True})
  if r < 0.35:
    # merge another tree: view | other_view, copy_and_update(view / view.items())
    for _ in range(6):
      kinds = ('dict',) if type(tree) is dict else ('list',)
      other = g.container(rng.randint(1, 3), kinds=kinds)
      items = [{'steps': p, 'value': v, 'cls': 'merge'} for p, v in m.leaves(other)]
      op = _finish(g, tree, {'form': rng.choice(['or_view', 'update_view',
                                                 'update_items']),
                             'items': items, 'other': other})
      if op is not None:
        return op
  if r < 0.65:
    it = g.any_item(tree, ITEM_CLASSES)
    form = rng.choice(SINGLE_FORMS)
    if form == 'set_scalar' and len(it['steps']) != 1:
      form = 'set_key'
    if it['cls'] == 'root':
      form = 'set_root'
    return _finish(g, tree, {'form': form, 'items': [it]})
  # multi-key: items drawn sequentially against the evolving model
  want = rng.randint(2, 5)
  items, cur = [], tree
  for _ in range(want * 4):
    if len(items) >= want:
      break
    it = g.any_item(cur, ITEM_CLASSES)
    if it['cls'] == 'root' or any(m.related(it['steps'], o['steps']) for o in items):
      continue
    try:
      cur = m.m_set(cur, it['steps'], it['value'], [])
    except m.Undefined:
      continue
    items.append(it)
  if not items:
    return _finish(g, tree, {'form': 'update_empty', 'items': []})
  form = rng.choice(MULTI_FORMS) if len(items) > 1 else rng.choice(SINGLE_FORMS[3:])
  op = {'form': form, 'items': items}
  if form == 'set_multi' and rng.random() < 0.4:
    op['skip_at'] = rng.randint(0, len(items))
    op['junk'] = g.value()
  return _finish(g, tree, op)


def _finish(g, tree, op):
  """Adds the model result; None if the model does not define the operation."""
  fresh = []
  cur = tree
  try:
    for it in op['items']:
      cur = m.m_set(cur, it['steps'], it['value'], fresh)
  except m.Undefined:
    return None
  op['model'] = cur
  op['fresh'] = fresh
  op['key_scalar'] = [g.rng.random() < 0.5 for _ in op['items']]
  op['wrap'] = g.rng.random() < 0.5
  return op


# ---------------------------------------------------------------------------
# Library adapter
# ---------------------------------------------------------------------------


def lib_key(steps):
  from ml_metrics._src.chainables import tree as tl
  return tl.Key(tuple(tl.Index(k) if tag == 'i' else k for tag, k in steps))


def lib_key_or_scalar(steps, scalar):
  k = lib_key(steps)
  return k[0] if (scalar and len(k) == 1) else k


def call_op(view, op):
  """Performs `op` on the library view, returns (new view, description)."""
  from ml_metrics._src.chainables import tree as tl
  K = tl.Key
  form, items = op['form'], op['items']
  ks = [lib_key_or_scalar(it['steps'], sc) for it, sc in zip(items, op['key_scalar'])]
  vs = [it['value'] for it in items]
  if form == 'set_key':
    k = lib_key(items[0]['steps'])
    return view.copy_and_set(k, vs[0]), f'copy_and_set({k!r}, {m.short(vs[0])})'
  if form == 'set_scalar':
    k = lib_key(items[0]['steps'])[0]
    return view.copy_and_set(k, values=vs[0]), f'copy_and_set({k!r}, {m.short(vs[0])})'
  if form == 'set_root':
    return view.copy_and_set(K(), vs[0]), f'copy_and_set(Key(), {m.short(vs[0])})'
  if form == 'set_self':
    return (view.copy_and_set(K.SELF, vs[0]),
            f'copy_and_set(Key.SELF, {m.short(vs[0])})')
  if form == 'set_self_multi':
    return (view.copy_and_set((K.SELF,), (vs[0],)),
            f'copy_and_set((Key.SELF,), ({m.short(vs[0])},))')
  if form == 'skip':
    return (view.copy_and_set(K.SKIP, op['junk']),
            f'copy_and_set(Key.SKIP, {m.short(op["junk"])})')
  if form == 'skip_multi':
    return (view.copy_and_set((K.SKIP,), (op['junk'],)),
            f'copy_and_set((Key.SKIP,), ({m.short(op["junk"])},))')
  if form == 'set_multi1':
    v = vs[0]
    bare_ok = type(v) is not tuple or len(v) >= 2
    arg = v if (bare_ok and not op['wrap']) else (v,)
    return (view.copy_and_set((ks[0],), arg),
            f'copy_and_set(({ks[0]!r},), {m.short(arg)})')
  if form == 'set_multi':
    keys, values = list(ks), list(vs)
    if 'skip_at' in op:
      keys.insert(op['skip_at'], K.SKIP)
      values.insert(op['skip_at'], op['junk'])
    return (view.copy_and_set(tuple(keys), tuple(values)),
            f'copy_and_set({tuple(keys)!r}, {m.short(tuple(values), 200)})')
  if form == 'update_empty':
    return view.copy_and_update({}), 'copy_and_update({})'
  if form == 'update_dict':
    d = dict(zip(ks, vs))
    return view.copy_and_update(d), f'copy_and_update({m.short(d, 200)})'
  if form == 'or_dict':
    d = dict(zip(ks, vs))
    return view | d, f'view | {m.short(d, 200)}'
  if form == 'update_pairs':
    pairs = list(zip(ks, vs))
    return view.copy_and_update(pairs), f'copy_and_update({m.short(pairs, 200)})'
  if form == 'or_view':
    return (view | tl.TreeMapView(op['other']),
            f'view | TreeMapView({m.short(op["other"], 200)})')
  if form == 'update_view':
    return (view.copy_and_update(tl.TreeMapView.as_view(op['other'])),
            f'copy_and_update(TreeMapView({m.short(op["other"], 200)}))')
  if form == 'update_items':
    return (view.copy_and_update(tl.TreeMapView(op['other']).items()),
            f'copy_and_update(TreeMapView({m.short(op["other"], 200)}).items())')
  raise ValueError(form)


def _passes_tuple(tree, steps):
  node = tree
  for tag, k in steps:
    if type(node) is tuple:
      return True
    try:
      node = m.m_get(node, [(tag, k)])
    except Exception:  # pylint: disable=broad-exception-caught
      return False
  return False


class Run:
  """Executes one case and reports to ctx."""

  def __init__(self, ctx, case):
    self.ctx = ctx
    self.case = case
    self.descs = []
    self.tree_repr = ''
    self.failed = False

  def violation(self, kind, why, mech):
    self.failed = True
    # Every violation is counted per mechanism ('viol:<key>'); the first KEEP per
    # mechanism and chunk are kept as replayable witnesses.
    seen = self.ctx.counters.get('viol:' + mech, 0)
    self.ctx.count('viol:' + mech)
    if seen >= KEEP_WITNESSES:
      return
    self.ctx.violation(kind, self.case, {
        'tree': self.tree_repr[:700], 'ops': self.descs[-12:], 'why': why,
    }, mechanism=mech)

  # ---- one copying operation -------------------------------------------------
  def step(self, view, prev_data, op, originals, label, register=True):
    """Applies `op` to `view`; returns the new view or None after a violation."""
    ctx = self.ctx
    form = op['form']
    cls = op['items'][0]['cls'] if op['items'] else form
    mech = f'{form}:{cls}'
    # The expected tree is the persistent update of the (already verified) actual
    # previous tree; a set-to-current takes the value found there.
    fresh, expected = [], prev_data
    try:
      for it in op['items']:
        if it['cls'] == 'current':
          it['value'] = m.m_get(prev_data, it['steps'])
        if 'alias_src' in it:
          # The very object found under the source path of the actual tree.
          it['value'] = m.m_get(prev_data, it['alias_src'])
        expected = m.m_set(expected, it['steps'], it['value'], fresh)
    except Exception as e:  # pylint: disable=broad-exception-caught
      ctx.inconclusive_case(f'model could not follow the actual tree: {e!r}', self.case)
      return None
    if register:
      for it in op['items']:
        originals.add(f'value of {label}', it['value'])
    if register and 'other' in op:
      originals.add(f'merged tree of {label}', op['other'])
    if register and 'junk' in op:
      originals.add(f'skipped value of {label}', op['junk'])
    try:
      new_view, desc = call_op(view, op)
    except Exception as e:  # pylint: disable=broad-exception-caught
      self.descs.append(f'{form} {[it["steps"] for it in op["items"]]}')
      self.violation('raised', f'{type(e).__name__}: {e}'[:300], 'raised:' + mech)
      return None
    self.descs.append(desc)
    ctx.count('set_ops')
    self._count_op(op, prev_data)
    data = new_view.data
    # (1) equals the model
    ctx.count('model_checks')
    fresh_ids = {id(a) for a in fresh}
    r = m.same(data, expected, fresh_ids)
    if r:
      self.violation('model_mismatch', {'at': list(r[0]), 'reason': r[1],
                                        'got': m.short(data, 300),
                                        'want': m.short(expected, 300)},
                     'model_mismatch:' + mech)
      return None
    # (2) reading a set path returns the set value
    for it in op['items']:
      ctx.count('get_after_set_checks')
      try:
        got = new_view[lib_key(it['steps'])]
        if not it['steps']:
          ok = got is it['value'] and new_view[_self()] is it['value']
        elif _is_array(m.m_get(expected, it['steps'][:-1])):
          ok = bool(got == it['value'])
        else:
          ok = got is it['value']
      except Exception as e:  # pylint: disable=broad-exception-caught
        got, ok = f'{type(e).__name__}: {e}'[:200], False
      if not ok:
        self.violation('get_after_set', {'path': list(it['steps']),
                                         'got': m.short(got), 'want': m.short(it['value'])},
                       'get_after_set:' + mech)
        return None
    # (3) frame: every unrelated leaf of the previous tree reads as before
    set_paths = [it['steps'] for it in op['items']]
    for p, leaf in m.leaves(prev_data):
      if any(m.related(p, q) for q in set_paths):
        continue
      ctx.count('frame_checks')
      try:
        got = new_view[lib_key(p)]
        ok = got is leaf
      except Exception as e:  # pylint: disable=broad-exception-caught
        got, ok = f'{type(e).__name__}: {e}'[:200], False
      if not ok:
        self.violation('frame', {'path': list(p), 'got': m.short(got),
                                 'want': m.short(leaf)}, 'frame:' + mech)
        return None
    # (4) set-to-current / SKIP / empty update change nothing
    if op.get('current') or form in ('skip', 'skip_multi', 'update_empty'):
      ctx.count('set_current_checks')
      allow = set()
      for it in op['items']:
        if it['cls'] == 'arrelem_current':
          allow.add(id(m.m_get(prev_data, it['steps'][:-1])))
      r = m.same(data, prev_data, allow)
      if r:
        self.violation('set_current_changed', {'at': list(r[0]), 'reason': r[1]},
                       'set_current_changed:' + mech)
        return None
    # (5) nothing registered so far has changed
    if not self.check_originals(originals, mech):
      return None
    if register:
      originals.add(f'result of {label}', data)
    return new_view

  def check_originals(self, originals, mech):
    self.ctx.count('original_snapshot_checks', len(originals))
    changed = originals.changed()
    if changed:
      self.violation('original_mutated', {'changed': changed[:5]},
                     'original_mutated:' + mech)
      return False
    return True

  def _count_op(self, op, prev_data):
    ctx, form = self.ctx, op['form']
    for it in op['items']:
      cls = it['cls']
      if cls in ('newkey', 'nested', 'append', 'append_nested'):
        ctx.count('fresh_path_ops')
      if cls in ('nested', 'append_nested'):
        ctx.count('nested_creation_ops')
      if cls in ('append', 'append_nested'):
        ctx.count('append_ops')
      if cls in ('arrelem', 'arrelem_current'):
        ctx.count('array_element_ops')
      if 'alias_src' in it:
        ctx.count('alias_ops')
    if op['items'] and _passes_tuple(prev_data, op['items'][0]['steps']):
      ctx.count('tuple_node_ops')
    if form in ('skip', 'skip_multi') or 'skip_at' in op:
      ctx.count('skip_ops')
    if form in ('set_self', 'set_self_multi', 'set_root'):
      ctx.count('self_ops')
    if form == 'set_multi' or (form.startswith(('update', 'or')) and len(op['items']) > 1):
      ctx.count('multikey_ops')
    if form.startswith('update'):
      ctx.count('update_ops')
    if form.startswith('or_'):
      ctx.count('or_ops')
    if 'other' in op:
      ctx.count('view_merge_ops')

  # ---- read-only checks ----------------------------------------------------------
  def check_iteration(self, data):
    from ml_metrics._src.chainables import tree as tl
    ctx = self.ctx
    ctx.count('iter_checks')
    conts = [id(c) for _, c in m.containers(data) if c]
    if len(set(conts)) != len(conts):
      ctx.count('aliased_tree_iter_checks')
    mine = {tuple(k for _, k in p): leaf for p, leaf in m.leaves(data)}
    view = tl.TreeMapView(data)
    try:
      keys = list(view)
    except Exception as e:  # pylint: disable=broad-exception-caught
      self.violation('iter_raised', f'{type(e).__name__}: {e}'[:300], 'iter:raised')
      return False
    if self.sequence_leaf_symptom(view, data, keys):
      return False
    try:
      keys2, values, items, n = view.keys(), view.values(), list(view.items()), len(view)
    except Exception as e:  # pylint: disable=broad-exception-caught
      self.violation('iter_raised', f'{type(e).__name__}: {e}'[:300], 'iter:raised')
      return False
    why = None
    if len(keys) != len(mine) or n != len(mine):
      why = {'listed': len(keys), 'len': n, 'leaves': len(mine)}
    elif len({tuple(k) for k in keys}) != len(keys):
      why = {'duplicate_paths': [repr(k) for k in keys][:20]}
    elif {tuple(k) for k in keys} != set(mine):
      why = {'paths': [repr(k) for k in keys][:20], 'want': [repr(k) for k in mine][:20]}
    elif list(keys2) != keys or len(values) != len(keys) or len(items) != len(keys):
      why = {'keys_values_items_disagree': [len(keys2), len(values), len(items)]}
    else:
      for i, k in enumerate(keys):
        try:
          got = view[k]
        except Exception as e:  # pylint: disable=broad-exception-caught
          got = e
        want = mine[tuple(k)]
        if (got is not want or values[i] is not want or items[i][1] is not want
            or items[i][0] != k):
          why = {'path': repr(k), 'read': m.short(got), 'values': m.short(values[i]),
                 'items': m.short(items[i]), 'want': m.short(want)}
          break
    if why:
      self.violation('iteration', dict(why, data=m.short(data, 300)), 'iteration')
      return False
    return True

  def sequence_leaf_symptom(self, view, data, keys):
    """Input class: a non-empty bytes / bytearray / range / deque value in the tree.

    Symptom: the view lists paths BELOW such a value (it descended into it). Only
    that combination gets the sequence-leaf mechanism key; anything else on these
    trees goes through the ordinary iteration check.
    """
    from ml_metrics._src.chainables import tree as tl
    seqs = [(tuple(k for _, k in p), leaf) for p, leaf in m.leaves(data)
            if m.is_seq_leaf(leaf) and len(leaf)]
    if not seqs:
      return False
    self.ctx.count('sequence_leaf_checks')
    below = [k for k in keys
             if any(len(k) > len(p) and tuple(k)[:len(p)] == p for p, _ in seqs)]
    if not below:
      return False
    unreadable = []
    for k in below:
      try:
        view[k]
      except Exception as e:  # pylint: disable=broad-exception-caught
        unreadable.append([repr(k), type(e).__name__])
    try:
      res = tl.TreeMapView(data, map_fn=Tag).apply()
      r = _mapped_same(res, data, ())
      applied = 'maps exactly the leaves' if r is None else f'differs at {r}'[:200]
    except Exception as e:  # pylint: disable=broad-exception-caught
      applied = f'raised {type(e).__name__}: {e}'[:200]
    self.violation(
        'sequence_leaf',
        {'sequence_leaves': sorted({type(leaf).__name__ for _, leaf in seqs}),
         'listed_below_a_leaf': [repr(k) for k in below][:8],
         'do_not_read_back': unreadable[:8], 'apply': applied,
         'data': m.short(data, 300)},
        'non-list-sequence-leaf-enumerated-unreadable' if unreadable
        else 'non-list-sequence-leaf-enumerated')
    return True

  def check_multiget(self, g, data):
    from ml_metrics._src.chainables import tree as tl
    ctx, rng = self.ctx, g.rng
    view = tl.TreeMapView.as_view(data)
    ns = m.nodes(data)
    for _ in range(3):
      keys, wants, descs = [], [], []
      for _j in range(rng.choice([0, 1, 2, 3, 3, 4, 5])):
        r = rng.random()
        if r < 0.6 and ns:
          p, node = rng.choice(ns)
          keys.append(lib_key_or_scalar(p, rng.random() < 0.5))
          wants.append(node)
        elif r < 0.7 and ns:
          p, node = rng.choice(ns)
          keys.append(tl.Key(tuple(lib_key(p)) + (_self(),)))
          wants.append(node)
        elif r < 0.8:
          keys.append(_self())
          wants.append(data)
        elif r < 0.85:
          keys.append(tl.Key())
          wants.append(data)
        else:
          v = g.leaf()
          keys.append(tl.Key.Literal(v))
          wants.append(v)
          ctx.count('literal_reads')
      ctx.count('multiget_checks')
      try:
        got = view[tuple(keys)]
        ok = (type(got) is tuple and len(got) == len(wants)
              and all(a is b for a, b in zip(got, wants)))
        if ok and keys:
          # single-key form of the first key agrees
          ok = view[keys[0]] is wants[0]
      except Exception as e:  # pylint: disable=broad-exception-caught
        got, ok = f'{type(e).__name__}: {e}'[:200], False
      if not ok:
        self.violation('multiget', {'keys': repr(tuple(keys))[:300],
                                    'got': m.short(got, 300),
                                    'want': m.short(tuple(wants), 300),
                                    'data': m.short(data, 300)},
                       'multiget:%s' % ('3plus' if len(keys) >= 3 else 'short'))
        return False
    return True

  def check_apply(self, g, data, originals):
    from ml_metrics._src.chainables import tree as tl
    ctx = self.ctx
    ctx.count('apply_checks')
    calls = []

    def fn(x):
      calls.append(x)
      return Tag(x)

    try:
      if g.rng.random() < 0.5:
        view = tl.TreeMapView.as_view(data, map_fn=fn)
      else:
        view = tl.TreeMapView(data, map_fn=fn)
      res = view.apply()
    except Exception as e:  # pylint: disable=broad-exception-caught
      self.violation('apply_raised', {'error': f'{type(e).__name__}: {e}'[:300],
                                      'data': m.short(data, 300)}, 'apply:raised')
      return False
    if not self.check_originals(originals, 'apply'):
      return False
    r = _mapped_same(res, data, ())
    if r:
      self.violation('apply_result', {'at': list(r[0]), 'reason': r[1],
                                      'got': m.short(res, 300),
                                      'data': m.short(data, 300)}, 'apply:result')
      return False
    leaf_ids = {id(leaf) for _, leaf in m.leaves(data)}
    called = {id(x) for x in calls}
    if not called <= leaf_ids:
      bad = [m.short(x) for x in calls if id(x) not in leaf_ids][:3]
      self.violation('apply_non_leaf', {'fn_called_on': bad, 'data': m.short(data, 300)},
                     'apply:non_leaf')
      return False
    if not leaf_ids <= called:
      self.violation('apply_leaf_skipped', {'data': m.short(data, 300)},
                     'apply:leaf_skipped')
      return False
    return True

  def check_error_ops(self, g, data, originals):
    """Sets outside the defined domain: may raise, must not mutate."""
    from ml_metrics._src.chainables import tree as tl
    rng = g.rng
    view = tl.TreeMapView(data)
    cands = []
    scal = [p for p, leaf in m.leaves(data) if type(leaf) in (int, float, str)]
    if scal:
      cands.append(rng.choice(scal) + (('k', 'zz'),))
    dicts = [p for p, c in m.containers(data) if type(c) is dict]
    if dicts:
      cands.append(rng.choice(dicts) + (('k', 'nn9'), ('i', rng.randint(1, 3))))
    lists = [(p, c) for p, c in m.containers(data) if type(c) is list]
    if lists:
      p, c = rng.choice(lists)
      cands.append(p + (('i', len(c) + rng.randint(1, 2)),))
      cands.append(p + (('k', 'strkey'),))
      cands.append(p + (('i', len(c) + rng.randint(1, 3)), ('k', 'n1')))
    seqs = [(p, c) for p, c in m.containers(data) if type(c) in (list, tuple) and p]
    if seqs:
      p, c = rng.choice(seqs)
      cands.append(p + (('i', len(c) + rng.randint(1, 2)),))
      cands.append(p + (('i', -1 - rng.randint(0, len(c) + 1)),))
    for steps in cands:
      v = g.value()
      originals.add('value of failing set', v)
      self.descs.append(f'(failing) copy_and_set({lib_key(steps)!r}, {m.short(v)})')
      try:
        new_view = view.copy_and_set(lib_key(steps), v)
      except Exception:  # pylint: disable=broad-exception-caught
        new_view = None
      self.ctx.count('error_nonmutation_checks')
      if not self.check_originals(originals, 'failing_set'):
        return False
      if new_view is not None:
        # Not rejected: then the first law still binds - the path reads the value.
        self.ctx.count('accepted_outside_domain_reads')
        try:
          got = new_view[lib_key(steps)]
          ok = got is v
        except Exception as e:  # pylint: disable=broad-exception-caught
          got, ok = f'{type(e).__name__}: {e}'[:200], False
        if not ok:
          self.violation('get_after_set', {'path': list(steps), 'got': m.short(got),
                                           'want': m.short(v),
                                           'result': m.short(new_view.data, 300)},
                         'get_after_set:outside_domain_set_accepted')
          return False
    return True

  def allpaths(self, g, data, originals):
    """One copying set per node and per container of `data`."""
    from ml_metrics._src.chainables import tree as tl
    import numpy as np
    view = tl.TreeMapView(data)
    ops = []
    for p, node in m.nodes(data):
      ops.append({'form': 'set_key', 'items': [
          {'steps': p, 'value': g.leaf(), 'cls': 'node' if m.is_branch(node) else 'leaf'}]})
      ops.append({'form': 'set_key', 'current': True, 'items': [
          {'steps': p, 'value': node, 'cls': 'current'}]})
      if (isinstance(node, np.ndarray) and node.ndim == 1 and node.shape[0]
          and node.dtype.kind in 'if'):
        j = g.rng.randrange(node.shape[0])
        v = g.uid() if node.dtype.kind == 'i' else g.uid() + 0.5
        ops.append({'form': 'set_key', 'items': [
            {'steps': p + (('i', j),), 'value': v, 'cls': 'arrelem'}]})
    for p, c in m.containers(data):
      if type(c) is dict:
        free = [k for k in NEWKEYS if k not in c]
        ops.append({'form': 'set_key', 'items': [
            {'steps': p + (('k', free[0]),), 'value': g.leaf(), 'cls': 'newkey'}]})
        ops.append({'form': 'set_key', 'items': [
            {'steps': p + (('k', free[1]), ('i', 0), ('k', 'n1')), 'value': g.leaf(),
             'cls': 'nested'}]})
      elif type(c) is list:
        ops.append({'form': 'set_key', 'items': [
            {'steps': p + (('i', len(c)),), 'value': g.leaf(), 'cls': 'append'}]})
        ops.append({'form': 'set_key', 'items': [
            {'steps': p + (('i', len(c)), ('k', 'n1'), ('i', 0)), 'value': g.leaf(),
             'cls': 'append_nested'}]})
    only_tree = m.Originals()
    only_tree.add('initial tree', data)
    for op in ops:
      op = _finish(g, data, op)
      if op is None:
        continue
      self.ctx.count('allpaths_ops')
      keep = len(self.descs)
      if self.step(view, data, op, only_tree, 'allpaths', register=False) is None:
        return False
      del self.descs[keep:]
    return self.check_originals(originals, 'allpaths')


class Tag:
  """What the leaf function returns: neither a Mapping nor a Sequence."""
  __slots__ = ('orig',)

  def __init__(self, orig):
    self.orig = orig

  def __repr__(self):
    return f'Tag({m.short(self.orig, 30)})'


def _mapped_same(res, data, path):
  if m.is_branch(data):
    if type(res) is not type(data):
      return path, f'container type {type(res).__name__} != {type(data).__name__}'
    if len(res) != len(data):
      return path, f'length {len(res)} != {len(data)}'
    if type(data) is dict and set(res.keys()) != set(data.keys()):
      return path, 'keys differ'
    for step, child in m.children(data):
      r = _mapped_same(res[step[1]], child, path + (step,))
      if r:
        return r
    return None
  if not path:
    # Root without leaves: an equal empty container.
    if type(res) is type(data) and len(res) == 0:
      return None
    return path, f'empty root became {m.short(res)}'
  if type(res) is Tag and res.orig is data:
    return None
  return path, f'leaf {m.short(data)} mapped to {m.short(res)}'


def _self():
  from ml_metrics._src.chainables import tree as tl
  return tl.Key.SELF


def _is_array(x):
  import numpy as np
  return isinstance(x, np.ndarray)


# ---------------------------------------------------------------------------
# One case
# ---------------------------------------------------------------------------


def run_one(ctx, rseed, index, prof_name, kind=None):
  from ml_metrics._src.chainables import tree as tl
  prof = PROFILES[prof_name]
  rng = random.Random(rseed * 1000003 + index * 7919 + (211 if kind else 31))
  g = Gen(rng, prof)
  depth = rng.choice([1, 2, 2, 3, 3, 4, 4])
  # kind 'seqleaf': the INITIAL tree may hold bytes / bytearray / range / deque
  # leaves; supplied values and merged trees never do.
  g.seq_leaves = kind == 'seqleaf'
  tree0 = g.container(depth)
  g.seq_leaves = False
  nops = rng.randint(1, prof['max_ops'])
  # Pre-generate the whole sequence against the model.
  ops, cur = [], tree0
  for _ in range(nops):
    op = None
    for _try in range(5):
      op = gen_op(g, cur)
      if op is not None:
        break
    if op is None:
      continue
    ops.append(op)
    cur = op['model']
  do_allpaths = rng.random() < 0.5
  case = {'rseed': rseed, 'index': index, 'prof': prof_name}
  if kind:
    case['kind'] = kind
  run = Run(ctx, case)
  run.tree_repr = repr(tree0)
  nontrivial = m.depth(tree0) >= 2 and len(m.leaves(tree0)) >= 2
  originals = m.Originals()
  originals.add('initial tree', tree0)
  view = tl.TreeMapView(tree0) if rng.random() < 0.5 else tl.TreeMapView.as_view(tree0)
  ok = True
  data = tree0
  ok = ok and run.check_iteration(tree0)
  ok = ok and run.check_multiget(g, tree0)
  ok = ok and run.check_apply(g, tree0, originals)
  if ok:
    for j, op in enumerate(ops):
      new_view = run.step(view, data, op, originals, f'op {j}')
      if new_view is None:
        ok = False
        break
      view, data = new_view, new_view.data
  if ok and ops:
    ok = (run.check_iteration(data) and run.check_multiget(g, data)
          and run.check_apply(g, data, originals))
  if ok:
    ok = run.check_error_ops(g, data, originals)
  if ok and do_allpaths:
    ok = run.allpaths(g, tree0, originals)
  if ok:
    run.check_originals(originals, 'end')
  ctx.case((run.tree_repr, tuple(run.descs)), nontrivial)
  if len(ctx.samples) < 2 and nontrivial:
    ctx.sample({'case': case, 'tree': run.tree_repr[:300], 'ops': run.descs[:6]})


# ---------------------------------------------------------------------------
# Leaf roots (read-only laws on a tree that is a single leaf)
# ---------------------------------------------------------------------------

MECH_ROOT_FALSY = 'root-leaf-falsy-not-listed'
MECH_ROOT_AMBIGUOUS = 'root-leaf-ndarray-truth-test'


def _err(e):
  return f'{type(e).__name__}: {e}'[:200]


def run_leaf_root(ctx, rseed, index, prof_name):
  """The tree is one leaf: it must be listed once, read back, and be mapped."""
  from ml_metrics._src.chainables import tree as tl
  rng = random.Random(rseed * 1000003 + index * 7919 + 101)
  g = Gen(rng, PROFILES[prof_name])
  root, gcls = g.leaf_root()
  literal = g.scalar()
  use_as_view = rng.random() < 0.5
  tclass = m.truth_class(root)      # input class: truthy / falsy / ambiguous
  case = {'rseed': rseed, 'index': index, 'prof': prof_name, 'kind': 'leafroot'}
  run = Run(ctx, case)
  run.tree_repr = f'{type(root).__name__}: {root!r}'
  originals = m.Originals()
  originals.add('root', root)
  ctx.count('leaf_root_checks')
  ctx.count(f'leaf_root_{tclass}_checks')
  if _is_array(root):
    ctx.count('leaf_root_array_checks')
  # symptom name -> (detail, matches the audited pattern of the input class)
  symptoms = {}

  # (1) iteration: exactly one path, and it reads back the root.
  view = tl.TreeMapView.as_view(root) if use_as_view else tl.TreeMapView(root)
  try:
    keys = list(view)
    keys2, values, items, n = view.keys(), view.values(), list(view.items()), len(view)
    listed = True
  except Exception as e:  # pylint: disable=broad-exception-caught
    listed = False
    audited = (tclass == 'ambiguous' and isinstance(e, ValueError)
               and 'truth value' in str(e))
    symptoms['iteration_raised'] = ({'error': _err(e)}, audited)
  if listed:
    try:
      ok = (len(keys) == 1 and n == 1 and list(keys2) == keys and len(values) == 1
            and len(items) == 1 and values[0] is root and items[0][1] is root
            and items[0][0] == keys[0] and view[keys[0]] is root)
    except Exception as e:  # pylint: disable=broad-exception-caught
      ok = False
    if not ok:
      nothing = (keys == [] and n == 0 and len(keys2) == 0 and len(values) == 0
                 and items == [])
      symptoms['root_not_listed' if nothing else 'iteration'] = (
          {'keys': [repr(k) for k in keys][:5], 'len': n,
           'values': m.short(values), 'want': 'one path that reads back the root'},
          nothing and tclass == 'falsy')

  # (2) multi-key reads of the whole tree.
  ctx.count('multiget_checks')
  ctx.count('literal_reads')
  try:
    got = view[(_self(), tl.Key(), tl.Key.Literal(literal))]
    ok = (type(got) is tuple and len(got) == 3 and got[0] is root and got[1] is root
          and got[2] is literal and view[_self()] is root and view[tl.Key()] is root)
  except Exception as e:  # pylint: disable=broad-exception-caught
    got, ok = _err(e), False
  if not ok:
    symptoms['multiget'] = ({'got': m.short(got, 200)}, False)

  # (3) apply maps the root, and only the root.
  ctx.count('apply_checks')
  calls = []

  def fn(x):
    calls.append(x)
    return Tag(x)

  try:
    mview = (tl.TreeMapView.as_view(root, map_fn=fn) if use_as_view
             else tl.TreeMapView(root, map_fn=fn))
    res = mview.apply()
    applied = True
  except Exception as e:  # pylint: disable=broad-exception-caught
    applied = False
    audited = (tclass == 'ambiguous' and isinstance(e, ValueError)
               and 'truth value' in str(e))
    symptoms['apply_raised'] = ({'error': _err(e)}, audited)
  if applied:
    if not (type(res) is Tag and res.orig is root):
      # Unmapped: the root itself, or the shallow copy apply() makes of an ndarray.
      unmapped = not calls and (res is root or m.array_same(res, root))
      symptoms['root_not_mapped' if unmapped else 'apply_result'] = (
          {'got': m.short(res), 'want': 'fn(root)', 'fn_calls': len(calls)},
          unmapped and tclass == 'falsy')
    elif any(x is not root for x in calls):
      symptoms['apply_non_leaf'] = (
          {'fn_called_on': [m.short(x) for x in calls if x is not root][:3]}, False)

  # (4) the root object itself is untouched.
  ctx.count('original_snapshot_checks', len(originals))
  if originals.changed():
    symptoms['original_mutated'] = ({'changed': originals.changed()}, False)

  if symptoms:
    foreign = [k for k, (_, audited) in symptoms.items() if not audited]
    if foreign:
      mech = f'leaf-root:{tclass}:{foreign[0]}'
    else:
      mech = MECH_ROOT_FALSY if tclass == 'falsy' else MECH_ROOT_AMBIGUOUS
    run.violation('leaf_root', {'root_class': f'{gcls}/{tclass}',
                                'symptoms': {k: d for k, (d, _) in symptoms.items()}},
                  mech)
  ctx.case(('leafroot', run.tree_repr), tclass != 'truthy')
  if tclass != 'truthy' and rng.random() < 0.02:
    ctx.sample({'case': case, 'tree': run.tree_repr[:200]})


# ---------------------------------------------------------------------------
# Views with user key_paths (over trees with None leaves)
# ---------------------------------------------------------------------------

MECH_KEYPATHS_NONE = 'key-paths-view-drops-none-values'


def _check_keypath_listing(view, keys, visible):
  """Compares keys()/values()/items()/len/multi-key read with `visible`.

  Returns None, or (symptom, detail, dropped_none): dropped_none is True when the
  view lists exactly the key paths whose visible value is not None, values and
  items aligned with that shorter list.
  """
  try:
    got_keys = list(view)
    keys2, values, items, n = view.keys(), view.values(), list(view.items()), len(view)
    multi = view[tuple(keys)]
  except Exception as e:  # pylint: disable=broad-exception-caught
    return 'listing_raised', {'error': _err(e)}, False

  def aligned(ks, vs):
    return (len(got_keys) == len(ks) == n == len(keys2) == len(values) == len(items)
            and all(a is b for a, b in zip(got_keys, ks))
            and all(a is b for a, b in zip(keys2, ks))
            and all(a is b for a, b in zip(values, vs))
            and all(i[0] is k and i[1] is v for i, k, v in zip(items, ks, vs)))

  multi_ok = (type(multi) is tuple and len(multi) == len(keys)
              and all(a is b for a, b in zip(multi, visible)))
  if aligned(keys, visible) and multi_ok:
    return None
  detail = {'key_paths': [repr(k) for k in keys], 'keys()': [repr(k) for k in got_keys],
            'values()': m.short(values, 200), 'want_values': m.short(tuple(visible), 200),
            'len': n, 'view[key_paths]': m.short(multi, 200)}
  if not multi_ok:
    return 'multi_key_read', detail, False
  kept = [i for i, v in enumerate(visible) if v is not None]
  dropped = (len(kept) < len(keys)
             and aligned([keys[i] for i in kept], [visible[i] for i in kept]))
  return ('none_valued_key_not_listed' if dropped else 'listing'), detail, dropped


def run_keypaths(ctx, rseed, index, prof_name):
  """TreeMapView(tree, key_paths=<existing paths>) : listing, reads and apply."""
  from ml_metrics._src.chainables import tree as tl
  prof = PROFILES[prof_name]
  rng = random.Random(rseed * 1000003 + index * 7919 + 307)
  g = Gen(rng, prof)
  g.none_boost = True
  tree0 = g.container(rng.choice([1, 1, 2, 2, 3]))
  case = {'rseed': rseed, 'index': index, 'prof': prof_name, 'kind': 'keypaths'}
  run = Run(ctx, case)
  run.tree_repr = repr(tree0)
  leaves = m.leaves(tree0)
  if not leaves:
    ctx.case(('keypaths', run.tree_repr), False)
    return
  with_nodes = rng.random() < 0.2
  pool = m.nodes(tree0) if with_nodes else leaves
  chosen = rng.sample(pool, rng.randint(1, min(len(pool), 6)))
  nones = [pv for pv in pool if pv[1] is None and all(pv[0] != c[0] for c in chosen)]
  if nones and rng.random() < 0.5:
    chosen[rng.randrange(len(chosen))] = rng.choice(nones)
  keys = [lib_key_or_scalar(p, rng.random() < 0.5) for p, _ in chosen]
  wants = [node for _, node in chosen]
  mode = rng.choice(['tag', 'some_none', 'some_none'])
  to_none = set()
  if mode == 'some_none':
    to_none = {id(v) for v in rng.sample(wants, rng.randint(1, len(wants)))}
  use_as_view = rng.random() < 0.5
  run.descs.append(f'key_paths={tuple(keys)!r} map_fn:{mode}')
  originals = m.Originals()
  originals.add('initial tree', tree0)

  memo, calls = {}, []

  def fn(x):
    calls.append(x)
    if id(x) in to_none:
      return None
    if id(x) not in memo:
      memo[id(x)] = (x, Tag(x))
    return memo[id(x)][1]

  def mapped(x):
    return None if id(x) in to_none else memo.setdefault(id(x), (x, Tag(x)))[1]

  ctx.count('key_paths_checks')
  if any(w is None for w in wants):
    ctx.count('key_paths_none_value_checks')
  mwants = [mapped(w) for w in wants]
  if any(w is None for w in mwants):
    ctx.count('key_paths_none_mapped_checks')
  symptoms = []   # (name, detail, attributable to dropped None values)

  def make(map_fn=None):
    if use_as_view:
      return tl.TreeMapView.as_view(tree0, key_paths=tuple(keys), map_fn=map_fn)
    return tl.TreeMapView(tree0, tuple(keys), map_fn=map_fn)

  # (1) plain view: keys()/values()/items()/len aligned with key_paths.
  ctx.count('iter_checks')
  ctx.count('multiget_checks')
  r = _check_keypath_listing(make(), keys, wants)
  if r:
    symptoms.append(('plain_view:' + r[0], r[1], r[2]))
  # (2) the same through a leaf function.
  ctx.count('iter_checks')
  r = _check_keypath_listing(make(fn), keys, mwants)
  if r:
    symptoms.append(('mapped_view:' + r[0], r[1], r[2]))

  # (3) apply: exactly the key paths are mapped, everything else is shared.
  if not with_nodes:
    ctx.count('apply_checks')
    del calls[:]
    expected = dropped_expected = tree0
    for (p, leaf), mv in zip(chosen, mwants):
      expected = m.m_set(expected, p, mv, [])
      if mv is not None:
        dropped_expected = m.m_set(dropped_expected, p, mv, [])
    try:
      res = make(fn).apply()
      diff = m.same(res, expected, set())
      if diff:
        dropped = (any(v is None for v in mwants)
                   and m.same(res, dropped_expected, set()) is None)
        symptoms.append(('apply:none_mapped_key_not_set' if dropped else 'apply:result',
                         {'at': list(diff[0]), 'reason': diff[1],
                          'got': m.short(res, 300), 'want': m.short(expected, 300)},
                         dropped))
      else:
        chosen_ids = {id(w) for w in wants}
        stray = [m.short(x) for x in calls if id(x) not in chosen_ids]
        if stray:
          symptoms.append(('apply:fn_called_off_key_paths', {'on': stray[:3]}, False))
      # No map_fn: apply() of a key_paths view reproduces the tree.
      res2 = make().apply()
      diff = m.same(res2, tree0, set())
      if diff:
        symptoms.append(('apply_without_fn:result',
                         {'at': list(diff[0]), 'reason': diff[1]}, False))
    except Exception as e:  # pylint: disable=broad-exception-caught
      symptoms.append(('apply:raised', {'error': _err(e)}, False))
  ctx.count('original_snapshot_checks', len(originals))
  if originals.changed():
    symptoms.append(('original_mutated', {}, False))

  if symptoms:
    foreign = [s for s in symptoms if not s[2]]
    mech = ('keypaths:' + foreign[0][0]) if foreign else MECH_KEYPATHS_NONE
    run.violation('key_paths_view', {'symptoms': {s[0]: s[1] for s in symptoms}}, mech)
  nontrivial = len(chosen) >= 2
  ctx.case(('keypaths', run.tree_repr, tuple(run.descs)), nontrivial)
  if nontrivial and rng.random() < 0.005:
    ctx.sample({'case': case, 'tree': run.tree_repr[:300], 'ops': run.descs[:2]})


# ---------------------------------------------------------------------------
# Views with a leaf function (total / partial), with and without key_paths
# ---------------------------------------------------------------------------

MECH_KEYPATHS_FN_ERROR = 'key-paths-view-takes-leaf-function-error-for-absent-key'
_MAPFN_EXC = {'KeyError': KeyError, 'IndexError': IndexError, 'ValueError': ValueError}


def _chain_has(e, raised):
  """True when one of the exception objects in `raised` is `e` or in its cause chain."""
  seen = 0
  while e is not None and seen < 8:
    if any(e is r for r in raised):
      return True
    e, seen = (e.__cause__ or e.__context__), seen + 1
  return False


def run_mapfn(ctx, rseed, index, prof_name):
  """TreeMapView(tree[, key_paths], map_fn=f), f total or raising on some leaves.

  Input class: (key_paths given?, f total | f raises KeyError / IndexError /
  ValueError for a non-empty subset of the viewed leaves). Oracle:
   * the listing (iter / keys() / len) is the one of the same view WITHOUT a leaf
     function (key_paths: the given existing paths in order), or it raises the very
     exception the leaf function raised; it never depends on f otherwise;
   * view[k] returns f(leaf), or raises the exception f raised for that leaf;
   * values() / items() / view[all keys] / apply(): f total - aligned with the keys,
     apply() equals the model; some viewed leaf makes f raise - the call raises that
     exception (possibly wrapped, it is in the cause chain), never returns.
  """
  from ml_metrics._src.chainables import tree as tl
  prof = PROFILES[prof_name]
  rng = random.Random(rseed * 1000003 + index * 7919 + 521)
  g = Gen(rng, prof)
  tree0 = g.container(rng.choice([1, 1, 2, 2, 3]))
  case = {'rseed': rseed, 'index': index, 'prof': prof_name, 'kind': 'mapfn'}
  run = Run(ctx, case)
  run.tree_repr = repr(tree0)
  leaves = m.leaves(tree0)
  if not leaves:
    ctx.case(('mapfn', run.tree_repr), False)
    return
  with_kp = rng.random() < 0.6
  if with_kp:
    chosen = rng.sample(leaves, rng.randint(1, min(len(leaves), 6)))
    keys = [lib_key_or_scalar(p, rng.random() < 0.5) for p, _ in chosen]
  else:
    # All leaves, in the order the view without a leaf function lists them.
    chosen = list(leaves)
    try:
      twin = list(tl.TreeMapView(tree0))
      bykey = {lib_key(p): (p, leaf) for p, leaf in leaves}
      if len(twin) == len(bykey) and set(twin) == set(bykey):
        chosen = [bykey[k] for k in twin]
    except Exception:  # pylint: disable=broad-exception-caught
      pass
    keys = [lib_key(p) for p, _ in chosen]
  wants = [leaf for _, leaf in chosen]
  exc_name = rng.choice(['total', 'KeyError', 'KeyError', 'IndexError', 'IndexError',
                         'ValueError'])
  to_raise = set()
  if exc_name != 'total':
    to_raise = {id(v) for v in rng.sample(wants, rng.randint(1, max(1, len(wants) // 2)))}
  use_as_view = rng.random() < 0.5
  form = 'key_paths' if with_kp else 'all_leaves'
  run.descs.append(f'{form}={tuple(keys)!r} map_fn:{exc_name} '
                   f'raising={[m.short(w, 30) for w in wants if id(w) in to_raise]}')
  originals = m.Originals()
  originals.add('initial tree', tree0)
  memo, raised = {}, []

  def fn(x):
    if id(x) in to_raise:
      e = _MAPFN_EXC[exc_name](f'leaf function has no value for {m.short(x, 30)}')
      raised.append(e)
      raise e
    if id(x) not in memo:
      memo[id(x)] = (x, Tag(x))
    return memo[id(x)][1]

  def make(map_fn=None):
    kp = tuple(keys) if with_kp else None
    if use_as_view:
      return tl.TreeMapView.as_view(tree0, key_paths=kp, map_fn=map_fn)
    return tl.TreeMapView(tree0, kp, map_fn=map_fn)

  bad = [id(w) in to_raise for w in wants]
  any_bad = any(bad)
  in_class = with_kp and any_bad and exc_name in ('KeyError', 'IndexError')
  ctx.count('mapfn_checks')
  ctx.count('mapfn_total_fn_checks' if not any_bad else 'mapfn_partial_fn_checks')
  if any_bad:
    ctx.count(f'mapfn_{form}_partial_checks')
    ctx.count(f'mapfn_raises_{exc_name}_checks')
  if in_class:
    ctx.count('mapfn_key_paths_lookup_error_checks')
  symptoms = []   # (name, detail, explained by the audited input class)
  short_keys = [k for k, b in zip(keys, bad) if not b]
  short_vals = [memo.setdefault(id(w), (w, Tag(w)))[1] for w, b in zip(wants, bad)
                if not b]

  def attempt(name, call):
    """-> ('ok', value) | ('fn_error', None) | None after recording a foreign raise."""
    try:
      return 'ok', call()
    except Exception as e:  # pylint: disable=broad-exception-caught
      if _chain_has(e, raised):
        return 'fn_error', None
      symptoms.append((name + ':foreign_error', {'error': _err(e)}, False))
      return None

  view = make(fn)
  # (1) listing does not depend on the leaf function.
  ctx.count('iter_checks')
  if with_kp:
    want_keys = keys
    same_key = lambda a, b: a is b
  else:
    want_keys = list(make())   # the twin: the same view without a leaf function
    same_key = lambda a, b: type(a) is type(b) and a == b
    if len(want_keys) != len(leaves):
      symptoms.append(('plain_listing_count', {'got': len(want_keys),
                                               'want': len(leaves)}, False))
  for name, call in (('iter', lambda: list(view)), ('keys()', lambda: list(view.keys())),
                     ('len', lambda: len(view))):
    r = attempt(name, call)
    if not r:
      continue
    if r[0] == 'fn_error':
      ctx.count('mapfn_listing_raised_fn_error')
      continue
    got = r[1]
    if name == 'len':
      if got == len(want_keys):
        continue
      symptoms.append(('len:depends_on_leaf_function',
                       {'got': got, 'want': len(want_keys)},
                       in_class and got == len(short_keys)))
      continue
    if len(got) == len(want_keys) and all(same_key(a, b) for a, b in zip(got, want_keys)):
      continue
    dropped = (in_class and len(got) == len(short_keys)
               and all(a is b for a, b in zip(got, short_keys)))
    symptoms.append((name + (':key_of_raising_leaf_not_listed' if dropped
                             else ':depends_on_leaf_function'),
                     {'got': [repr(k) for k in got][:8],
                      'want': [repr(k) for k in want_keys][:8]}, dropped))

  # (2) single reads: f(leaf), or the error of f.
  for k, w, b in zip(keys, wants, bad):
    ctx.count('mapfn_read_checks')
    r = attempt('read', lambda k=k: view[k])
    if not r:
      break
    if b and r[0] == 'ok':
      symptoms.append(('read:returned_despite_leaf_function_error',
                       {'key': repr(k), 'got': m.short(r[1])}, False))
      break
    if not b and (r[0] != 'ok' or r[1] is not memo[id(w)][1]):
      symptoms.append(('read:value', {'key': repr(k), 'got': m.short(r[1]),
                                      'state': r[0]}, False))
      break

  # (3) values() / items() / multi-key read / apply().
  if with_kp:
    expected = short_expected = tree0
    for (p, leaf), b in zip(chosen, bad):
      if not b:
        expected = short_expected = m.m_set(short_expected, p, memo[id(leaf)][1], [])
  ctx.count('multiget_checks')
  ctx.count('apply_checks')
  for name, call in (('values()', lambda: list(view.values())),
                     ('items()', lambda: list(view.items())),
                     ('multi_key_read', lambda: view[tuple(keys)]),
                     ('apply()', lambda: view.apply())):
    r = attempt(name, call)
    if not r:
      continue
    if any_bad:
      ctx.count('mapfn_error_propagation_checks')
      if r[0] == 'fn_error':
        continue
      got = r[1]
      # Returned although f raised for a viewed leaf. Explained by the audited class
      # when the result is exactly what the view of the remaining keys gives.
      if name == 'values()':
        expl = len(got) == len(short_vals) and all(a is b for a, b in zip(got, short_vals))
      elif name == 'items()':
        expl = (len(got) == len(short_keys)
                and all(type(i) is tuple and len(i) == 2 and i[0] is k and i[1] is v
                        for i, k, v in zip(got, short_keys, short_vals)))
      elif name == 'apply()':
        expl = with_kp and m.same(got, short_expected, set()) is None
      else:
        expl = False
      symptoms.append((name + (':leaf_silently_unmapped' if name == 'apply()'
                               else ':returned_despite_leaf_function_error'),
                       {'got': m.short(got, 300)}, in_class and expl))
      continue
    if r[0] != 'ok':
      symptoms.append((name + ':raised_unraised_fn_error', {}, False))
      continue
    got = r[1]
    mvals = [memo[id(w)][1] for w in wants]
    if name == 'apply()':
      diff = (m.same(got, expected, set()) if with_kp
              else _mapped_same(got, tree0, ()))
      if diff:
        symptoms.append(('apply():result', {'at': list(diff[0]), 'reason': diff[1],
                                            'got': m.short(got, 300)}, False))
    elif name == 'items()':
      if not (len(got) == len(want_keys)
              and all(type(i) is tuple and len(i) == 2 and same_key(i[0], k) and i[1] is v
                      for i, k, v in zip(got, want_keys, mvals))):
        symptoms.append(('items():misaligned', {'got': m.short(got, 300)}, False))
    else:
      if not (len(got) == len(mvals) and all(a is b for a, b in zip(got, mvals))
              and (name != 'multi_key_read' or type(got) is tuple)):
        symptoms.append((name + ':misaligned', {'got': m.short(got, 300)}, False))
  ctx.count('original_snapshot_checks', len(originals))
  if originals.changed():
    symptoms.append(('original_mutated', {}, False))

  if symptoms:
    foreign = [s for s in symptoms if not s[2]]
    mech = (f'mapfn:{form}:{exc_name}:{foreign[0][0]}' if foreign
            else MECH_KEYPATHS_FN_ERROR)
    run.violation('leaf_function_view', {'symptoms': {s[0]: s[1] for s in symptoms}}, mech)
  nontrivial = len(chosen) >= 2 and any_bad
  ctx.case(('mapfn', run.tree_repr, tuple(run.descs)), nontrivial)
  if nontrivial and rng.random() < 0.005:
    ctx.sample({'case': case, 'tree': run.tree_repr[:300], 'ops': run.descs[:2]})


# ---------------------------------------------------------------------------
# In-place sets: view[k] = v, view.set(k, v[, in_place=True]) - get-after-set only
# ---------------------------------------------------------------------------

MECH_INPLACE_ROOT = 'in-place-set-of-root-discarded'
INPLACE_CLASSES = ['leaf', 'leaf', 'node', 'newkey', 'newkey', 'append', 'append']


def _fresh_root_item(g):
  """First set on an EMPTY view: the path creates the root."""
  rng = g.rng
  head = ('i', 0) if rng.random() < 0.3 else ('k', rng.choice(NEWKEYS + KEYS))
  tail = g.nest_tail()
  return {'steps': (head,) + tail, 'value': g.value(),
          'cls': 'empty_nested' if tail else 'empty_newkey'}


def gen_inplace_op(g, cur):
  """One in-place operation against model state `cur` (m.MISSING = empty view)."""
  rng = g.rng
  if rng.random() < (0.15 if cur is m.MISSING else 0.12):
    it = {'steps': (), 'value': g.container_value(), 'cls': 'root'}
    return {'keyform': rng.choice(['self', 'self_multi', 'root']), 'items': [it]}
  want = 1 if rng.random() < 0.6 else rng.randint(2, 3)
  items, model = [], cur
  for _ in range(want * 4):
    if len(items) >= want:
      break
    it = (_fresh_root_item(g) if model is m.MISSING
          else g.any_item(model, INPLACE_CLASSES))
    if it['cls'] == 'root' or any(m.related(it['steps'], o['steps']) for o in items):
      continue
    try:
      model = m.m_set(model, it['steps'], it['value'], [])
    except m.Undefined:
      continue
    items.append(it)
  if not items:
    return None
  if len(items) > 1:
    keyform = 'multi'
  else:
    keyform = rng.choice(['key', 'key', 'scalar', 'multi1'])
    if keyform == 'scalar' and len(items[0]['steps']) != 1:
      keyform = 'key'
  return {'keyform': keyform, 'items': items}


def call_inplace(view, op):
  """Performs the in-place `op`; returns (view to read from, description)."""
  from ml_metrics._src.chainables import tree as tl
  K = tl.Key
  items, keyform, api = op['items'], op['keyform'], op['api']
  vs = [it['value'] for it in items]
  if keyform == 'key':
    keys, values = lib_key(items[0]['steps']), vs[0]
  elif keyform == 'scalar':
    keys, values = lib_key(items[0]['steps'])[0], vs[0]
  elif keyform == 'multi1':
    v = vs[0]
    bare_ok = type(v) is not tuple or len(v) >= 2
    keys = (lib_key_or_scalar(items[0]['steps'], op['key_scalar'][0]),)
    values = v if (bare_ok and not op['wrap']) else (v,)
  elif keyform == 'multi':
    keys = tuple(lib_key_or_scalar(it['steps'], sc)
                 for it, sc in zip(items, op['key_scalar']))
    values = tuple(vs)
  elif keyform == 'self':
    keys, values = K.SELF, vs[0]
  elif keyform == 'self_multi':
    keys, values = (K.SELF,), (vs[0],)
  elif keyform == 'root':
    keys, values = K(), vs[0]
  else:
    raise ValueError(keyform)
  if api == 'setitem':
    view[keys] = values
    return view, f'view[{keys!r}] = {m.short(values, 120)}'
  if api == 'set':
    return view.set(keys, values), f'view.set({keys!r}, {m.short(values, 120)})'
  return (view.set(keys, values, in_place=True),
          f'view.set({keys!r}, {m.short(values, 120)}, in_place=True)')


def run_inplace(ctx, rseed, index, prof_name):
  """A sequence of in-place sets on one view; only get-after-set is demanded.

  Roots: the empty TreeMapView() (NullMap placeholder), {} / [], or a dict / list
  tree. After every operation each set path must read back the very value that was
  set, from the view itself (view[k] = v) or from the view set() returned. What
  else the operation mutated is not judged.
  Input class of MECH_INPLACE_ROOT: the operation must CREATE the root (empty view)
  or REPLACE it (SELF / (SELF,) / Key()); symptom: the view still holds the root
  object it held before and the set path does not read back.
  """
  from ml_metrics._src.chainables import tree as tl
  prof = PROFILES[prof_name]
  rng = random.Random(rseed * 1000003 + index * 7919 + 409)
  g = Gen(rng, prof)
  g.mutable_only = True
  r = rng.random()
  if r < 0.3:
    root_kind, tree0 = 'empty_view', m.MISSING
  elif r < 0.4:
    root_kind, tree0 = 'empty_dict', {}
  elif r < 0.5:
    root_kind, tree0 = 'empty_list', []
  else:
    root_kind = 'tree'
    tree0 = g.container(rng.choice([1, 2, 2, 3]), kinds=('dict', 'dict', 'list'))
  nops = rng.randint(1, 4)
  ops, cur = [], tree0
  for _ in range(nops):
    op = None
    for _try in range(5):
      op = gen_inplace_op(g, cur)
      if op is not None:
        break
    if op is None:
      continue
    op['api'] = rng.choice(['setitem', 'setitem', 'set', 'set_inplace'])
    op['key_scalar'] = [rng.random() < 0.5 for _ in op['items']]
    op['wrap'] = rng.random() < 0.5
    op['root_missing'] = cur is m.MISSING
    for it in op['items']:
      cur = m.m_set(cur, it['steps'], it['value'], [])
    ops.append(op)
  case = {'rseed': rseed, 'index': index, 'prof': prof_name, 'kind': 'inplace'}
  run = Run(ctx, case)
  run.tree_repr = 'TreeMapView()' if tree0 is m.MISSING else repr(tree0)
  if tree0 is m.MISSING:
    view = tl.TreeMapView()
  else:
    view = tl.TreeMapView(tree0) if rng.random() < 0.5 else tl.TreeMapView.as_view(tree0)
  for op in ops:
    cls = op['items'][0]['cls']
    label = f'{op["api"]}:{op["keyform"]}:{cls}'
    root_op = op['root_missing'] or any(not it['steps'] for it in op['items'])
    ctx.count('inplace_set_ops')
    ctx.count(f'inplace_api_{op["api"]}_ops')
    if op['root_missing']:
      ctx.count('inplace_empty_view_ops')
    if cls == 'root':
      ctx.count('inplace_root_replace_ops')
    if len(op['items']) > 1:
      ctx.count('inplace_multikey_ops')
    if not root_op:
      ctx.count('inplace_below_root_ops')
    data_before = view.data
    try:
      target, desc = call_inplace(view, op)
    except Exception as e:  # pylint: disable=broad-exception-caught
      run.descs.append(f'{label} {[it["steps"] for it in op["items"]]}')
      run.violation('in_place_set', {'symptom': 'raised', 'error': _err(e)},
                    'in-place-set:raised:' + label)
      break
    run.descs.append(desc)
    bad = None
    for it in op['items']:
      ctx.count('inplace_get_after_set_checks')
      try:
        if not it['steps']:
          got = target[_self()]
          ok = got is it['value'] and target[tl.Key()] is it['value']
        else:
          got = target[lib_key(it['steps'])]
          ok = got is it['value']
      except Exception as e:  # pylint: disable=broad-exception-caught
        got, ok = _err(e), False
      if not ok:
        bad = {'path': [list(st) for st in it['steps']], 'got': m.short(got),
               'want': m.short(it['value'])}
        break
    if bad:
      discarded = root_op and target.data is data_before
      bad.update(symptom='root_discarded' if discarded else 'get_after_set',
                 root=root_kind if op['root_missing'] else 'replaced',
                 view_data_after=m.short(target.data, 200),
                 read_from='view' if op['api'] == 'setitem' else 'returned view')
      run.violation('in_place_set', bad,
                    MECH_INPLACE_ROOT if discarded else 'in-place-set:get_after_set:' + label)
      break
    if target is not view:
      ctx.observe('in_place_set_returned_another_view', label)
    view = target
  nontrivial = any(op['root_missing'] or op['items'][0]['cls'] == 'root' for op in ops)
  ctx.case(('inplace', run.tree_repr, tuple(run.descs)), nontrivial)
  if nontrivial and rng.random() < 0.005:
    ctx.sample({'case': case, 'tree': run.tree_repr[:300], 'ops': run.descs[:4]})


# ---------------------------------------------------------------------------
# Plan / entry points
# ---------------------------------------------------------------------------


# (kind, chunks, cases per chunk) of the widened input classes, per tier.
EXTRA = {
    'quick': [('leafroot', 2, 600), ('seqleaf', 6, 200), ('keypaths', 6, 400),
              ('inplace', 4, 1500), ('mapfn', 4, 400)],
    'thorough': [('leafroot', 4, 5000), ('seqleaf', 16, 3000), ('keypaths', 16, 5000),
                 ('inplace', 8, 20000), ('mapfn', 16, 4000)],
}


def plan(tier, seed):
  if tier == 'quick':
    chunks, per = 32, 500
  else:
    chunks, per = 96, 5000
  specs = [{'rseed': seed, 'start': i * per, 'count': per, 'prof': tier}
           for i in range(chunks)]
  extra = []
  for kind, n, cnt in EXTRA[tier]:
    extra += [(i, {'rseed': seed, 'start': i * cnt, 'count': cnt, 'prof': tier,
                   'kind': kind}) for i in range(n)]
  # Interleaved by kind so the first witnesses of a run cover every kind.
  extra.sort(key=lambda x: x[0])
  return [e for _, e in extra] + specs


def run_case(ctx, case):
  kind = case.get('kind')
  if kind == 'leafroot':
    run_leaf_root(ctx, case['rseed'], case['index'], case['prof'])
  elif kind == 'keypaths':
    run_keypaths(ctx, case['rseed'], case['index'], case['prof'])
  elif kind == 'inplace':
    run_inplace(ctx, case['rseed'], case['index'], case['prof'])
  elif kind == 'mapfn':
    run_mapfn(ctx, case['rseed'], case['index'], case['prof'])
  else:
    run_one(ctx, case['rseed'], case['index'], case['prof'], kind)


def run_chunk(ctx, spec):
  for index in range(spec['start'], spec['start'] + spec['count']):
    run_case(ctx, {'rseed': spec['rseed'], 'index': index, 'prof': spec['prof'],
                   'kind': spec.get('kind')})
