"""C18 - Tree views obey get/set laws and never mutate the viewed data.

Code under test: `ml_metrics._src.chainables.tree` (`TreeMapView`, `Key`, `Index`,
`Literal`, SELF / SKIP, `copy_and_set`, `copy_and_update`, `|`, `apply`, iteration).

Oracle: `vlib/oracles/c18_model.py` - an independent persistent-update model, DFS leaf
enumeration, recursive map and deep snapshots with node identities. A case is fully
determined by (rseed, index, profile): the generator draws the tree and the whole
operation sequence from `random.Random(f(rseed, index))` against the *model* only (it
never looks at what the library returned), so replay is exact.
"""

from __future__ import annotations

import random

from vlib.oracles import c18_model as m

ID = 'C18'
LEVEL = 'exploration'
RULE = (
    'a case is (tree, operation sequence): a random tree of dict/list/tuple containers '
    '(depth <= 4, <= 4-5 children) with unique scalar / str / None / ndarray / empty '
    'container leaves, then 1-10 copying operations (copy_and_set with Key path, scalar '
    'key, 1-key tuple, multi-key tuple incl. SKIP; copy_and_update with dict / pair list '
    '/ view / items(); `|` with dict / view; SELF, Key() root replacement) on existing '
    'leaf paths, inner nodes, new dict keys, list appends, nested creation, ndarray '
    'elements and set-to-current; each step is compared with the model, read back, '
    'frame-checked on all unrelated leaves and followed by a snapshot check of every '
    'original (initial tree, every supplied value, every intermediate result); plus on '
    'the initial and final tree: leaf enumeration vs an independent DFS, multi-key '
    'reads (paths, scalar keys, SELF, Literal, Key()), map_fn + apply() vs a recursive '
    'map, one copying set per node / per container of the initial tree ("allpaths") and '
    'failing sets that must still not mutate. non-trivial = tree depth >= 2 and >= 2 '
    'leaves; distinct = hash of (tree repr, operation descriptions)')
ASSUMPTIONS = [
    'roots are plain dict / list / tuple containers (a scalar or ndarray root is not a '
    'nested mapping/sequence; a falsy scalar root lists no leaf and an ndarray root is '
    'truth-tested by the library)',
    'containers are exactly dict, list, tuple (no subclasses, namedtuples, '
    'MappingProxyType, bytes); dict keys are str or non-bool int; sequence positions are '
    'addressed with Index(i), dict keys with the plain key',
    'the library leaf definition is used: non-Mapping and non-Sequence (str, ndarray are '
    'leaves), empty dict/list/tuple are leaves when they have a parent path',
    'copying set is demanded only where documented/tested: replace an existing key or '
    'position (dict, list, tuple -> tuple), new dict key, list append at index == len, '
    'creation through missing keys (dict for a key, list for Index(0)), a 1-D int64 / '
    'float64 ndarray element set to a Python int / float of the same kind (read back by '
    'equality, the array copy is compared by bytes); NOT generated: negative indices, '
    'append to a tuple or ndarray, non-zero index into a missing position, paths below a '
    'scalar leaf, Index on a dict / key on a list, SELF or SKIP inside a longer path in a '
    'set, Literal in a set, a NullMap (default) root, strict=True, key_paths=',
    'within one multi-key operation no key path is a prefix of (or equal to) another; '
    'keys are applied in the given order (later keys may append after earlier ones, as in '
    'the upstream copy_and_update tests)',
    'multi-key copy_and_set values are exact tuples of len(keys); a 1-key tuple gets '
    'either a non-tuple value, a 1-tuple (value,), or a tuple of length >= 2 that is '
    'stored as the value itself (all three are upstream-tested conventions)',
    'SELF / Key() replace the root only with a container value',
    'in_place=True set() / __setitem__ are the mutating variants and are not checked',
    'operations outside the domain above are only required not to mutate any original; '
    'whether they raise is not judged, but one that is accepted must read back the value '
    'under the path it was given',
    'dict key order, container identity off the path and the iteration order are not '
    'judged; only leaf identity, container type, keys and lengths are',
]
REQUIRED = ['set_ops', 'model_checks', 'get_after_set_checks', 'frame_checks',
            'original_snapshot_checks', 'set_current_checks', 'iter_checks',
            'multiget_checks', 'apply_checks', 'fresh_path_ops', 'nested_creation_ops',
            'append_ops', 'skip_ops', 'self_ops', 'literal_reads', 'multikey_ops',
            'update_ops', 'or_ops', 'view_merge_ops', 'array_element_ops',
            'tuple_node_ops', 'error_nonmutation_checks', 'allpaths_ops', 'alias_ops',
            'aliased_tree_iter_checks']
EXHAUSTIVE = {'quick': False, 'thorough': False}

KEYS = ['a', 'b', 'c', 'd', 'e', 'f', 'model', 'pred', 0, 1, 2, 7, 'SELF', 'SKIP']
NEWKEYS = ['n1', 'n2', 'n3', 'n4', 'n5', 'n6', 11, 12, 13, 'SKIP', 'SELF']

PROFILES = {
    'quick': {'max_depth': 4, 'max_children': 4, 'max_ops': 10},
    'thorough': {'max_depth': 4, 'max_children': 5, 'max_ops': 10},
}


# ---------------------------------------------------------------------------
# Generator (draws from rng and the model only)
# ---------------------------------------------------------------------------


class Gen:

  def __init__(self, rng, prof):
    self.rng = rng
    self.prof = prof
    self.n = 1000
    self.alias_base = None

  def uid(self):
    self.n += 1
    return self.n

  def scalar(self):
    r, n = self.rng.random(), self.uid()
    if r < 0.5:
      return n
    if r < 0.65:
      return n + 0.5
    if r < 0.82:
      return 's%d' % n
    if r < 0.88:
      return None
    if r < 0.92:
      return self.rng.choice([0, '', 0.0, False])
    return n

  def array(self):
    import numpy as np
    r, n, ln = self.rng.random(), self.uid(), self.rng.randint(0, 4)
    if r < 0.55:
      return np.arange(n * 10, n * 10 + ln, dtype=np.int64)
    if r < 0.8:
      return np.arange(ln, dtype=np.float64) + n + 0.25
    if r < 0.9:
      return np.arange(n * 10, n * 10 + 2 * max(ln, 1), dtype=np.int64).reshape(-1, 2)
    return np.array(n)

  def leaf(self):
    r = self.rng.random()
    if r < 0.72:
      return self.scalar()
    if r < 0.9:
      return self.array()
    return self.rng.choice([dict, list, tuple])()

  def container(self, depth, kinds=('dict', 'dict', 'list', 'tuple')):
    rng = self.rng
    kind = rng.choice(kinds)
    nchild = rng.randint(1, self.prof['max_children'])
    if rng.random() < 0.05:
      nchild = 0
    kids = []
    for _ in range(nchild):
      prev = [k for k in kids if type(k) in (dict, list, tuple) and k]
      if prev and rng.random() < 0.12:
        # The same container object under two positions (a repeated row).
        kids.append(rng.choice(prev))
      elif depth > 1 and rng.random() < 0.55:
        kids.append(self.container(depth - 1))
      else:
        kids.append(self.leaf())
    if kind == 'dict':
      keys = rng.sample(KEYS, nchild)
      return dict(zip(keys, kids))
    return kids if kind == 'list' else tuple(kids)

  def value(self):
    r = self.rng.random()
    if r < 0.7:
      return self.leaf()
    return self.container(self.rng.randint(1, 2))

  def container_value(self):
    return self.container(self.rng.randint(1, 2))

  # ---- paths ---------------------------------------------------------------
  def nest_tail(self):
    rng = self.rng
    tail = []
    for _ in range(rng.choice([0, 0, 1, 1, 2, 3])):
      tail.append(('i', 0) if rng.random() < 0.35 else ('k', rng.choice(NEWKEYS)))
    return tuple(tail)

  def item(self, tree, cls):
    """Returns {'steps','value','cls'} for path class `cls`, or None."""
    rng = self.rng
    if cls == 'root':
      return {'steps': (), 'value': self.container_value(), 'cls': 'root'}
    if cls == 'leaf':
      ls = m.leaves(tree)
      if not ls:
        return None
      steps, _ = rng.choice(ls)
      return {'steps': steps, 'value': self.value(), 'cls': cls}
    if cls == 'node':
      ns = [p for p, n in m.nodes(tree) if m.is_branch(n)]
      if not ns:
        return None
      return {'steps': rng.choice(ns), 'value': self.value(), 'cls': cls}
    if cls == 'newkey':
      cs = [(p, c) for p, c in m.containers(tree) if type(c) is dict]
      if not cs:
        return None
      p, c = rng.choice(cs)
      free = [k for k in NEWKEYS + KEYS if k not in c]
      tail = self.nest_tail()
      return {'steps': p + (('k', rng.choice(free)),) + tail, 'value': self.value(),
              'cls': 'nested' if tail else 'newkey'}
    if cls == 'append':
      cs = [(p, c) for p, c in m.containers(tree) if type(c) is list]
      if not cs:
        return None
      p, c = rng.choice(cs)
      tail = self.nest_tail()
      return {'steps': p + (('i', len(c)),) + tail, 'value': self.value(),
              'cls': 'append_nested' if tail else 'append'}
    if cls in ('arrelem', 'arrelem_current'):
      import numpy as np
      arrs = [(p, a) for p, a in m.leaves(tree)
              if isinstance(a, np.ndarray) and a.ndim == 1 and a.shape[0] > 0
              and a.dtype.kind in 'if']
      if not arrs:
        return None
      p, a = rng.choice(arrs)
      j = rng.randrange(a.shape[0])
      if cls == 'arrelem_current':
        v = int(a[j]) if a.dtype.kind == 'i' else float(a[j])
      else:
        v = self.uid() if a.dtype.kind == 'i' else self.uid() + 0.5
      return {'steps': p + (('i', j),), 'value': v, 'cls': cls}
    if cls == 'current':
      ns = m.nodes(tree)
      if not ns:
        return None
      p, n = rng.choice(ns)
      return {'steps': p, 'value': n, 'cls': cls}
    if cls == 'alias':
      # A non-empty container read from one path is set under another path: the
      # same object is then reachable twice.
      # The source is read from the tree the whole operation starts from (not
      # from the partially updated tree of a multi-key operation).
      base = self.alias_base if self.alias_base is not None else tree
      srcs = [(p, n) for p, n in m.nodes(base)
              if m.is_branch(n) and len(m.leaves(n)) <= 10]
      if not srcs or len(m.leaves(tree)) > 60:
        return None
      it = self.item(tree, rng.choice(['newkey', 'append', 'leaf']))
      if it is None:
        return None
      it['alias_src'], it['value'] = rng.choice(srcs)
      return it
    raise ValueError(cls)

  def any_item(self, tree, classes):
    order = list(classes)
    self.rng.shuffle(order)
    # Weighted first pick, then the rest as fall-backs.
    for cls in order + ['root']:
      it = self.item(tree, cls)
      if it is not None:
        return it
    raise AssertionError('unreachable')


ITEM_CLASSES = ['leaf', 'leaf', 'node', 'newkey', 'newkey', 'append', 'append',
                'arrelem', 'alias']
SINGLE_FORMS = ['set_key', 'set_key', 'set_scalar', 'set_multi1', 'update_dict',
                'or_dict', 'update_pairs']
MULTI_FORMS = ['set_multi', 'set_multi', 'update_dict', 'or_dict', 'update_pairs']


def gen_op(g, tree):
  """Draws one operation against model state `tree`; returns the op dict."""
  rng = g.rng
  g.alias_base = tree
  r = rng.random()
  if r < 0.05:
    return _finish(g, tree, {'form': rng.choice(['skip', 'skip_multi']), 'items': [],
                             'junk': g.value()})
  if r < 0.08:
    return _finish(g, tree, {'form': 'update_empty', 'items': []})
  if r < 0.13:
    it = g.item(tree, 'root')
    return _finish(g, tree, {'form': rng.choice(['set_self', 'set_self_multi',
                                                 'set_root']), 'items': [it]})
  if r < 0.23:
    cls = rng.choice(['current', 'current', 'arrelem_current'])
    it = g.item(tree, cls) or g.item(tree, 'current')
    if it is not None:
      form = rng.choice(['set_key', 'set_key', 'update_dict', 'set_multi1'])
      return _finish(g, tree, {'form': form, 'items': [it], 'current': True})
  if r < 0.35:
    # merge another tree: view | other_view, copy_and_update(view / view.items())
    for _ in range(6):
      kinds = ('dict',) if type(tree) is dict else ('list',)
      other = g.container(rng.randint(1, 3), kinds=kinds)
      items = [{'steps': p, 'value': v, 'cls': 'merge'} for p, v in m.leaves(other)]
      op = _finish(g, tree, {'form': rng.choice(['or_view', 'update_view',
                                                 'update_items']),
                             'items': items, 'other': other})
      if op is not None:
        return op
  if r < 0.65:
    it = g.any_item(tree, ITEM_CLASSES)
    form = rng.choice(SINGLE_FORMS)
    if form == 'set_scalar' and len(it['steps']) != 1:
      form = 'set_key'
    if it['cls'] == 'root':
      form = 'set_root'
    return _finish(g, tree, {'form': form, 'items': [it]})
  # multi-key: items drawn sequentially against the evolving model
  want = rng.randint(2, 5)
  items, cur = [], tree
  for _ in range(want * 4):
    if len(items) >= want:
      break
    it = g.any_item(cur, ITEM_CLASSES)
    if it['cls'] == 'root' or any(m.related(it['steps'], o['steps']) for o in items):
      continue
    try:
      cur = m.m_set(cur, it['steps'], it['value'], [])
    except m.Undefined:
      continue
    items.append(it)
  if not items:
    return _finish(g, tree, {'form': 'update_empty', 'items': []})
  form = rng.choice(MULTI_FORMS) if len(items) > 1 else rng.choice(SINGLE_FORMS[3:])
  op = {'form': form, 'items': items}
  if form == 'set_multi' and rng.random() < 0.4:
    op['skip_at'] = rng.randint(0, len(items))
    op['junk'] = g.value()
  return _finish(g, tree, op)


def _finish(g, tree, op):
  """Adds the model result; None if the model does not define the operation."""
  fresh = []
  cur = tree
  try:
    for it in op['items']:
      cur = m.m_set(cur, it['steps'], it['value'], fresh)
  except m.Undefined:
    return None
  op['model'] = cur
  op['fresh'] = fresh
  op['key_scalar'] = [g.rng.random() < 0.5 for _ in op['items']]
  op['wrap'] = g.rng.random() < 0.5
  return op


# ---------------------------------------------------------------------------
# Library adapter
# ---------------------------------------------------------------------------


def lib_key(steps):
  from ml_metrics._src.chainables import tree as tl
  return tl.Key(tuple(tl.Index(k) if tag == 'i' else k for tag, k in steps))


def lib_key_or_scalar(steps, scalar):
  k = lib_key(steps)
  return k[0] if (scalar and len(k) == 1) else k


def call_op(view, op):
  """Performs `op` on the library view, returns (new view, description)."""
  from ml_metrics._src.chainables import tree as tl
  K = tl.Key
  form, items = op['form'], op['items']
  ks = [lib_key_or_scalar(it['steps'], sc) for it, sc in zip(items, op['key_scalar'])]
  vs = [it['value'] for it in items]
  if form == 'set_key':
    k = lib_key(items[0]['steps'])
    return view.copy_and_set(k, vs[0]), f'copy_and_set({k!r}, {m.short(vs[0])})'
  if form == 'set_scalar':
    k = lib_key(items[0]['steps'])[0]
    return view.copy_and_set(k, values=vs[0]), f'copy_and_set({k!r}, {m.short(vs[0])})'
  if form == 'set_root':
    return view.copy_and_set(K(), vs[0]), f'copy_and_set(Key(), {m.short(vs[0])})'
  if form == 'set_self':
    return (view.copy_and_set(K.SELF, vs[0]),
            f'copy_and_set(Key.SELF, {m.short(vs[0])})')
  if form == 'set_self_multi':
    return (view.copy_and_set((K.SELF,), (vs[0],)),
            f'copy_and_set((Key.SELF,), ({m.short(vs[0])},))')
  if form == 'skip':
    return (view.copy_and_set(K.SKIP, op['junk']),
            f'copy_and_set(Key.SKIP, {m.short(op["junk"])})')
  if form == 'skip_multi':
    return (view.copy_and_set((K.SKIP,), (op['junk'],)),
            f'copy_and_set((Key.SKIP,), ({m.short(op["junk"])},))')
  if form == 'set_multi1':
    v = vs[0]
    bare_ok = type(v) is not tuple or len(v) >= 2
    arg = v if (bare_ok and not op['wrap']) else (v,)
    return (view.copy_and_set((ks[0],), arg),
            f'copy_and_set(({ks[0]!r},), {m.short(arg)})')
  if form == 'set_multi':
    keys, values = list(ks), list(vs)
    if 'skip_at' in op:
      keys.insert(op['skip_at'], K.SKIP)
      values.insert(op['skip_at'], op['junk'])
    return (view.copy_and_set(tuple(keys), tuple(values)),
            f'copy_and_set({tuple(keys)!r}, {m.short(tuple(values), 200)})')
  if form == 'update_empty':
    return view.copy_and_update({}), 'copy_and_update({})'
  if form == 'update_dict':
    d = dict(zip(ks, vs))
    return view.copy_and_update(d), f'copy_and_update({m.short(d, 200)})'
  if form == 'or_dict':
    d = dict(zip(ks, vs))
    return view | d, f'view | {m.short(d, 200)}'
  if form == 'update_pairs':
    pairs = list(zip(ks, vs))
    return view.copy_and_update(pairs), f'copy_and_update({m.short(pairs, 200)})'
  if form == 'or_view':
    return (view | tl.TreeMapView(op['other']),
            f'view | TreeMapView({m.short(op["other"], 200)})')
  if form == 'update_view':
    return (view.copy_and_update(tl.TreeMapView.as_view(op['other'])),
            f'copy_and_update(TreeMapView({m.short(op["other"], 200)}))')
  if form == 'update_items':
    return (view.copy_and_update(tl.TreeMapView(op['other']).items()),
            f'copy_and_update(TreeMapView({m.short(op["other"], 200)}).items())')
  raise ValueError(form)


def _passes_tuple(tree, steps):
  node = tree
  for tag, k in steps:
    if type(node) is tuple:
      return True
    try:
      node = m.m_get(node, [(tag, k)])
    except Exception:  # pylint: disable=broad-exception-caught
      return False
  return False


class Run:
  """Executes one case and reports to ctx."""

  def __init__(self, ctx, case):
    self.ctx = ctx
    self.case = case
    self.descs = []
    self.tree_repr = ''
    self.failed = False

  def violation(self, kind, why, mech):
    self.failed = True
    self.ctx.violation(kind, self.case, {
        'tree': self.tree_repr[:700], 'ops': self.descs[-12:], 'why': why,
    }, mechanism=mech)

  # ---- one copying operation -------------------------------------------------
  def step(self, view, prev_data, op, originals, label, register=True):
    """Applies `op` to `view`; returns the new view or None after a violation."""
    ctx = self.ctx
    form = op['form']
    cls = op['items'][0]['cls'] if op['items'] else form
    mech = f'{form}:{cls}'
    # The expected tree is the persistent update of the (already verified) actual
    # previous tree; a set-to-current takes the value found there.
    fresh, expected = [], prev_data
    try:
      for it in op['items']:
        if it['cls'] == 'current':
          it['value'] = m.m_get(prev_data, it['steps'])
        if 'alias_src' in it:
          # The very object found under the source path of the actual tree.
          it['value'] = m.m_get(prev_data, it['alias_src'])
        expected = m.m_set(expected, it['steps'], it['value'], fresh)
    except Exception as e:  # pylint: disable=broad-exception-caught
      ctx.inconclusive_case(f'model could not follow the actual tree: {e!r}', self.case)
      return None
    if register:
      for it in op['items']:
        originals.add(f'value of {label}', it['value'])
    if register and 'other' in op:
      originals.add(f'merged tree of {label}', op['other'])
    if register and 'junk' in op:
      originals.add(f'skipped value of {label}', op['junk'])
    try:
      new_view, desc = call_op(view, op)
    except Exception as e:  # pylint: disable=broad-exception-caught
      self.descs.append(f'{form} {[it["steps"] for it in op["items"]]}')
      self.violation('raised', f'{type(e).__name__}: {e}'[:300], 'raised:' + mech)
      return None
    self.descs.append(desc)
    ctx.count('set_ops')
    self._count_op(op, prev_data)
    data = new_view.data
    # (1) equals the model
    ctx.count('model_checks')
    fresh_ids = {id(a) for a in fresh}
    r = m.same(data, expected, fresh_ids)
    if r:
      self.violation('model_mismatch', {'at': list(r[0]), 'reason': r[1],
                                        'got': m.short(data, 300),
                                        'want': m.short(expected, 300)},
                     'model_mismatch:' + mech)
      return None
    # (2) reading a set path returns the set value
    for it in op['items']:
      ctx.count('get_after_set_checks')
      try:
        got = new_view[lib_key(it['steps'])]
        if not it['steps']:
          ok = got is it['value'] and new_view[_self()] is it['value']
        elif _is_array(m.m_get(expected, it['steps'][:-1])):
          ok = bool(got == it['value'])
        else:
          ok = got is it['value']
      except Exception as e:  # pylint: disable=broad-exception-caught
        got, ok = f'{type(e).__name__}: {e}'[:200], False
      if not ok:
        self.violation('get_after_set', {'path': list(it['steps']),
                                         'got': m.short(got), 'want': m.short(it['value'])},
                       'get_after_set:' + mech)
        return None
    # (3) frame: every unrelated leaf of the previous tree reads as before
    set_paths = [it['steps'] for it in op['items']]
    for p, leaf in m.leaves(prev_data):
      if any(m.related(p, q) for q in set_paths):
        continue
      ctx.count('frame_checks')
      try:
        got = new_view[lib_key(p)]
        ok = got is leaf
      except Exception as e:  # pylint: disable=broad-exception-caught
        got, ok = f'{type(e).__name__}: {e}'[:200], False
      if not ok:
        self.violation('frame', {'path': list(p), 'got': m.short(got),
                                 'want': m.short(leaf)}, 'frame:' + mech)
        return None
    # (4) set-to-current / SKIP / empty update change nothing
    if op.get('current') or form in ('skip', 'skip_multi', 'update_empty'):
      ctx.count('set_current_checks')
      allow = set()
      for it in op['items']:
        if it['cls'] == 'arrelem_current':
          allow.add(id(m.m_get(prev_data, it['steps'][:-1])))
      r = m.same(data, prev_data, allow)
      if r:
        self.violation('set_current_changed', {'at': list(r[0]), 'reason': r[1]},
                       'set_current_changed:' + mech)
        return None
    # (5) nothing registered so far has changed
    if not self.check_originals(originals, mech):
      return None
    if register:
      originals.add(f'result of {label}', data)
    return new_view

  def check_originals(self, originals, mech):
    self.ctx.count('original_snapshot_checks', len(originals))
    changed = originals.changed()
    if changed:
      self.violation('original_mutated', {'changed': changed[:5]},
                     'original_mutated:' + mech)
      return False
    return True

  def _count_op(self, op, prev_data):
    ctx, form = self.ctx, op['form']
    for it in op['items']:
      cls = it['cls']
      if cls in ('newkey', 'nested', 'append', 'append_nested'):
        ctx.count('fresh_path_ops')
      if cls in ('nested', 'append_nested'):
        ctx.count('nested_creation_ops')
      if cls in ('append', 'append_nested'):
        ctx.count('append_ops')
      if cls in ('arrelem', 'arrelem_current'):
        ctx.count('array_element_ops')
      if 'alias_src' in it:
        ctx.count('alias_ops')
    if op['items'] and _passes_tuple(prev_data, op['items'][0]['steps']):
      ctx.count('tuple_node_ops')
    if form in ('skip', 'skip_multi') or 'skip_at' in op:
      ctx.count('skip_ops')
    if form in ('set_self', 'set_self_multi', 'set_root'):
      ctx.count('self_ops')
    if form == 'set_multi' or (form.startswith(('update', 'or')) and len(op['items']) > 1):
      ctx.count('multikey_ops')
    if form.startswith('update'):
      ctx.count('update_ops')
    if form.startswith('or_'):
      ctx.count('or_ops')
    if 'other' in op:
      ctx.count('view_merge_ops')

  # ---- read-only checks ----------------------------------------------------------
  def check_iteration(self, data):
    from ml_metrics._src.chainables import tree as tl
    ctx = self.ctx
    ctx.count('iter_checks')
    conts = [id(c) for _, c in m.containers(data) if c]
    if len(set(conts)) != len(conts):
      ctx.count('aliased_tree_iter_checks')
    mine = {tuple(k for _, k in p): leaf for p, leaf in m.leaves(data)}
    view = tl.TreeMapView(data)
    try:
      keys = list(view)
      keys2, values, items, n = view.keys(), view.values(), list(view.items()), len(view)
    except Exception as e:  # pylint: disable=broad-exception-caught
      self.violation('iter_raised', f'{type(e).__name__}: {e}'[:300], 'iter:raised')
      return False
    why = None
    if len(keys) != len(mine) or n != len(mine):
      why = {'listed': len(keys), 'len': n, 'leaves': len(mine)}
    elif len({tuple(k) for k in keys}) != len(keys):
      why = {'duplicate_paths': [repr(k) for k in keys][:20]}
    elif {tuple(k) for k in keys} != set(mine):
      why = {'paths': [repr(k) for k in keys][:20], 'want': [repr(k) for k in mine][:20]}
    elif list(keys2) != keys or len(values) != len(keys) or len(items) != len(keys):
      why = {'keys_values_items_disagree': [len(keys2), len(values), len(items)]}
    else:
      for i, k in enumerate(keys):
        try:
          got = view[k]
        except Exception as e:  # pylint: disable=broad-exception-caught
          got = e
        want = mine[tuple(k)]
        if (got is not want or values[i] is not want or items[i][1] is not want
            or items[i][0] != k):
          why = {'path': repr(k), 'read': m.short(got), 'values': m.short(values[i]),
                 'items': m.short(items[i]), 'want': m.short(want)}
          break
    if why:
      self.violation('iteration', dict(why, data=m.short(data, 300)), 'iteration')
      return False
    return True

  def check_multiget(self, g, data):
    from ml_metrics._src.chainables import tree as tl
    ctx, rng = self.ctx, g.rng
    view = tl.TreeMapView.as_view(data)
    ns = m.nodes(data)
    for _ in range(3):
      keys, wants, descs = [], [], []
      for _j in range(rng.choice([0, 1, 2, 3, 3, 4, 5])):
        r = rng.random()
        if r < 0.6 and ns:
          p, node = rng.choice(ns)
          keys.append(lib_key_or_scalar(p, rng.random() < 0.5))
          wants.append(node)
        elif r < 0.7 and ns:
          p, node = rng.choice(ns)
          keys.append(tl.Key(tuple(lib_key(p)) + (_self(),)))
          wants.append(node)
        elif r < 0.8:
          keys.append(_self())
          wants.append(data)
        elif r < 0.85:
          keys.append(tl.Key())
          wants.append(data)
        else:
          v = g.leaf()
          keys.append(tl.Key.Literal(v))
          wants.append(v)
          ctx.count('literal_reads')
      ctx.count('multiget_checks')
      try:
        got = view[tuple(keys)]
        ok = (type(got) is tuple and len(got) == len(wants)
              and all(a is b for a, b in zip(got, wants)))
        if ok and keys:
          # single-key form of the first key agrees
          ok = view[keys[0]] is wants[0]
      except Exception as e:  # pylint: disable=broad-exception-caught
        got, ok = f'{type(e).__name__}: {e}'[:200], False
      if not ok:
        self.violation('multiget', {'keys': repr(tuple(keys))[:300],
                                    'got': m.short(got, 300),
                                    'want': m.short(tuple(wants), 300),
                                    'data': m.short(data, 300)},
                       'multiget:%s' % ('3plus' if len(keys) >= 3 else 'short'))
        return False
    return True

  def check_apply(self, g, data, originals):
    from ml_metrics._src.chainables import tree as tl
    ctx = self.ctx
    ctx.count('apply_checks')
    calls = []

    def fn(x):
      calls.append(x)
      return Tag(x)

    try:
      if g.rng.random() < 0.5:
        view = tl.TreeMapView.as_view(data, map_fn=fn)
      else:
        view = tl.TreeMapView(data, map_fn=fn)
      res = view.apply()
    except Exception as e:  # pylint: disable=broad-exception-caught
      self.violation('apply_raised', {'error': f'{type(e).__name__}: {e}'[:300],
                                      'data': m.short(data, 300)}, 'apply:raised')
      return False
    if not self.check_originals(originals, 'apply'):
      return False
    r = _mapped_same(res, data, ())
    if r:
      self.violation('apply_result', {'at': list(r[0]), 'reason': r[1],
                                      'got': m.short(res, 300),
                                      'data': m.short(data, 300)}, 'apply:result')
      return False
    leaf_ids = {id(leaf) for _, leaf in m.leaves(data)}
    called = {id(x) for x in calls}
    if not called <= leaf_ids:
      bad = [m.short(x) for x in calls if id(x) not in leaf_ids][:3]
      self.violation('apply_non_leaf', {'fn_called_on': bad, 'data': m.short(data, 300)},
                     'apply:non_leaf')
      return False
    if not leaf_ids <= called:
      self.violation('apply_leaf_skipped', {'data': m.short(data, 300)},
                     'apply:leaf_skipped')
      return False
    return True

  def check_error_ops(self, g, data, originals):
    """Sets outside the defined domain: may raise, must not mutate."""
    from ml_metrics._src.chainables import tree as tl
    rng = g.rng
    view = tl.TreeMapView(data)
    cands = []
    scal = [p for p, leaf in m.leaves(data) if type(leaf) in (int, float, str)]
    if scal:
      cands.append(rng.choice(scal) + (('k', 'zz'),))
    dicts = [p for p, c in m.containers(data) if type(c) is dict]
    if dicts:
      cands.append(rng.choice(dicts) + (('k', 'nn9'), ('i', rng.randint(1, 3))))
    lists = [(p, c) for p, c in m.containers(data) if type(c) is list]
    if lists:
      p, c = rng.choice(lists)
      cands.append(p + (('i', len(c) + rng.randint(1, 2)),))
      cands.append(p + (('k', 'strkey'),))
      cands.append(p + (('i', len(c) + rng.randint(1, 3)), ('k', 'n1')))
    seqs = [(p, c) for p, c in m.containers(data) if type(c) in (list, tuple) and p]
    if seqs:
      p, c = rng.choice(seqs)
      cands.append(p + (('i', len(c) + rng.randint(1, 2)),))
      cands.append(p + (('i', -1 - rng.randint(0, len(c) + 1)),))
    for steps in cands:
      v = g.value()
      originals.add('value of failing set', v)
      self.descs.append(f'(failing) copy_and_set({lib_key(steps)!r}, {m.short(v)})')
      try:
        new_view = view.copy_and_set(lib_key(steps), v)
      except Exception:  # pylint: disable=broad-exception-caught
        new_view = None
      self.ctx.count('error_nonmutation_checks')
      if not self.check_originals(originals, 'failing_set'):
        return False
      if new_view is not None:
        # Not rejected: then the first law still binds - the path reads the value.
        self.ctx.count('accepted_outside_domain_reads')
        try:
          got = new_view[lib_key(steps)]
          ok = got is v
        except Exception as e:  # pylint: disable=broad-exception-caught
          got, ok = f'{type(e).__name__}: {e}'[:200], False
        if not ok:
          self.violation('get_after_set', {'path': list(steps), 'got': m.short(got),
                                           'want': m.short(v),
                                           'result': m.short(new_view.data, 300)},
                         'get_after_set:outside_domain_set_accepted')
          return False
    return True

  def allpaths(self, g, data, originals):
    """One copying set per node and per container of `data`."""
    from ml_metrics._src.chainables import tree as tl
    import numpy as np
    view = tl.TreeMapView(data)
    ops = []
    for p, node in m.nodes(data):
      ops.append({'form': 'set_key', 'items': [
          {'steps': p, 'value': g.leaf(), 'cls': 'node' if m.is_branch(node) else 'leaf'}]})
      ops.append({'form': 'set_key', 'current': True, 'items': [
          {'steps': p, 'value': node, 'cls': 'current'}]})
      if (isinstance(node, np.ndarray) and node.ndim == 1 and node.shape[0]
          and node.dtype.kind in 'if'):
        j = g.rng.randrange(node.shape[0])
        v = g.uid() if node.dtype.kind == 'i' else g.uid() + 0.5
        ops.append({'form': 'set_key', 'items': [
            {'steps': p + (('i', j),), 'value': v, 'cls': 'arrelem'}]})
    for p, c in m.containers(data):
      if type(c) is dict:
        free = [k for k in NEWKEYS if k not in c]
        ops.append({'form': 'set_key', 'items': [
            {'steps': p + (('k', free[0]),), 'value': g.leaf(), 'cls': 'newkey'}]})
        ops.append({'form': 'set_key', 'items': [
            {'steps': p + (('k', free[1]), ('i', 0), ('k', 'n1')), 'value': g.leaf(),
             'cls': 'nested'}]})
      elif type(c) is list:
        ops.append({'form': 'set_key', 'items': [
            {'steps': p + (('i', len(c)),), 'value': g.leaf(), 'cls': 'append'}]})
        ops.append({'form': 'set_key', 'items': [
            {'steps': p + (('i', len(c)), ('k', 'n1'), ('i', 0)), 'value': g.leaf(),
             'cls': 'append_nested'}]})
    only_tree = m.Originals()
    only_tree.add('initial tree', data)
    for op in ops:
      op = _finish(g, data, op)
      if op is None:
        continue
      self.ctx.count('allpaths_ops')
      keep = len(self.descs)
      if self.step(view, data, op, only_tree, 'allpaths', register=False) is None:
        return False
      del self.descs[keep:]
    return self.check_originals(originals, 'allpaths')


class Tag:
  """What the leaf function returns: neither a Mapping nor a Sequence."""
  __slots__ = ('orig',)

  def __init__(self, orig):
    self.orig = orig

  def __repr__(self):
    return f'Tag({m.short(self.orig, 30)})'


def _mapped_same(res, data, path):
  if m.is_branch(data):
    if type(res) is not type(data):
      return path, f'container type {type(res).__name__} != {type(data).__name__}'
    if len(res) != len(data):
      return path, f'length {len(res)} != {len(data)}'
    if type(data) is dict and set(res.keys()) != set(data.keys()):
      return path, 'keys differ'
    for step, child in m.children(data):
      r = _mapped_same(res[step[1]], child, path + (step,))
      if r:
        return r
    return None
  if not path:
    # Root without leaves: an equal empty container.
    if type(res) is type(data) and len(res) == 0:
      return None
    return path, f'empty root became {m.short(res)}'
  if type(res) is Tag and res.orig is data:
    return None
  return path, f'leaf {m.short(data)} mapped to {m.short(res)}'


def _self():
  from ml_metrics._src.chainables import tree as tl
  return tl.Key.SELF


def _is_array(x):
  import numpy as np
  return isinstance(x, np.ndarray)


# ---------------------------------------------------------------------------
# One case
# ---------------------------------------------------------------------------


def run_one(ctx, rseed, index, prof_name):
  from ml_metrics._src.chainables import tree as tl
  prof = PROFILES[prof_name]
  rng = random.Random(rseed * 1000003 + index * 7919 + 31)
  g = Gen(rng, prof)
  depth = rng.choice([1, 2, 2, 3, 3, 4, 4])
  tree0 = g.container(depth)
  nops = rng.randint(1, prof['max_ops'])
  # Pre-generate the whole sequence against the model.
  ops, cur = [], tree0
  for _ in range(nops):
    op = None
    for _try in range(5):
      op = gen_op(g, cur)
      if op is not None:
        break
    if op is None:
      continue
    ops.append(op)
    cur = op['model']
  do_allpaths = rng.random() < 0.5
  case = {'rseed': rseed, 'index': index, 'prof': prof_name}
  run = Run(ctx, case)
  run.tree_repr = repr(tree0)
  nontrivial = m.depth(tree0) >= 2 and len(m.leaves(tree0)) >= 2
  originals = m.Originals()
  originals.add('initial tree', tree0)
  view = tl.TreeMapView(tree0) if rng.random() < 0.5 else tl.TreeMapView.as_view(tree0)
  ok = True
  data = tree0
  ok = ok and run.check_iteration(tree0)
  ok = ok and run.check_multiget(g, tree0)
  ok = ok and run.check_apply(g, tree0, originals)
  if ok:
    for j, op in enumerate(ops):
      new_view = run.step(view, data, op, originals, f'op {j}')
      if new_view is None:
        ok = False
        break
      view, data = new_view, new_view.data
  if ok and ops:
    ok = (run.check_iteration(data) and run.check_multiget(g, data)
          and run.check_apply(g, data, originals))
  if ok:
    ok = run.check_error_ops(g, data, originals)
  if ok and do_allpaths:
    ok = run.allpaths(g, tree0, originals)
  if ok:
    run.check_originals(originals, 'end')
  ctx.case((run.tree_repr, tuple(run.descs)), nontrivial)
  if len(ctx.samples) < 2 and nontrivial:
    ctx.sample({'case': case, 'tree': run.tree_repr[:300], 'ops': run.descs[:6]})


# ---------------------------------------------------------------------------
# Plan / entry points
# ---------------------------------------------------------------------------


def plan(tier, seed):
  if tier == 'quick':
    chunks, per = 32, 500
  else:
    chunks, per = 96, 5000
  return [{'rseed': seed, 'start': i * per, 'count': per, 'prof': tier}
          for i in range(chunks)]


def run_chunk(ctx, spec):
  for index in range(spec['start'], spec['start'] + spec['count']):
    run_one(ctx, spec['rseed'], index, spec['prof'])


def run_case(ctx, case):
  run_one(ctx, case['rseed'], case['index'], case['prof'])
