"""C10 - Checkpoint and resume continue exactly where iteration stopped.

Code under test: `io.SequenceDataSource` / `SequenceIterator` / `ShardedIterable` /
`DataIterator` (`state`, `from_state`), `iter_utils.MultiplexIterator.state/from_state`,
`transform._RunnerIterator` / `_ChainedRunnerIterator` (`state`, `from_state`).

Oracle (metamorphic twin): the uninterrupted run of the very same data source / pipeline
(`list(ds)`, `list(p.make().iterate())` + `agg_result`). The twin itself is cross-checked
against a plain-Python model (list slicing for shards, integer [sum, count, xor-hash] for
the aggregate); a twin that disagrees with the model makes the case inconclusive, not a
violation (that would be C09 / C02 territory). Every case is a literal dict (source config,
cut list, restore API per generation, state transport per generation, threads, ...), so
replay is exact (threaded cases: best effort, the interleaving is the OS's).

Two additions to the twin oracle: (1) state idempotence - the state read from a freshly
restored iterator, before it delivers anything, equals the state it was restored from
(checked at every restore of the data-source and pipeline cases); (2) part D, long chains
of successive restores (restore, advance 0-2 elements, checkpoint, repeat, 100-1100
times) over sharded and unsharded sources, bare and inside a pipeline: elements exactly
once and in order, the final aggregate, the idempotence law, and no failure of `.state`,
`from_state` or of the state transport at any depth.

Mechanism keys are derived from the case class (source kind / nesting, generation of the
restore, ignored source error before the cut, threads, stage of the aggregate, slices,
second restore from one checkpoint object) plus a coarse symptom. The triaged genuine
defects carry a *signature* (what exactly the defective position / state handling
predicts, e.g. "restore #r starts at the last cut c_r instead of c_1+..+c_r", "the restore
is faithful to the captured positions but those are ahead of the deliveries", "the wrong
keys all belong to a non-final stage and still hold their checkpoint value"); a failure in
the same class that does not match the signature gets a different key. Every violation is
counted (`viol:<key>` counters); three literal witnesses per class and chunk are kept.
"""

from __future__ import annotations

import collections
import itertools
import random

from vlib.oracles import c10_lib as L

ID = 'C10'
LEVEL = 'exploration'
RULE = (
    'a case is (source config = kind seq|seqs|iter, n, container, sub-sequence split, '
    'shard path; cut list c1..cg = elements consumed before each checkpoint; restore API '
    'per generation; state transport per generation; [pipeline shape, aggregator mode, '
    'make(shard=), original drained after capture]; [threads, sleep seed]). Part A '
    '(quick AND thorough) enumerates exhaustively: n in 0..10 x {SequenceDataSource(list): '
    'plain, .shard(i,k) for k in 1..4 and all i, .shard(i,k).shard(j,m) for k,m in {2,3} '
    'and all i,j; from_sequences with splits [a,n-a] for a in {0,1,n//2,n} and '
    '[n//3,0,n-n//3] (plain and .shard(i,2)); ShardedIterable(list): plain, .shard(i,k) '
    'for k in 1..4} x ALL cut lists of length 1..3 with c1+..+cg <= len(stream) x ALL '
    'sequences of the two restore APIs (data-source from_state / iterator from_state) per '
    'generation. The receiver of from_state (root object vs. current sharded / restored '
    'object, i.e. root.from_state, current_ds.from_state, root.iterate().from_state, '
    'current_iterator.from_state) is fully crossed (4^g) for g <= 2 in quick and for '
    'g <= 3 in thorough; for g = 3 in quick it alternates between (root ds, current '
    'iterator) and (current ds, root iterator) with the cut list (2^3 sequences each). '
    'The state transport (none / deepcopy / pickle) rotates deterministically with the '
    'case. Not exhaustive: '
    'other containers (rotating), checkpoints taken after StopIteration, ignore_error '
    'sources (all single and pair failing-index sets for n <= 6/8, one cut), '
    'MultiplexIterator over 2-3 sources, pipelines (10 shapes: single / named / no '
    'aggregate / 2- and 3-stage chains with the aggregate in the last, the first, or '
    'several stages / sliced aggregates with add_slice, plus 5 key-path shapes: the '
    'aggregate output key and / or the slicer features are Key paths, single stage and '
    '2-stage chain, x 2 aggregator modes over a '
    'fixed source list, all single cuts, all cut pairs for short streams, a subset of '
    'cut triples), two restores from one checkpoint object (double_restore), threads '
    '(seeded random (source, k, cut, sleep) cases), and seeded random larger cases '
    '(thorough: n <= 40, <= 5 generations, nesting depth 3; 30% of the SequenceDataSource '
    'paths hold a level that was itself resumed at an offset - shard(i, k, offset), or '
    'shard(0, 1, K) = an unsharded source restored after K elements - BEFORE the source is '
    'sharded further, so that later checkpoints nest under a level with a position), and long chains of successive '
    'restores (part D; per chunk one bare SequenceDataSource chain of 1100 restores, sharded or not, '
    'pipelines of 300 restores with the state passed as is / deep-copied / pickled, one '
    'ShardedIterable chain of 250 restores, and 10 (thorough: 60) seeded random chains of 100-400 '
    'restores over seq / seqs / iter sources with shard paths of depth 0-2, bare or inside a '
    'pipeline of a shape without upstream aggregate; 0-2 elements are delivered between two '
    'restores, the restore form is fixed or drawn per restore). At every restore of parts A, B '
    'and D the state read back from the restored iterator is compared with the state restored '
    'from (state_idempotence_checks). non-trivial = some checkpoint '
    'strictly inside the stream; distinct = the tuple itself; cases with >= 2 checkpoints '
    'are counted separately (second_generation_cases)')
ASSUMPTIONS = [
    'element values are unique non-negative ints (value = base + global index)',
    'data sources: SequenceDataSource over list / tuple / range / int64 ndarray / user '
    'random-access objects (with and without slice support), from_sequences with possibly '
    'empty sub-sequences, ShardedIterable over list / range / dict keys / a user '
    're-iterable; shard(i, k) with 0 <= i < k; ShardedIterable is sharded at most once '
    '(its shard() replaces, it does not nest)',
    'a checkpoint is taken between deliveries (after c successful next() calls, or after '
    'StopIteration was observed); from_state is called on the root data source, on the '
    'current (sharded / restored) data source, on root.iterate() and on the iterator that '
    'produced the state - the four call forms used by io_test.py',
    'the state is transported as is, through copy.deepcopy, or through a pickle round trip',
    'ignore_error sources: a random-access sequence raising ValueError at chosen indices '
    '(ValueError is in the documented ignorable set); exactly one checkpoint per case, so '
    'that this class is not mixed with the multi-generation class',
    'pipelines: TreeTransform.new(name=, num_threads=).data_source(ds).apply(fn)'
    '[.aggregate(fn=ExactAgg, output_keys=key)] chained by .chain(); restored with '
    'p.make().iterate().from_state(state) (transform_test.py) or with '
    'iterator.from_state(state) on the iterator that produced the state; '
    'make(shard=ShardConfig(i, k)) only on an unsharded source',
    'aggregator: exact integers [sum, count, xor-hash]; one mode updates its state in '
    'place (like the library\'s own MergeableMetric adapters), one returns a new state',
    'in the multi-generation cases every captured state object is restored from once; '
    'restoring twice from ONE in-memory state object (first restored run drained before '
    'the second restore) is a sub-check of its own (double_restore_checks), run with the '
    'in-place and the functional exact aggregator and with the library\'s own '
    'rolling_stats.MeanAndVariance().as_agg_fn() (count exact, mean / var rtol 1e-9)',
    'sliced shapes: records are batches {x, f, g} (1..3 rows), aggregate over column x '
    'with add_slice(\'f\') and add_slice((\'f\', \'g\')); every per-slice aggregate '
    'is compared, slice values first appear at different points of the stream',
    'threads: num_threads in {1,2,3} on the source stage, comparison on multisets, one '
    'checkpoint (first generation), no failing indices; a case that exceeds its 30 s '
    'watchdog is inconclusive',
    'the returned value of the iterator (StopIteration.value = AggregateResult) is '
    'compared as a second form of the final aggregate',
    'state idempotence: a restored iterator that has not delivered anything reports the state '
    'it was restored from (it.from_state(s).state == s, same for the data-source forms and for '
    'pipeline iterators, whose state also holds the aggregation state); states are compared as '
    'plain structures (recorded (shard_index, num_shards, start_index) chains root first, '
    'aggregation states by repr), never with the library\'s own __eq__ (whose recursion depth '
    'would depend on the depth of the state)',
    'long chains (part D): pipelines use shapes without an aggregate in a non-final stage (so '
    'that the recorded upstream-aggregate finding is not mixed in), num_threads 0; a failure of '
    'copy.deepcopy / pickle of a captured state counts as a failure of checkpointing (a '
    'checkpoint exists to be stored); the recursion limit is the interpreter default',
    'key-path shapes: the aggregate output key is tree.Key.new(\'out\', \'agg\') (its '
    'result is read from the nested result {\'out\': {\'agg\': ..}}) and / or the records '
    'are nested batches {\'x\': {\'v\', \'f\', \'g\'}} aggregated over Key.new(\'x\', \'v\') '
    'with add_slice(Key.new(\'x\', \'f\')) and add_slice((Key.new(\'x\', \'f\'), '
    'Key().at(\'x\').at(\'g\'))); same cut lists, transports and restore forms as the '
    'other shapes, enumerated part only (not in the random / threaded part)',
]
REQUIRED = [
    'src_resumed_level_in_shard_path_checks', 'src_resumed_level_two_or_more_restores',
    'src_seq_checks', 'src_seq-shard_checks', 'src_seq-nested-shard_checks',
    'src_seqs_checks', 'src_seqs-shard_checks', 'src_iter_checks',
    'src_iter-shard_checks', 'src_ignore_error_checks', 'src_past_end_checks',
    'gen1_restores', 'gen2_restores', 'gen3_restores',
    'api_root.ds_restores', 'api_cur.ds_restores', 'api_root.it_restores',
    'api_cur.it_restores', 'xf_none', 'xf_deepcopy', 'xf_pickle',
    'multiplex_checks', 'pipe_single_checks', 'pipe_chain_checks',
    'pipe_agg_checks', 'pipe_ignore_error_checks', 'pipe_returned_checks',
    'pipe_make_shard_checks', 'pipe_gen2_checks', 'pipe_original_continues_checks',
    'pipe_sliced_checks', 'double_restore_checks',
    'thread_checks', 'thread_k1_checks', 'thread_k2_checks', 'thread_k3_checks',
    'thread_original_continues_checks', 'second_generation_cases', 'rebatch_restore_checks',
    'pipe_keypath_checks', 'pipe_keypath_state_captures', 'pipe_keypath_slicer_checks',
    'state_idempotence_checks', 'long_chain_cases', 'long_chain_restores',
    'long_chain_bare_cases', 'long_chain_pipe_cases', 'long_chain_sharded_cases',
    'long_chain_unsharded_cases', 'long_chain_seq_cases', 'long_chain_iter_cases',
    'long_chain_pipe_seq_cases_of_250_or_more_restores',
    'long_chain_bare_seq_cases_of_1000_or_more_restores',
]
EXHAUSTIVE = {'quick': True, 'thorough': True}
CHUNK_TIMEOUT_S = {'quick': 240, 'thorough': 3000}

APIS = ('root.ds', 'cur.ds', 'root.it', 'cur.it')
XFS = ('none', 'deepcopy', 'pickle')
WATCHDOG_S = 30.0

K_REL = 'sequence-iterator-state-relative-to-restored-start'
K_THR = 'threaded-restore-loses-prefetched-elements'
K_IGN = 'restore-after-ignored-source-error-repeats-element'
K_UP = 'chained-restore-freezes-upstream-stage-aggregate'
K_SLICE = 'restore-loses-slice-states'
K_ALIAS = 'restore-aliases-checkpoint-agg-state'
K_RET = 'restored-iterator-returns-no-aggregate-result'
K_DIT = 'data-iterator-state-before-first-next-forgets-restored-position'
K_KEYCOPY = 'key-path-not-deep-copyable-breaks-iterator-state'
K_GROW = 'from-state-grows-state-by-one-level-per-restore'


def _exc_mech(shape, e, default):
  """Mechanism key of an exception raised while capturing / restoring a state.

  Input class: the aggregate output key or a slicer feature of the pipeline is a
  Key path; symptom: the TypeError that copy.deepcopy raises for such a path
  (Key answers the __deepcopy__ probe with a longer path, which is then called).
  """
  if (shape in L.KEYPATH_SHAPES and isinstance(e, TypeError)
      and "'Key' object is not callable" in str(e)):
    return K_KEYCOPY
  return default


def _sample(ctx, case, nontrivial):
  if nontrivial and len(ctx.samples) < 2:
    ctx.sample(case)


WITNESSES_PER_CLASS = 3


def _viol(ctx, kind, case, detail, mechanism):
  """Counts every violation; keeps a few literal witnesses per class and chunk."""
  ctx.count('viol:' + str(mechanism))
  seen = ctx.__dict__.setdefault('_c10_seen', {})
  seen[(kind, mechanism)] = seen.get((kind, mechanism), 0) + 1
  if seen[(kind, mechanism)] <= WITNESSES_PER_CLASS:
    ctx.violation(kind, case, detail, mechanism=mechanism)


def _brief_shape(shape, limit=400):
  text = repr(shape)
  return text if len(text) <= limit else text[:limit // 2] + ' ... ' + text[-limit // 2:]


def check_state_law(ctx, case, cfg, r, restored_from, read_back, cls):
  """State idempotence: the state read from a freshly restored iterator (nothing
  delivered yet) equals the state it was restored from. Returns 'ok' | 'grew' |
  'differs'. (Compared as plain structures: the recorded parent chains are walked
  iteratively, so the comparison itself does not depend on their depth.)

  Key: input class = SequenceDataSource family; signature = the two states are
  equal once the ShardConfig(0, 1, 0) levels at the root end of the recorded
  parent chains are dropped, i.e. the restore only ADDED such levels."""
  ctx.count('state_idempotence_checks')
  a, b = L.state_shape(restored_from), L.state_shape(read_back)
  if a == b:
    return 'ok'
  grew = cfg['kind'] in ('seq', 'seqs') and L.strip_shape(a) == L.strip_shape(b)
  mech = K_GROW if grew else f'{cls}-state-read-back-after-restore-differs'
  seen = ctx.__dict__.setdefault('_c10_seen', {})
  if seen.get(('state_idempotence', mech), 0) >= WITNESSES_PER_CLASS:
    # counted like _viol does; the literal detail is only built for kept witnesses
    ctx.count('viol:' + mech)
    seen[('state_idempotence', mech)] += 1
  else:
    _viol(ctx, 'state_idempotence', case,
          {'restore': r, 'restored_from': _brief_shape(a), 'read_back': _brief_shape(b),
           'depth_restored_from': L.state_depth(restored_from),
           'depth_read_back': L.state_depth(read_back)}, mech)
  return 'grew' if grew else 'differs'


# ---------------------------------------------------------------------------
# Classification of an element mismatch
# ---------------------------------------------------------------------------


def _classify(cfg, cuts, r, got, want_all, pos, c_req, fmap=None, prefix=''):
  """Mechanism key for: restore #r delivered `got`, want want_all[pos:pos+c_req].

  c_req None = drain. r == 0 is the original (never restored) iterator.
  """
  cls = prefix + L.source_class(cfg)
  fail = sorted(cfg.get('fail') or ())

  def window(j):
    return want_all[j:] if c_req is None else want_all[j:j + c_req]

  if r == 0:
    return f'{cls}-plain-iteration-differs'
  seq_family = cfg['kind'] in ('seq', 'seqs')
  if seq_family and not fail and r >= 2:
    j = cuts[r - 1]
    if j != pos and got == window(j):
      return K_REL
  if cfg['kind'] == 'iter' and r >= 2 and cuts[r - 1] == 0:
    # checkpoint taken from a restored DataIterator that delivered nothing yet
    if pos != 0 and got == window(0):
      return K_DIT
  if seq_family and fail and r == 1:
    positions = L.model_positions(cfg)
    if 'make_shard' in cfg:
      positions = L.model_positions(cfg, cfg['make_shard'])
    base = cfg.get('base', L.BASE)
    pred = [base + g for g in positions[cuts[0]:] if g not in set(fail)]
    if fmap is not None:
      pred = fmap(pred)
    pred_w = pred if c_req is None else pred[:c_req]
    if pred_w != window(pos) and got == pred_w:
      return K_IGN
  symptom = 'other'
  for j in range(len(want_all) + 1):
    if j != pos and got == window(j) and (got or c_req is None):
      symptom = 'repeats' if j < pos else 'skips'
      break
  gen = '1' if r == 1 else '2+'
  return f'{cls}-restore-gen{gen}-{symptom}' + (
      '-after-ignored-error' if fail else '')


def _nontrivial(cuts, length):
  s = 0
  for c in cuts:
    s += c
    if 0 < s < length:
      return True
  return False


# ---------------------------------------------------------------------------
# Part A: data sources
# ---------------------------------------------------------------------------


def _restore_source(api, root, cur_ds, cur_it, state):
  """Returns (restored data source, restored iterator)."""
  if api == 'root.ds':
    ds = root.from_state(state)
    return ds, iter(ds)
  if api == 'cur.ds':
    ds = cur_ds.from_state(state)
    return ds, iter(ds)
  if api == 'root.it':
    it = root.iterate().from_state(state)
    return it.config, it
  if api == 'cur.it':
    it = cur_it.from_state(state)
    return it.config, it
  raise ValueError(api)


def _take_upto(it, c):
  out = []
  for _ in range(c):
    try:
      out.append(next(it))
    except StopIteration:
      break
  return out


def check_src_case(ctx, case):
  cfg, cuts, apis, xfs = case['src'], case['cuts'], case['apis'], case['xf']
  past_end = bool(case.get('past_end'))
  cls = L.source_class(cfg)
  fail = cfg.get('fail')
  want = L.model_stream(cfg)
  try:
    root, cur = L.build_source(cfg)
    full = L.norm(list(cur))
  except Exception as e:  # pylint: disable=broad-exception-caught
    _viol(ctx, 'exception', case, {'where': 'uninterrupted', 'err': repr(e)},
          f'{cls}-uninterrupted-iteration-raises')
    return
  nontrivial = _nontrivial(cuts, len(want))
  ctx.case(('src', L.cfg_desc(cfg), tuple(cuts), tuple(apis), tuple(xfs),
            past_end), nontrivial)
  _sample(ctx, case, nontrivial and len(cuts) >= 2)
  if full != want:
    ctx.inconclusive_case('uninterrupted list(ds) differs from the list model',
                          case)
    return
  if any(len(step) > 2 and step[2] for step in cfg.get('path') or ()):
    ctx.count('src_resumed_level_in_shard_path_checks')
    if len(cuts) >= 2:
      ctx.count('src_resumed_level_two_or_more_restores')
  if fail:
    ctx.count('src_ignore_error_checks')
  else:
    ctx.count(f'src_{cls}_checks')
  if past_end:
    ctx.count('src_past_end_checks')
  if len(cuts) >= 2:
    ctx.count('second_generation_cases')
  pos = 0
  r = 0
  try:
    it = cur.iterate()
    cur_ds = cur
    for r_next, c in enumerate(cuts, start=1):
      seg = L.norm(_take_upto(it, c))
      if seg != want[pos:pos + c]:
        _viol(ctx, 'elements', case,
              {'restore': r, 'position': pos, 'got': seg,
               'want': want[pos:pos + c], 'uninterrupted': want},
              _classify(cfg, cuts, r, seg, want, pos, c))
        return
      pos += c
      if past_end and r_next == len(cuts):
        extra = _take_upto(it, 1)
        if extra:
          _viol(ctx, 'elements', case,
                {'restore': r, 'position': pos, 'got_extra': L.norm(extra)},
                _classify(cfg, cuts, r, L.norm(extra), want, pos, 1))
          return
      xf = xfs[r_next - 1]
      state = L.transport(it.state, xf)
      api = apis[r_next - 1]
      cur_ds, it = _restore_source(api, root, cur_ds, it, state)
      r = r_next
      check_state_law(ctx, case, cfg, r, state, it.state, cls)
      ctx.count(f'gen{min(r, 3)}_restores')
      ctx.count(f'api_{api}_restores')
      ctx.count(f'xf_{xf}')
    rest = L.norm(list(it))
  except Exception as e:  # pylint: disable=broad-exception-caught
    gen = '1' if r <= 1 else '2+'
    _viol(ctx, 'exception', case, {'restore': r, 'err': repr(e)},
          f'{cls}-restore-gen{gen}-raises-{type(e).__name__}')
    return
  if rest != want[pos:]:
    _viol(ctx, 'elements', case,
          {'restore': r, 'position': pos, 'got': rest, 'want': want[pos:],
           'uninterrupted': want},
          _classify(cfg, cuts, r, rest, want, pos, None))


def check_mux_case(ctx, case):
  """iter_utils.MultiplexIterator over several data sources, sequential."""
  from ml_metrics._src.utils import iter_utils
  cfgs, cuts, xfs = case['srcs'], case['cuts'], case['xf']
  want = list(itertools.chain.from_iterable(L.model_stream(c) for c in cfgs))
  try:
    curs = [L.build_source(c)[1] for c in cfgs]
    full = L.norm(iter_utils.MultiplexIterator(data_sources=curs))
  except Exception as e:  # pylint: disable=broad-exception-caught
    _viol(ctx, 'exception', case, {'where': 'uninterrupted', 'err': repr(e)},
          'multiplex-uninterrupted-iteration-raises')
    return
  ctx.case(('mux', tuple(L.cfg_desc(c) for c in cfgs), tuple(cuts),
            tuple(xfs)), _nontrivial(cuts, len(want)))
  _sample(ctx, case, _nontrivial(cuts, len(want)))
  if full != want:
    ctx.inconclusive_case('uninterrupted MultiplexIterator differs from model',
                          case)
    return
  ctx.count('multiplex_checks')
  pos = 0
  r = 0
  all_iter = all(c['kind'] == 'iter' for c in cfgs)

  def gen_key():
    return '1' if r <= 1 else '2+'

  def mux_key(symptom, got):
    if (all_iter and r >= 2 and cuts[r - 1] == 0 and got
        and got[0] in want[:pos]):
      # a DataIterator restored at generation r-1, not advanced since, whose
      # state was captured again: it restarts from the beginning (repeats).
      return K_DIT
    return f'multiplex-restore-gen{gen_key()}-{symptom}'

  try:
    it = iter_utils.MultiplexIterator(data_sources=curs)
    for r_next, c in enumerate(cuts, start=1):
      seg = L.norm(_take_upto(it, c))
      if seg != want[pos:pos + c]:
        _viol(ctx, 'elements', case,
              {'restore': r, 'position': pos, 'got': seg,
               'want': want[pos:pos + c]},
              mux_key('segment-differs', seg))
        return
      pos += c
      state = L.transport(it.state, xfs[r_next - 1])
      it = it.from_state(state)
      r = r_next
    rest = L.norm(list(it))
  except Exception as e:  # pylint: disable=broad-exception-caught
    _viol(ctx, 'exception', case, {'restore': r, 'err': repr(e)},
          f'multiplex-restore-gen{gen_key()}-raises-{type(e).__name__}')
    return
  if rest != want[pos:]:
    _viol(ctx, 'elements', case,
          {'restore': r, 'position': pos, 'got': rest, 'want': want[pos:]},
          mux_key('remainder-differs', rest))


# ---------------------------------------------------------------------------
# Part B: pipelines
# ---------------------------------------------------------------------------


def _make(p, make_shard):
  from ml_metrics._src.chainables import io
  if make_shard:
    return p.make(shard=io.ShardConfig(make_shard[0], make_shard[1]))
  return p.make()


def _agg_model_for_outputs(shape, outputs, inverse):
  """Aggregates the pipeline must report if exactly `outputs` were delivered."""
  xs = []
  for o in outputs:
    if o not in inverse:
      return 'foreign'
    xs.append(inverse[o])
  return L.model_pipeline(shape, xs)[1]


def check_pipe_case(ctx, case):
  cfg, shape, aggmode = case['src'], case['shape'], case['agg']
  cuts, xfs, vias = case['cuts'], case['xf'], case['via']
  make_shard = case.get('make_shard')
  cont_orig = bool(case.get('cont_orig'))
  cls = 'pipeline-' + L.source_class(cfg)
  fail = cfg.get('fail')
  xs = L.model_stream(cfg, make_shard)
  outs, aggs = L.model_pipeline(shape, xs)
  fmap = lambda vals: L.model_pipeline(shape, vals)[0]
  ccfg = dict(cfg, make_shard=make_shard) if make_shard else cfg
  try:
    _, cur = L.build_source(cfg)
    p = L.build_pipeline(shape, cur, aggmode)
    it0 = _make(p, make_shard).iterate()
    full, ret0 = L.drain(it0)
    full = L.norm(full)
    agg0 = L.norm_agg(it0.agg_result)
  except Exception as e:  # pylint: disable=broad-exception-caught
    _viol(ctx, 'exception', case, {'where': 'uninterrupted', 'err': repr(e)},
          f'{cls}-uninterrupted-run-raises')
    return
  ctx.case(('pipe', L.cfg_desc(cfg), shape, aggmode, tuple(cuts), tuple(xfs),
            tuple(vias), tuple(make_shard or ()), cont_orig),
           _nontrivial(cuts, len(outs)))
  _sample(ctx, case, _nontrivial(cuts, len(outs)))
  if full != outs or agg0 != aggs:
    ctx.inconclusive_case('uninterrupted pipeline run differs from the model',
                          case)
    return
  n_stages = len(L.SHAPES[shape])
  ctx.count('pipe_single_checks' if n_stages == 1 else 'pipe_chain_checks')
  if shape in L.SLICED_SHAPES:
    ctx.count('pipe_sliced_checks')
  if shape in L.KEYPATH_SHAPES:
    ctx.count('pipe_keypath_checks')
    ctx.count('pipe_keypath_state_captures', len(cuts))
    if shape in L.KEYPATH_SLICED_SHAPES:
      ctx.count('pipe_keypath_slicer_checks')
  if fail:
    ctx.count('pipe_ignore_error_checks')
  if make_shard:
    ctx.count('pipe_make_shard_checks')
  if len(cuts) >= 2:
    ctx.count('pipe_gen2_checks')
    ctx.count('second_generation_cases')
  pos = 0
  r = 0
  delivered = []
  elements_ok = True
  try:
    it = _make(p, make_shard).iterate()
    for r_next, c in enumerate(cuts, start=1):
      seg = L.norm(_take_upto(it, c))
      delivered += seg
      if seg != outs[pos:pos + c]:
        _viol(ctx, 'elements', case,
              {'restore': r, 'position': pos, 'got': seg,
               'want': outs[pos:pos + c], 'uninterrupted': outs},
              _classify(ccfg, cuts, r, seg, outs, pos, c, fmap, 'pipeline-'))
        return
      pos += c
      xf = xfs[r_next - 1]
      state = L.transport(it.state, xf)
      ctx.count(f'xf_{xf}')
      if cont_orig and r_next == 1:
        # The original keeps going after the capture (as in transform_test).
        rest0, _ = L.drain(it)
        ctx.count('pipe_original_continues_checks')
        got0 = L.norm_agg(it.agg_result)
        if seg + L.norm(rest0) != outs or got0 != agg0:
          _viol(ctx, 'original_disturbed', case,
                {'got': seg + L.norm(rest0), 'want': outs, 'agg': got0,
                 'want_agg': agg0},
                f'{cls}-capture-disturbs-original-iterator')
      if vias[r_next - 1] == 'fresh':
        it = p.make().iterate().from_state(state)
      else:
        it = it.from_state(state)
      r = r_next
      check_state_law(ctx, case, cfg, r, state, it.state, cls)
    rest, ret = L.drain(it)
    rest = L.norm(rest)
    delivered += rest
    got_agg = L.norm_agg(it.agg_result)
  except Exception as e:  # pylint: disable=broad-exception-caught
    gen = '1' if r <= 1 else '2+'
    _viol(ctx, 'exception', case, {'restore': r, 'err': repr(e)},
          _exc_mech(shape, e, f'{cls}-restore-gen{gen}-raises-{type(e).__name__}'))
    return
  if rest != outs[pos:]:
    elements_ok = False
    _viol(ctx, 'elements', case,
          {'restore': r, 'position': pos, 'got': rest, 'want': outs[pos:],
           'uninterrupted': outs},
          _classify(ccfg, cuts, r, rest, outs, pos, None, fmap, 'pipeline-'))
  if aggs is None:
    if got_agg is not None:
      _viol(ctx, 'aggregate', case, {'got': got_agg, 'want': None},
            f'{cls}-restore-aggregate-without-aggregator')
    return
  ctx.count('pipe_agg_checks')
  # What the aggregates must be for the elements that WERE delivered; equals the
  # uninterrupted aggregate when the elements are right.
  want_agg = aggs if elements_ok else _agg_model_for_outputs(
      shape, delivered, L.source_value_of_output(shape))
  if want_agg != 'foreign' and got_agg != want_agg:
    wrong = sorted(k for k in set(want_agg or {}) | set(got_agg or {})
                   if (want_agg or {}).get(k) != (got_agg or {}).get(k))
    ups = L.upstream_agg_keys(shape)
    frozen = L.model_pipeline(shape, xs[:cuts[0]])[1] or {}
    if wrong and all(L.base_key(k) in ups
                     and (got_agg or {}).get(k) == frozen.get(k)
                     for k in wrong):
      # every wrong key belongs to a non-final stage and still has the value it
      # had at the first checkpoint
      mech = K_UP
    elif wrong and all('|' in k for k in wrong):
      # unsliced aggregates right, per-slice aggregates wrong / missing
      mech = K_SLICE
    else:
      mech = ('pipeline-restore-aggregate-'
              + ('differs' if elements_ok else
                 'inconsistent-with-delivered-elements')
              + f'-{"chained" if n_stages > 1 else "single"}-stage')
    _viol(ctx, 'aggregate', case,
          {'got': got_agg, 'want': want_agg, 'uninterrupted': aggs,
           'wrong_keys': wrong, 'elements_ok': elements_ok}, mech)
  # Second form of the final aggregate: the iterator's returned value.
  ctx.count('pipe_returned_checks')
  want_ret = L.norm_agg(getattr(ret0, 'agg_result', None))
  if want_ret is not None:
    if ret is None:
      _viol(ctx, 'returned_aggregate', case,
            {'got': None, 'want': 'AggregateResult(%r)' % (want_ret,)}, K_RET)
    else:
      got_ret = L.norm_agg(getattr(ret, 'agg_result', None))
      if got_ret != got_agg:
        _viol(ctx, 'returned_aggregate', case,
              {'got': got_ret, 'agg_result': got_agg},
              'restored-iterator-returned-aggregate-differs-from-agg-result')


def _meanvar_pipeline(cur):
  import numpy as np
  from ml_metrics._src.aggregates import rolling_stats
  from ml_metrics._src.chainables import transform
  return (transform.TreeTransform().data_source(cur)
          .apply(lambda v: np.array([float(v), float(v) + 0.5]))
          .aggregate(fn=rolling_stats.MeanAndVariance().as_agg_fn(),
                     output_keys='mv'))


def _mv(res):
  m = dict(res)['mv']
  return [int(m.count), float(m.mean), float(m.var)]


def _close(a, b):
  return a[0] == b[0] and all(
      abs(x - y) <= 1e-9 * max(abs(x), abs(y)) + 1e-12 for x, y in zip(a[1:], b[1:]))


def check_double_restore_case(ctx, case):
  """Two restores from ONE in-memory checkpoint object (first one drained)."""
  cfg, shape, aggmode, c = case['src'], case['shape'], case['agg'], case['cut']
  xs = L.model_stream(cfg)
  meanvar = aggmode == 'meanvar'
  if meanvar and not xs:
    return  # the mean of an empty series is NaN; nothing to compare
  try:
    _, cur = L.build_source(cfg)
    p = _meanvar_pipeline(cur) if meanvar else L.build_pipeline(shape, cur, aggmode)
    it0 = p.make().iterate()
    full, _ = L.drain(it0)
    agg0 = _mv(it0.agg_result) if meanvar else L.norm_agg(it0.agg_result)
    n_full = len(full)
    if not meanvar:
      full = L.norm(full)
  except Exception as e:  # pylint: disable=broad-exception-caught
    _viol(ctx, 'exception', case, {'where': 'uninterrupted', 'err': repr(e)},
          'pipeline-uninterrupted-run-raises')
    return
  ctx.case(('dbl', L.cfg_desc(cfg), shape, aggmode, c), 0 < c < len(xs))
  if meanvar:
    if n_full != len(xs) or agg0[0] != 2 * len(xs):
      ctx.inconclusive_case('uninterrupted MeanAndVariance run differs from the model', case)
      return
  else:
    outs, aggs = L.model_pipeline(shape, xs)
    if full != outs or agg0 != aggs:
      ctx.inconclusive_case('uninterrupted pipeline run differs from the model', case)
      return
  ctx.count('double_restore_checks')
  try:
    it = p.make().iterate()
    before = L.take(it, c)
    state = it.state
    results = []
    for _ in range(2):
      itr = p.make().iterate().from_state(state)
      rest, _ = L.drain(itr)
      results.append((rest, _mv(itr.agg_result) if meanvar
                      else L.norm_agg(itr.agg_result)))
  except Exception as e:  # pylint: disable=broad-exception-caught
    _viol(ctx, 'exception', case, {'err': repr(e)},
          _exc_mech(shape, e, f'pipeline-double-restore-raises-{type(e).__name__}'))
    return
  for which, (rest, agg) in enumerate(results, start=1):
    n_ok = (len(before) + len(rest) == n_full) if meanvar else (
        L.norm(before) + L.norm(rest) == full)
    agg_ok = _close(agg, agg0) if meanvar else agg == agg0
    if n_ok and agg_ok:
      continue
    inplace = aggmode in ('inplace', 'meanvar')
    mech = (f'pipeline-double-restore-{which}-'
            + ('aggregate-differs' if n_ok else 'elements-differ'))
    if which == 2 and n_ok and inplace:
      # Signature of aliasing: the checkpoint's state objects were updated in
      # place by the first restored run, so the second run counts the elements
      # after the cut once more (keys created after the cut are not affected).
      if meanvar:
        dup = agg[0] == agg0[0] + 2 * len(rest)
      else:
        after = L.model_pipeline(shape, xs[c:])[1] or {}
        dup = True
        for k in set(agg0) | set(agg):
          if agg.get(k) == agg0.get(k):
            continue
          a0, af = agg0.get(k, [0, 0, 0]), after.get(k, [0, 0, 0])
          dup = dup and agg.get(k) == [a0[0] + af[0], a0[1] + af[1],
                                       a0[2] ^ af[2]]
      if dup:
        mech = K_ALIAS
    _viol(ctx, 'double_restore', case,
          {'restore': which, 'delivered_before': len(before),
           'delivered_after': len(rest), 'agg': agg, 'want_agg': agg0}, mech)


# ---------------------------------------------------------------------------
# Part C: threads
# ---------------------------------------------------------------------------


def _delays(dseed):
  rng = random.Random(dseed)
  return [rng.choice([0, 0, 0, 0.0003, 0.0007, 0.0015, 0.003])
          for _ in range(17)]


def _thread_work(case):
  import time
  cfg, shape, aggmode = case['src'], case['shape'], case['agg']
  k, c = case['k'], case['cut']
  _, cur = L.build_source(cfg)
  p = L.build_pipeline(shape, cur, aggmode, threads=k,
                       delays=_delays(case['dseed']))
  p0 = L.build_pipeline(shape, cur, aggmode, threads=k)
  out = {}
  it = p.make().iterate()
  out['before'] = L.norm(L.take(it, c))
  if case.get('pause_ms'):
    time.sleep(case['pause_ms'] / 1000.0)
  raw_state = it.state
  out['input_states'] = L.first_stage_input_states(raw_state)
  state = L.transport(raw_state, case.get('xf', 'none'))
  it2 = p.make().iterate().from_state(state)
  after, _ = L.drain(it2)
  out['after'] = L.norm(after)
  out['agg2'] = L.norm_agg(it2.agg_result)
  rest, _ = L.drain(it)
  out['rest'] = L.norm(rest)
  out['agg1'] = L.norm_agg(it.agg_result)
  it0 = p0.make().iterate()
  full, _ = L.drain(it0)
  out['full'] = L.norm(full)
  out['agg0'] = L.norm_agg(it0.agg_result)
  return out


def check_thread_case(ctx, case):
  cfg, shape, k, c = case['src'], case['shape'], case['k'], case['cut']
  xs = L.model_stream(cfg)
  outs, aggs = L.model_pipeline(shape, xs)
  ctx.case(('thr', L.cfg_desc(cfg), shape, case['agg'], k, c, case['dseed'],
            case.get('pause_ms', 0), case.get('xf', 'none')),
           0 < c < len(outs))
  _sample(ctx, case, 0 < c < len(outs))
  done, res, exc = L.run_with_watchdog(lambda: _thread_work(case), WATCHDOG_S)
  if not done:
    ctx.inconclusive_case('watchdog: threaded case did not finish in 30 s', case)
    return
  if exc is not None:
    _viol(ctx, 'exception', case, {'err': repr(exc)},
          f'threaded-restore-raises-{type(exc).__name__}')
    return
  ms = collections.Counter
  if ms(res['full']) != ms(outs) or res['agg0'] != aggs:
    ctx.inconclusive_case('uninterrupted threaded run differs from the model',
                          case)
    return
  ctx.count('thread_checks')
  ctx.count(f'thread_k{k}_checks')
  ctx.count('thread_original_continues_checks')
  if ms(res['before'] + res['rest']) != ms(outs) or res['agg1'] != aggs:
    _viol(ctx, 'original_disturbed', case,
          {'before': res['before'], 'rest': res['rest'], 'agg': res['agg1'],
           'want_agg': aggs}, 'threaded-capture-disturbs-original-iterator')
  got = ms(res['before'] + res['after'])
  if got == ms(outs) and res['agg2'] == aggs:
    ctx.count('thread_cases_held')
    return
  # ---- classification -----------------------------------------------------
  lost = ms(outs) - got
  extra = got - ms(outs)
  detail = {'delivered_before': len(res['before']),
            'delivered_after': len(res['after']), 'want_total': len(outs),
            'lost': sorted(lost.elements()), 'extra': sorted(extra.elements()),
            'agg': res['agg2'], 'want_agg': aggs,
            'input_states': [repr(s) for s in res['input_states']]}
  mech = None
  try:
    implied = L.model_pipeline(
        shape, L.implied_remaining(cfg, res['input_states']))[0]
    inverse = L.source_value_of_output(shape)
    consistent = _agg_model_for_outputs(
        shape, res['before'] + res['after'], inverse)
    if (ms(implied) == ms(res['after']) and not extra and lost
        and res['agg2'] == consistent):
      # The restore is faithful to the state; the state is ahead of what was
      # delivered (the workers had pulled those elements already).
      mech = K_THR
    elif ms(implied) != ms(res['after']):
      mech = 'threaded-restore-differs-from-captured-positions'
    elif extra:
      mech = 'threaded-restore-repeats-elements'
    elif res['agg2'] != consistent:
      mech = 'threaded-restore-aggregate-inconsistent-with-delivered-elements'
  except Exception as e:  # pylint: disable=broad-exception-caught
    detail['classification_error'] = repr(e)
  _viol(ctx, 'elements_multiset', case, detail,
        mech or 'threaded-restore-unclassified')


# ---------------------------------------------------------------------------
# Enumeration
# ---------------------------------------------------------------------------


def cut_lists(length, max_g):
  """All cut lists (c1..cg), 1 <= g <= max_g, with c1+..+cg <= length."""

  def rec(prefix, remaining, g):
    if prefix:
      yield list(prefix)
    if g == max_g:
      return
    for c in range(remaining + 1):
      yield from rec(prefix + [c], remaining - c, g + 1)

  yield from rec([], length, 0)


def _rot(*vals):
  s = 0
  for v in vals:
    s = s * 31 + int(v)
  return s


def src_configs_exhaustive(n):
  """The exhaustive sub-space of RULE for one n (container = list)."""
  cfgs = []
  seq = {'kind': 'seq', 'n': n, 'cont': 'list'}
  cfgs.append(dict(seq, path=[]))
  for k in (1, 2, 3, 4):
    for i in range(k):
      cfgs.append(dict(seq, path=[[i, k]]))
  for k in (2, 3):
    for m in (2, 3):
      for i in range(k):
        for j in range(m):
          cfgs.append(dict(seq, path=[[i, k], [j, m]]))
  splits = []
  for a in sorted({0, 1, n // 2, n}):
    if 0 <= a <= n and [a, n - a] not in splits:
      splits.append([a, n - a])
  splits.append([n // 3, 0, n - n // 3])
  for sp in splits:
    base = {'kind': 'seqs', 'n': n, 'cont': 'list', 'split': sp}
    cfgs.append(dict(base, path=[]))
    for i in range(2):
      cfgs.append(dict(base, path=[[i, 2]]))
  it = {'kind': 'iter', 'n': n, 'cont': 'list'}
  cfgs.append(dict(it, path=[]))
  for k in (1, 2, 3, 4):
    for i in range(k):
      cfgs.append(dict(it, path=[[i, k]]))
  return cfgs


def src_configs_rotating(n):
  """Other containers, a few paths (not part of the exhaustive claim)."""
  cfgs = []
  for ci, cont in enumerate(L.SEQ_CONTAINERS[1:]):
    paths = [[], [[(n + ci) % 2, 2]], [[ci % 3, 3], [n % 2, 2]]]
    cfgs.append({'kind': 'seq', 'n': n, 'cont': cont, 'path': paths[(n + ci) % 3]})
  cont = L.SEQ_CONTAINERS[n % len(L.SEQ_CONTAINERS)]
  cfgs.append({'kind': 'seqs', 'n': n, 'cont': cont,
               'split': [n // 2, 0, n - n // 2], 'path': [[n % 2, 2]]})
  for ci, cont in enumerate(L.ITER_CONTAINERS[1:]):
    cfgs.append({'kind': 'iter', 'n': n, 'cont': cont,
                 'path': [] if (n + ci) % 2 else [[ci % 3, 3]]})
  return cfgs


def _case_count(length, max_g, napis, full3=False):
  total = 0
  for g in range(1, max_g + 1):
    # number of (c1..cg) with sum <= length = C(length+g, g)
    num = 1
    for t in range(1, g + 1):
      num = num * (length + t) // t
    total += num * (napis if (g < 3 or napis < 4 or full3) else 2) ** g
  return total


def run_src_cfg(ctx, cfg, max_g, apis=APIS, full3=False):
  length = len(L.model_stream(cfg))
  idx = 0
  for ci, cuts in enumerate(cut_lists(length, max_g)):
    g = len(cuts)
    pool = apis
    if g >= 3 and len(apis) == 4 and not full3:
      # 3 checkpoints: both API kinds (ds / iterator) fully crossed; the receiver
      # (root vs current object) alternates with the cut list.
      pool = (('root.ds', 'cur.it'), ('cur.ds', 'root.it'))[ci % 2]
    for api_seq in itertools.product(pool, repeat=g):
      idx += 1
      xf = [XFS[_rot(idx, r, sum(cuts)) % 3] for r in range(g)]
      check_src_case(ctx, {'part': 'src', 'src': cfg, 'cuts': cuts,
                           'apis': list(api_seq), 'xf': xf})
  # checkpoints after StopIteration was observed
  for cuts in cut_lists(length, 2):
    if sum(cuts) != length:
      continue
    for a, api in enumerate(apis):
      g = len(cuts)
      check_src_case(ctx, {'part': 'src', 'src': cfg, 'cuts': cuts,
                           'apis': [apis[(a + r) % len(apis)] for r in range(g)],
                           'xf': [XFS[(a + r) % 3] for r in range(g)],
                           'past_end': True})


def fail_configs(n):
  """ignore_error sources: all single and (n <= 6) pair failing-index sets."""
  cfgs = []
  sets = [[a] for a in range(n)]
  if n <= 6:
    sets += [[a, b] for a in range(n) for b in range(a + 1, n)]
  for fi, fs in enumerate(sets):
    for cont in ('fail', 'failnoslice'):
      cfgs.append({'kind': 'seq', 'n': n, 'cont': cont, 'path': [], 'fail': fs})
    cfgs.append({'kind': 'seq', 'n': n, 'cont': 'fail', 'fail': fs,
                 'path': [[fi % 2, 2]]})
    if n >= 2:
      cfgs.append({'kind': 'seqs', 'n': n, 'cont': 'fail', 'fail': fs,
                   'split': [n // 2, n - n // 2], 'path': []})
  return cfgs


def mux_cases(n):
  cases = []
  for kinds in (('iter', 'iter'), ('seq', 'iter'), ('iter', 'seq', 'iter')):
    cfgs = []
    for si, kind in enumerate(kinds):
      nn = max(0, n - 2 * si)
      cfgs.append({'kind': kind, 'n': nn, 'cont': 'list', 'base': 100 + 1000 * si,
                   'path': [] if (si + n) % 2 else [[si % 2, 2]]})
    total = sum(len(L.model_stream(c)) for c in cfgs)
    max_g = 1 if 'seq' in kinds else 3
    for ci, cuts in enumerate(cut_lists(total, max_g)):
      cases.append({'part': 'mux', 'srcs': cfgs, 'cuts': cuts,
                    'xf': [XFS[(ci + r) % 3] for r in range(len(cuts))]})
  return cases


PIPE_SHAPES = ('single', 'named', 'noagg', 'chain_last', 'chain_first',
               'chain_both', 'chain3', 'sliced', 'sliced_chain', 'sliced_both')


def pipe_sources():
  """(cfg, make_shard, max generations) list for the enumerated pipeline part."""
  S = lambda n, path=(), **kw: dict(
      {'kind': 'seq', 'n': n, 'cont': 'list', 'path': [list(p) for p in path]},
      **kw)
  I = lambda n, path=(), **kw: dict(
      {'kind': 'iter', 'n': n, 'cont': 'list', 'path': [list(p) for p in path]},
      **kw)
  out = [
      (S(0), None, 1), (S(1), None, 2), (S(5), None, 3), (S(7, cont='ra'), None, 2),
      (S(9, [(0, 2)]), None, 2), (S(9, [(1, 2)]), None, 2),
      (S(8, [(2, 3)], cont='range'), None, 2),
      (S(10, [(1, 2), (0, 2)]), None, 2), (S(10, [(0, 2), (1, 3)]), None, 2),
      ({'kind': 'seqs', 'n': 7, 'cont': 'list', 'split': [3, 4], 'path': []},
       None, 2),
      ({'kind': 'seqs', 'n': 7, 'cont': 'tuple', 'split': [0, 5, 2],
        'path': [[1, 2]]}, None, 2),
      (I(0), None, 1), (I(5), None, 3), (I(8, cont='reiter'), None, 2),
      (I(9, [(0, 2)]), None, 3), (I(9, [(1, 3)], cont='dictkeys'), None, 2),
      (S(7), [0, 2], 2), (S(7), [1, 2], 2), (I(7), [1, 2], 2), (I(8), [2, 3], 2),
  ]
  # ignore_error sources: one cut only
  for fs in ([0], [1], [2], [3], [4], [5], [1, 2], [0, 5], [2, 4]):
    out.append((S(6, cont='fail', fail=fs), None, 1))
  for fs in ([4], [5], [7]):
    out.append((S(8, [(1, 2)], cont='failnoslice', fail=fs), None, 1))
  out.append(({'kind': 'seqs', 'n': 6, 'cont': 'fail', 'split': [2, 4],
               'path': [], 'fail': [1, 3]}, None, 1))
  return out


def pipe_cases_for(cfg, make_shard, max_g, shape):
  length = len(L.model_stream(cfg, make_shard))
  cases = []
  idx = 0
  for cuts in cut_lists(length, max_g):
    g = len(cuts)
    if g == 3 and (cuts[0] + cuts[1]) % 2:
      continue
    idx += 1
    h = _rot(idx, length, len(shape))
    case = {'part': 'pipe', 'src': cfg, 'shape': shape,
            'agg': ('inplace', 'functional')[h % 2], 'cuts': cuts,
            'xf': [XFS[(h // 2 + r) % 3] for r in range(g)],
            'via': [('fresh', 'cur')[(h // 6 + r) % 2] for r in range(g)],
            'cont_orig': bool((h // 12) % 2)}
    if make_shard:
      case['make_shard'] = make_shard
    cases.append(case)
    if g == 1:
      # single cuts: both aggregator modes, original drained / not drained
      alt = dict(case, agg=('inplace', 'functional')[(h + 1) % 2],
                 cont_orig=not case['cont_orig'])
      cases.append(alt)
  return cases


def thread_cases(rng, count, big=False):
  cases = []
  for t in range(count):
    kind = rng.choice(['seq', 'seq', 'iter'])
    n = rng.choice([12, 20, 30, 40]) if not big else rng.randint(8, 60)
    cont = rng.choice(['list', 'range', 'ra'] if kind == 'seq'
                      else ['list', 'range', 'reiter'])
    cfg = {'kind': kind, 'n': n, 'cont': cont, 'path': []}
    if kind == 'seq' and rng.random() < 0.25:
      cfg['path'] = [[rng.randrange(2), 2]]
    length = len(L.model_stream(cfg))
    cases.append({
        'part': 'thr', 'src': cfg,
        'shape': rng.choice(['single', 'single', 'named', 'chain_last',
                             'noagg', 'sliced']),
        'agg': rng.choice(['inplace', 'functional']),
        'k': 1 + (t % 3), 'cut': rng.randint(0, length),
        'dseed': rng.randrange(1 << 30),
        'pause_ms': rng.choice([0, 0, 1, 3]),
        'xf': rng.choice(XFS)})
  return cases


def random_src_case(rng, nmax, max_g, depth_max):
  kind = rng.choice(['seq', 'seq', 'seqs', 'iter'])
  n = rng.choice([rng.randint(0, 12), rng.randint(0, nmax)])
  cfg = {'kind': kind, 'n': n}
  if kind == 'iter':
    cfg['cont'] = rng.choice(L.ITER_CONTAINERS)
    cfg['path'] = []
    if rng.random() < 0.7:
      k = rng.randint(1, 6)
      cfg['path'] = [[rng.randrange(k), k]]
  else:
    cfg['cont'] = rng.choice(L.SEQ_CONTAINERS)
    if kind == 'seqs':
      parts = rng.randint(1, 4)
      cuts = sorted(rng.randint(0, n) for _ in range(parts - 1))
      cfg['split'] = [b - a for a, b in zip([0] + cuts, cuts + [n])]
    path = []
    for _ in range(rng.randint(0, depth_max)):
      k = rng.randint(1, 5)
      path.append([rng.randrange(k), k])
    cfg['path'] = path
    if n and rng.random() < 0.3:
      # a level that was itself resumed at an offset before the source was sharded
      # further (a restored source that is sharded, then checkpointed again)
      if path and rng.random() < 0.5:
        li = rng.randrange(len(path))
      else:
        path.insert(0, [0, 1])
        li = 0
      upto = dict(cfg, path=path[:li + 1])
      path[li] = path[li][:2] + [rng.randint(0, len(L.model_positions(upto)))]
  length = len(L.model_stream(cfg))
  g = rng.randint(1, max_g)
  cuts, remaining = [], length
  for _ in range(g):
    c = rng.randint(0, remaining) if rng.random() < 0.8 else 0
    if rng.random() < 0.3:
      c = min(c, 3)
    cuts.append(c)
    remaining -= c
  case = {'part': 'src', 'src': cfg, 'cuts': cuts,
          'apis': [rng.choice(APIS) for _ in range(g)],
          'xf': [rng.choice(XFS) for _ in range(g)]}
  if remaining == 0 and rng.random() < 0.5:
    case['past_end'] = True
  return case


def random_fail_case(rng, nmax):
  n = rng.randint(1, nmax)
  kind = rng.choice(['seq', 'seq', 'seqs'])
  cfg = {'kind': kind, 'n': n, 'cont': rng.choice(['fail', 'failnoslice']),
         'fail': sorted(rng.sample(range(n), rng.randint(1, min(n, 4))))}
  if kind == 'seqs':
    a = rng.randint(0, n)
    cfg['split'] = [a, n - a]
  path = []
  for _ in range(rng.randint(0, 2)):
    k = rng.randint(1, 3)
    path.append([rng.randrange(k), k])
  cfg['path'] = path
  length = len(L.model_stream(cfg))
  return {'part': 'src', 'src': cfg, 'cuts': [rng.randint(0, length)],
          'apis': [rng.choice(APIS)], 'xf': [rng.choice(XFS)]}


def random_pipe_case(rng, nmax, max_g):
  base = random_src_case(rng, nmax, max_g, 2)
  cfg = base['src']
  case = {'part': 'pipe', 'src': cfg, 'shape': rng.choice(PIPE_SHAPES),
          'agg': rng.choice(['inplace', 'functional']), 'cuts': base['cuts'],
          'xf': base['xf'],
          'via': [rng.choice(['fresh', 'cur']) for _ in base['cuts']],
          'cont_orig': rng.random() < 0.5}
  if not cfg['path'] and cfg['n'] and rng.random() < 0.3:
    k = rng.randint(1, 4)
    case['make_shard'] = [rng.randrange(k), k]
    length = len(L.model_stream(cfg, case['make_shard']))
    cuts, remaining = [], length
    for _ in base['cuts']:
      c = rng.randint(0, remaining)
      cuts.append(c)
      remaining -= c
    case['cuts'] = cuts
  if rng.random() < 0.2 and cfg['kind'] != 'iter':
    fc = random_fail_case(rng, min(nmax, 12))
    case.update(src=fc['src'], cuts=fc['cuts'], xf=fc['xf'],
                via=[rng.choice(['fresh', 'cur'])])
    case.pop('make_shard', None)
  return case


# ---------------------------------------------------------------------------
# plan / run_chunk / run_case
# ---------------------------------------------------------------------------


def _pack(items, weights, bins):
  """Greedy longest-first packing; returns list of item lists."""
  order = sorted(range(len(items)), key=lambda i: -weights[i])
  loads = [0] * bins
  out = [[] for _ in range(bins)]
  for i in order:
    b = loads.index(min(loads))
    out[b].append(items[i])
    loads[b] += weights[i]
  return [o for o in out if o]

K_REBATCH = 'restore-loses-rows-held-by-the-rebatching-buffer'


class _RowsAgg:
  """Exact aggregate over a batch of rows: [sum, count, xor]."""

  def create_state(self):
    return [0, 0, 0]

  def update_state(self, state, xs):
    s, c, x = state
    for v in xs:
      s, c, x = s + int(v), c + 1, x ^ L._h(v)  # pylint: disable=protected-access
    return [s, c, x]

  def merge_states(self, states):
    out = [0, 0, 0]
    for st in states:
      out = [out[0] + st[0], out[1] + st[1], out[2] ^ st[2]]
    return out

  def get_result(self, state):
    return list(state)


def _plus7(xs):
  return [int(x) + 7 for x in xs]


def check_rebatch_case(ctx, case):
  """A re-batching operator between the source and the consumer: rows that were
  read from the source but still sit in the re-batching buffer at the checkpoint
  must be delivered (and aggregated) by the restored run."""
  from ml_metrics._src.chainables import io, transform
  sizes, fbs, bs, cut = case['sizes'], case['fbs'], case['bs'], case['cut']
  recs, pos = [], 0
  for sz in sizes:
    recs.append(list(range(pos, pos + sz)))
    pos += sz

  def make():
    t = transform.TreeTransform.new().data_source(io.SequenceDataSource(recs))
    t = t.apply(fn=_plus7, fn_batch_size=fbs, batch_size=bs)
    return t.aggregate(fn=_RowsAgg(), output_keys='agg')

  rows = [r + 7 for rec in recs for r in rec]
  want_agg = {'agg': L.agg_of(rows)}
  try:
    it0 = make().make().iterate()
    full = [list(map(int, b)) for b in it0]
    agg0 = L.norm_agg(it0.agg_result)
  except Exception as e:  # pylint: disable=broad-exception-caught
    _viol(ctx, 'exception', case, {'where': 'uninterrupted', 'err': repr(e)},
          'rebatch-uninterrupted-run-raises')
    return
  ctx.case(('rebatch', tuple(sizes), fbs, bs, cut), cut > 0 and len(sizes) >= 2)
  if [r for b in full for r in b] != rows or agg0 != want_agg:
    ctx.inconclusive_case('uninterrupted re-batching run differs from the model', case)
    return
  if cut > len(full):
    return
  ctx.count('rebatch_restore_checks')
  try:
    it = make().make().iterate()
    before = [list(map(int, next(it))) for _ in range(cut)]
    state = L.transport(it.state, case.get('xf', 'deepcopy'))
    it2 = make().make().iterate().from_state(state)
    after = [list(map(int, b)) for b in it2]
    got_agg = L.norm_agg(it2.agg_result)
  except Exception as e:  # pylint: disable=broad-exception-caught
    _viol(ctx, 'exception', case, {'where': 'restore', 'err': repr(e)},
          f'rebatch-restore-raises-{type(e).__name__}')
    return
  got_rows = [r for b in before + after for r in b]
  if got_rows != rows:
    missing = [r for r in rows if r not in got_rows]
    dup = sorted({r for r in got_rows if got_rows.count(r) > 1})
    _viol(ctx, 'elements', case,
          {'delivered_before': before, 'after_restore': after, 'missing_rows': missing[:10],
           'repeated_rows': dup[:10], 'uninterrupted': full},
          K_REBATCH if (missing and not dup) else 'rebatch-restore-elements-differ')
  elif got_agg != want_agg:
    _viol(ctx, 'aggregate', case, {'got': got_agg, 'want': want_agg},
          'rebatch-restore-aggregate-differs')


def rebatch_cases(rng, count):
  out = []
  for _ in range(count):
    n = rng.randint(1, 6)
    sizes = [rng.randint(1, 4) for _ in range(n)]
    fbs = rng.choice([0, 0, 1, 2, 3, 5])
    bs = rng.choice([1, 2, 3, 4, 7])
    total = sum(sizes)
    n_out = -(-total // bs)
    out.append({'part': 'rebatch', 'sizes': sizes, 'fbs': fbs, 'bs': bs,
                'cut': rng.randint(0, n_out), 'xf': rng.choice(XFS)})
  return out


# ---------------------------------------------------------------------------
# Part D: long chains of successive restores ("any number of successive checkpoints")
# ---------------------------------------------------------------------------

LONG_SHAPES = ('single', 'named', 'noagg', 'chain_last')   # no aggregate upstream
ITER_CONTS = ('list', 'range', 'dictkeys', 'reiter')


def check_long_case(ctx, case):
  """restore, advance 0-2 elements, checkpoint, repeat - hundreds of times.

  Oracle: the elements are delivered exactly once and in order (and the final
  aggregate equals the uninterrupted one), the state read back right after every
  restore equals the state restored from, and neither .state nor from_state (nor
  carrying the state through the chosen transport) fails at any depth."""
  cfg, wrap, cycles, xf = case['src'], case['wrap'], case['cycles'], case['xf']
  api, shape, aggmode = case.get('api', 'cur.it'), case.get('shape'), case.get('agg', 'inplace')
  pipe = wrap == 'pipe'
  cls = 'long-chain-' + ('pipeline-' if pipe else '') + L.source_class(cfg)
  xs = L.model_stream(cfg)
  want, want_agg = (L.model_pipeline(shape, xs) if pipe else (xs, None))
  rng = random.Random(case['aseed'])
  try:
    root, cur = L.build_source(cfg)
    if pipe:
      p = L.build_pipeline(shape, cur, aggmode)
      it0 = p.make().iterate()
      full, _ = L.drain(it0)
      full, agg0 = L.norm(full), L.norm_agg(it0.agg_result)
    else:
      full, agg0 = L.norm(list(cur)), None
  except Exception as e:  # pylint: disable=broad-exception-caught
    _viol(ctx, 'exception', case, {'where': 'uninterrupted', 'err': repr(e)[:300]},
          f'{cls}-uninterrupted-run-raises')
    return
  ctx.case(('long', L.cfg_desc(cfg), wrap, shape, aggmode, cycles, xf, api, case['aseed']),
           len(want) >= 2 and cycles >= 2)
  _sample(ctx, case, True)
  if full != want or agg0 != want_agg:
    ctx.inconclusive_case('uninterrupted run differs from the model', case)
    return
  seq_family = cfg['kind'] in ('seq', 'seqs')
  ctx.count('long_chain_cases')
  ctx.count('long_chain_pipe_cases' if pipe else 'long_chain_bare_cases')
  ctx.count('long_chain_sharded_cases' if cfg.get('path') else 'long_chain_unsharded_cases')
  ctx.count(f'long_chain_{cfg["kind"]}_cases')
  if seq_family and pipe and cycles >= 250:
    ctx.count('long_chain_pipe_seq_cases_of_250_or_more_restores')
  if seq_family and not pipe and cycles >= 1000:
    ctx.count('long_chain_bare_seq_cases_of_1000_or_more_restores')
  pos, r, where, grew, law_broken, cuts = 0, 0, 'start', False, False, []
  depth = 0
  try:
    it = p.make().iterate() if pipe else cur.iterate()
    cur_ds = cur
    for r_next in range(1, cycles + 1):
      c = rng.choice((0, 1, 1, 2))
      where = 'next'
      seg = L.norm(_take_upto(it, c))
      cuts.append(c)
      if seg != want[pos:pos + c]:
        _viol(ctx, 'elements', case,
              {'restore': r, 'position': pos, 'got': seg, 'want': want[pos:pos + c]},
              _classify(cfg, cuts, r, seg, want, pos, c, None, 'long-chain-'))
        return
      pos += len(seg)
      where = 'state'
      state = it.state
      where = 'transport-' + xf
      state = L.transport(state, xf)
      where = 'from_state'
      how = api if api != 'mixed' else rng.choice(APIS)
      if pipe:
        it = (p.make().iterate().from_state(state) if how.startswith('root')
              else it.from_state(state))
      else:
        cur_ds, it = _restore_source(how, root, cur_ds, it, state)
      r = r_next
      ctx.count('long_chain_restores')
      where = 'state-read-back'
      back = it.state
      depth = L.state_depth(back)
      if not law_broken:
        # one report per case; the chain goes on to see what the growth leads to
        verdict = check_state_law(ctx, case, cfg, r, state, back, cls)
        law_broken = verdict != 'ok'
        grew = verdict == 'grew'
      else:
        ctx.count('state_idempotence_checks')
    where = 'drain'
    rest, _ = L.drain(it) if pipe else (list(it), None)
    rest = L.norm(rest)
    got_agg = L.norm_agg(it.agg_result) if pipe else None
  except Exception as e:  # pylint: disable=broad-exception-caught
    # Input class: SequenceDataSource family and the states of THIS chain were seen
    # growing by default root levels; symptom: the recursion limit.
    if seq_family and grew and isinstance(e, RecursionError):
      mech = K_GROW
    else:
      mech = f'{cls}-{where}-raises-{type(e).__name__}'
    _viol(ctx, 'exception', case,
          {'where': where, 'after_restores': r, 'depth_of_the_last_state': depth,
           'delivered_so_far_all_correct': pos, 'err': f'{type(e).__name__}: {str(e)[:120]}'},
          mech)
    return
  if rest != want[pos:]:
    _viol(ctx, 'elements', case,
          {'restore': r, 'position': pos, 'got': rest[:20], 'want': want[pos:][:20]},
          _classify(cfg, cuts, r, rest, want, pos, None, None, 'long-chain-'))
  elif pipe and got_agg != want_agg:
    _viol(ctx, 'aggregate', case, {'got': got_agg, 'want': want_agg},
          f'{cls}-final-aggregate-differs')


def long_cases(rng, index, thorough):
  """Per chunk: one bare SequenceDataSource chain of > 1000 restores, pipelines of
  300 restores (plain and with a deep-copied state), then seeded random chains of
  100-400 restores over all source kinds, bare and inside a pipeline."""
  S = lambda n, path=(), **kw: dict(
      {'kind': 'seq', 'n': n, 'cont': 'list', 'path': [list(q) for q in path]}, **kw)
  sharded = index % 2 == 1
  cases = [
      {'part': 'long', 'wrap': 'bare', 'cycles': 1100, 'xf': 'none',
       'src': S(2600, [(1, 2)]) if sharded else S(1300),
       'api': ('cur.it', 'mixed', 'root.it', 'cur.ds')[index % 4]},
      {'part': 'long', 'wrap': 'pipe', 'cycles': 300, 'xf': 'none',
       'src': S(380) if sharded else S(760, [(0, 2)]),
       'shape': LONG_SHAPES[index % 4], 'agg': ('inplace', 'functional')[index % 2],
       'api': ('cur.it', 'root.it', 'mixed')[index % 3]},
      {'part': 'long', 'wrap': 'pipe', 'cycles': 300, 'xf': ('deepcopy', 'pickle')[index % 2],
       'src': S(380), 'shape': LONG_SHAPES[(index + 1) % 4], 'agg': 'functional',
       'api': 'mixed'},
      {'part': 'long', 'wrap': ('bare', 'pipe')[index % 2], 'cycles': 250, 'xf': XFS[index % 3],
       'src': {'kind': 'iter', 'n': 640 if sharded else 320, 'cont': ITER_CONTS[index % 4],
               'path': [[1, 2]] if sharded else []},
       'shape': LONG_SHAPES[(index + 2) % 4], 'agg': 'inplace', 'api': 'mixed'},
  ]
  for _ in range(10 if not thorough else 60):
    kind = rng.choice(['seq', 'seq', 'seqs', 'iter'])
    cycles = rng.randint(100, 400)
    k = rng.choice([1, 1, 2, 3])
    n = (cycles + rng.randint(-40, 60)) * k
    cfg = {'kind': kind, 'n': n, 'cont': 'list', 'path': []}
    if kind == 'iter':
      cfg['cont'] = rng.choice(L.ITER_CONTAINERS)
      if k > 1:
        cfg['path'] = [[rng.randrange(k), k]]
    else:
      cfg['cont'] = rng.choice(['list', 'range', 'ra', 'tuple'])
      if kind == 'seqs':
        a = rng.randint(0, n)
        cfg['split'] = rng.choice([[a, n - a], [a // 2, 0, n - a // 2]])
      if k > 1:
        cfg['path'] = [[rng.randrange(k), k]]
        if rng.random() < 0.3:
          cfg['path'].append([rng.randrange(2), 2])
    case = {'part': 'long', 'src': cfg, 'cycles': cycles,
            'xf': rng.choice(XFS), 'api': rng.choice(['mixed', 'mixed', 'cur.it', 'root.it']),
            'wrap': rng.choice(['bare', 'pipe'])}
    if case['wrap'] == 'pipe':
      case['shape'] = rng.choice(LONG_SHAPES)
      case['agg'] = rng.choice(['inplace', 'functional'])
    cases.append(case)
  for case in cases:
    case['aseed'] = rng.randrange(1 << 30)
  return cases


def plan(tier, seed):
  specs = []
  thorough = tier == 'thorough'
  # ---- part A, exhaustive sub-space (identical in both tiers) ----------------
  items, weights = [], []
  for n in range(0, 11):
    for cfg in src_configs_exhaustive(n):
      items.append({'cfg': cfg, 'max_g': 3, 'full3': thorough})
      weights.append(
          _case_count(len(L.model_stream(cfg)), 3, len(APIS), thorough) + 50)
    for cfg in src_configs_rotating(n):
      items.append({'cfg': cfg, 'max_g': 3, 'apis': ['root.ds', 'cur.it']})
      weights.append(_case_count(len(L.model_stream(cfg)), 3, 2) + 50)
  if thorough:
    # larger n: plain + one shard, all cut lists up to 3 generations, 2 APIs
    for n in range(11, 17):
      for cfg in ({'kind': 'seq', 'n': n, 'cont': 'list', 'path': []},
                  {'kind': 'iter', 'n': n, 'cont': 'list', 'path': []},
                  {'kind': 'iter', 'n': n, 'cont': 'range', 'path': [[1, 2]]},
                  {'kind': 'seq', 'n': n, 'cont': 'ra', 'path': [[0, 2]]}):
        items.append({'cfg': cfg, 'max_g': 3, 'apis': ['root.ds', 'cur.it']})
        weights.append(_case_count(len(L.model_stream(cfg)), 3, 2) + 50)
  for group in _pack(items, weights, 40 if thorough else 20):
    specs.append({'mode': 'src', 'items': group})
  # ---- ignore_error sources, multiplex -----------------------------------------
  for n in range(1, 9 if not thorough else 11):
    specs.append({'mode': 'fail', 'n': n})
  specs.append({'mode': 'mux', 'ns': [0, 1, 2, 3, 4, 5, 6] + ([7, 8, 9] if thorough else [])})
  # ---- part B: pipelines -----------------------------------------------------------
  srcs = pipe_sources()
  items, weights = [], []
  for si, (cfg, mk, max_g) in enumerate(srcs):
    for shape in PIPE_SHAPES + L.KEYPATH_SHAPES:
      items.append({'src_index': si, 'shape': shape})
      weights.append(len(pipe_cases_for(cfg, mk, max_g, shape)))
  for group in _pack(items, weights, 24):
    specs.append({'mode': 'pipe', 'items': group})
  # ---- part C: threads ----------------------------------------------------------------
  nthr = 16 if not thorough else 48
  per = 21 if not thorough else 150
  for j in range(nthr):
    specs.append({'mode': 'thr', 'index': j, 'count': per, 'rseed': seed})
  # ---- re-batching between source and consumer ----------------------------------------
  for j in range(2 if not thorough else 8):
    specs.append({'mode': 'rebatch', 'index': j, 'rseed': seed,
                  'count': 400 if not thorough else 4000})
  # ---- long chains of successive restores ---------------------------------------------------
  for j in range(4 if not thorough else 8):
    specs.append({'mode': 'long', 'index': j, 'rseed': seed})
  # ---- seeded random larger cases ---------------------------------------------------------
  nrand = 8 if not thorough else 32
  for j in range(nrand):
    specs.append({'mode': 'random', 'index': j, 'rseed': seed,
                  'count': 1500 if not thorough else 60000})
  # One chunk of every mode first, so that the first recorded witnesses (and the
  # replay files the runner writes) cover every part; then the heavy ones.
  first, rest, seen_modes = [], [], set()
  for sp in sorted(specs, key=lambda sp: sp['mode'] != 'pipe'):
    if sp['mode'] in seen_modes:
      rest.append(sp)
    else:
      seen_modes.add(sp['mode'])
      first.append(sp)
  rest.sort(key=lambda sp: sp['mode'] not in ('long', 'src', 'random'))
  return first + rest


def _run_random(ctx, spec):
  thorough = spec['tier'] == 'thorough'
  rng = random.Random(spec['rseed'] * 1000003 + spec['index'] * 7919 + 17)
  nmax, max_g, depth = (40, 5, 3) if thorough else (20, 4, 3)
  for t in range(spec['count']):
    sel = t % 10
    if sel < 5:
      check_src_case(ctx, random_src_case(rng, nmax, max_g, depth))
    elif sel < 6:
      check_src_case(ctx, random_fail_case(rng, nmax))
    elif sel < 9:
      check_pipe_case(ctx, random_pipe_case(rng, min(nmax, 24), min(max_g, 3)))
    else:
      kinds = [rng.choice(['iter', 'iter', 'seq']) for _ in range(rng.randint(2, 4))]
      cfgs = [{'kind': kd, 'n': rng.randint(0, 9), 'cont': 'list',
               'base': 100 + 1000 * si,
               'path': [] if rng.random() < 0.5 else [[rng.randrange(2), 2]]}
              for si, kd in enumerate(kinds)]
      total = sum(len(L.model_stream(c)) for c in cfgs)
      g = 1 if 'seq' in kinds else rng.randint(1, 4)
      cuts, remaining = [], total
      for _ in range(g):
        c = rng.randint(0, remaining)
        cuts.append(c)
        remaining -= c
      check_mux_case(ctx, {'part': 'mux', 'srcs': cfgs, 'cuts': cuts,
                           'xf': [rng.choice(XFS) for _ in cuts]})


def run_chunk(ctx, spec):
  mode = spec['mode']
  if mode == 'src':
    for item in spec['items']:
      run_src_cfg(ctx, item['cfg'], item['max_g'],
                  tuple(item.get('apis') or APIS), bool(item.get('full3')))
  elif mode == 'fail':
    for cfg in fail_configs(spec['n']):
      length = len(L.model_stream(cfg))
      for c in range(length + 1):
        for a, api in enumerate(APIS):
          check_src_case(ctx, {'part': 'src', 'src': cfg, 'cuts': [c],
                               'apis': [api], 'xf': [XFS[(a + c) % 3]]})
  elif mode == 'mux':
    for n in spec['ns']:
      for case in mux_cases(n):
        check_mux_case(ctx, case)
  elif mode == 'pipe':
    srcs = pipe_sources()
    for item in spec['items']:
      cfg, mk, max_g = srcs[item['src_index']]
      cases = pipe_cases_for(cfg, mk, max_g, item['shape'])
      for case in cases:
        check_pipe_case(ctx, case)
      if (cases and not cfg.get('fail') and not mk
          and not L.upstream_agg_keys(item['shape'])):
        length = len(L.model_stream(cfg))
        modes = ['inplace', 'functional']
        if item['shape'] == 'single' and length:
          modes.append('meanvar')  # non-empty streams only (mean of nothing = NaN)
        for aggmode in modes:
          for c in sorted({0, 1, length // 2, length}):
            if c <= length:
              check_double_restore_case(
                  ctx, {'part': 'dbl', 'src': cfg, 'shape': item['shape'],
                        'agg': aggmode, 'cut': c})
  elif mode == 'thr':
    rng = random.Random(spec['rseed'] * 99991 + spec['index'] * 131 + 5)
    for case in thread_cases(rng, spec['count'], spec['tier'] == 'thorough'):
      check_thread_case(ctx, case)
  elif mode == 'random':
    _run_random(ctx, spec)
  elif mode == 'long':
    rng = random.Random(spec['rseed'] * 65537 + spec['index'] * 257 + 9)
    for case in long_cases(rng, spec['index'], spec['tier'] == 'thorough'):
      check_long_case(ctx, case)
  elif mode == 'rebatch':
    rng = random.Random(spec['rseed'] * 31337 + spec['index'] * 17 + 3)
    for case in rebatch_cases(rng, spec['count']):
      check_rebatch_case(ctx, case)
  else:
    raise ValueError(mode)


def run_case(ctx, case):
  part = case.get('part')
  if part == 'src':
    check_src_case(ctx, case)
  elif part == 'mux':
    check_mux_case(ctx, case)
  elif part == 'pipe':
    check_pipe_case(ctx, case)
  elif part == 'thr':
    check_thread_case(ctx, case)
  elif part == 'rebatch':
    check_rebatch_case(ctx, case)
  elif part == 'dbl':
    check_double_restore_case(ctx, case)
  elif part == 'long':
    check_long_case(ctx, case)
  else:
    raise ValueError(f'unknown case part {part!r}')
