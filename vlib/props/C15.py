"""C15 - the prefetching generator protocol delivers the generator faithfully.

E2: PrefetchedCourierServer handlers invoked directly by controlled request
threads while the shimmed prefetch thread runs under the deterministic
scheduler.  In the 'shutdown_supervised' scenarios the server's supervising
entry point (start(), or run_until_shutdown() called directly) is a controlled
thread as well and the state it leaves behind when it returns is judged.  E4/E3 (end to end through the transport stand-in with the real
client loop) lives in mode 'e2e'.
"""

from __future__ import annotations

import random

from vlib import runner

ID = 'C15'
LEVEL = 'exploration'
EXTRA_PATH = ('vlib/fakecourier',)
RULE = (
    'a case is (prefetch size 1-4, requested batch size 1-5, generator length 0-8, failure at every '
    'position or none, optional re-initialisation after r requests, optional second requester that '
    're-initialises / stops the prefetch / shuts down after r requests, or re-initialises while a '
    'request of the first client is parked on a slow element of the first generator (gate at every '
    'element position, opened when the other initialisation is issued or has stopped the first '
    'generator), or asks for the shutdown of a server that is driven by its own entry point - start() '
    'or run_until_shutdown() called directly - after r requests, schedule). Non-trivial = at '
    'least 2 next-batch requests and the prefetch thread was pre-empted against a request at '
    'statement level; distinct = (configuration, schedule trace) hash')
ASSUMPTIONS = [
    'the server object is built on the transport stand-in but not started; its bound handlers are invoked directly (what Courier would do on its handler threads)',
    'a client stops requesting at the first terminal marker (end marker or exception), like CourierClient.async_iterate',
    'with two concurrent requesters on one generator each sees an increasing subsequence; exactly-once is checked on the union',
    'the server cannot tell clients apart: a request ISSUED after another client installed a new generator is served from the new generator (not flagged); only a response that itself spans the replacement is judged (no terminal marker and not a full batch, or an end marker of a queue it did not dequeue from)',
    'scheduler assumptions as in C04',
    'shutdown_supervised: run_until_shutdown() is a public method and start() merely runs it in a thread, so both are valid ways to drive a server; the shutdown is carried out when the entry point has returned (start(): when its thread has ended); only the state at that moment and requests ISSUED afterwards are judged; a next-batch request is only issued afterwards if the transport server is still started (otherwise no request could reach the handler); "the previous one" is the generator installed when the shutdown was requested: a generator installed afterwards by an initialisation that was already in flight is recorded as an observation only',
]
REQUIRED = ['schedules', 'line_preemptions', 'batches', 'undisturbed_runs', 'reinit_runs',
            'concurrent_runs', 'failure_runs', 'server_threading_shim', 'blocked_reinit_runs',
            'requests_in_flight_at_reinit', 'generator_replaced_during_request',
            'supervised_shutdown_runs', 'direct_entry_runs', 'start_entry_runs',
            'shutdown_requested_with_generator_unfinished']
# Root cause key of the audited defect: _next_batch reads self._generator for
# get_batch() and again for the terminal-marker decision without the generator lock.
K_REINIT_MIX = 'reinit-mixes-generators-unlocked-second-read'
# CourierServer._shutdown_server is guarded by has_started, which also requires the
# thread that only start() creates: run_until_shutdown() called directly returns
# without running the shutdown callback and without stopping the transport server.
K_DIRECT = 'run-until-shutdown-direct-leaves-prefetch-running'
CHUNK_TIMEOUT_S = {'quick': 300, 'thorough': 3000}


def gen_config(rng):
  n = rng.choice([0, 1, 2, 3, 4, 5, 6, 8])
  return {'prefetch': rng.choice([1, 2, 2, 3, 4]), 'batch': rng.choice([1, 2, 2, 3, 4, 5]),
          'gens': [{'n': n}, {'n': rng.choice([0, 1, 3, 5])}]}


def variants(cfg, rng):
  out = []
  n = cfg['gens'][0]['n']
  out.append(dict(cfg))
  for at in range(n + 1):
    g = [dict(cfg['gens'][0], fail_at=at), cfg['gens'][1]]
    out.append(dict(cfg, gens=g))
  max_req = n // cfg['batch'] + 2
  for r in range(0, max_req + 1):
    out.append(dict(cfg, reinit_at=r))
    for kind in ('init', 'stop_prefetch', 'shutdown'):
      out.append(dict(cfg, r2={'kind': kind, 'after': r}))
    for entry in ('start', 'direct'):
      out.append(dict(cfg, r2={'kind': 'shutdown_supervised', 'after': r, 'entry': entry}))
  # a request of R1 parked on a slow element of g0 while R2 initialises g1
  if n:
    for gate_at in range(n + 1):
      g = [dict(cfg['gens'][0], gate_at=gate_at), cfg['gens'][1]]
      for after in sorted({0, gate_at // cfg['batch']}):
        out.append(dict(cfg, gens=g, r2={'kind': 'init_while_blocked', 'after': after,
                                         'gate': rng.choice(['issue', 'stopped'])}))
  # failure in the second generator after a re-initialisation
  n1 = cfg['gens'][1]['n']
  out.append(dict(cfg, reinit_at=1, gens=[cfg['gens'][0], {'n': n1, 'fail_at': n1 // 2}]))
  return out


def plan(tier, seed):
  n_cfg, n_sched = (64, 6) if tier == 'quick' else (600, 30)
  chunks = 32 if tier == 'quick' else 64
  return [{'chunk': i, 'chunks': chunks, 'n_cfg': n_cfg, 'n_sched': n_sched,
           'rseed': seed, 'mode': 'e2'} for i in range(chunks)]


def scenario(case):
  if case.get('r2'):
    return 'r2-' + case['r2']['kind']
  if case.get('reinit_at') is not None:
    return 'reinit'
  if case['gens'][0].get('fail_at') is not None:
    return 'failure'
  return 'plain'


def mechanism(case, kind, detail):
  # Audited defect: the entry point was run_until_shutdown() called directly, it has
  # returned, and the shutdown callback was never invoked (state, read by the harness).
  if (kind in ('prefetch_running_after_shutdown_returned', 'elements_served_after_shutdown_returned')
      and isinstance(detail, dict) and (case.get('r2') or {}).get('kind') == 'shutdown_supervised'
      and case['r2'].get('entry') == 'direct' and detail.get('shutdown_callback_calls') == 0):
    return K_DIRECT
  # Audited defect: only when the case has a second client initialising a generator
  # and the judged response spans the replacement of the generator object.
  if (kind in ('short_batch_without_marker', 'end_marker_of_other_generator')
      and isinstance(detail, dict) and detail.get('replaced')
      and (case.get('r2') or {}).get('kind') in ('init', 'init_while_blocked')):
    return K_REINIT_MIX
  # Known finding: the partially filled batch is dropped when the generator
  # failure arrives while the blocking batch get is waiting.  Signature: the
  # received elements are a prefix of the expected ones and fewer than one
  # batch is missing.
  if kind == 'elements_lost_before_failure' and isinstance(detail, dict):
    got, want = detail.get('got', []), detail.get('want', [])
    lost = len(want) - len(got)
    if (case['batch'] > 1 and 0 < lost < case['batch']
        and [tuple(x) for x in want[:len(got)]] == [tuple(x) for x in got]):
      return 'prefetch-partial-batch-dropped-on-generator-failure'
  site = ''
  if kind == 'deadlock' and isinstance(detail, dict):
    sites = set()
    for name, v in detail.items():
      st = [s for s in (v.get('stack') or [])
            if s.startswith(('iter_utils.py', 'courier_server.py'))]
      who = name.split('#')[0].split('_')[0]
      sites.add(f"{who}:{st[-1].split(':')[-1] if st else '?'}")
    site = '[' + ','.join(sorted(sites)) + ']'
  return f'prefetch:{scenario(case)}:{kind}{site}'


def run_one(ctx, case):
  from vlib import c15work
  sched, log, info = c15work.run_prefetch_case(case)
  ctx.count('schedules')
  ctx.count('line_preemptions', sched.line_preemptions)
  ctx.count('switches', sched.switches)
  ctx.count('batches', sum(1 for e in log if e[0] == 'batch'))
  if 'threading' in info['server_shims']:
    ctx.count('server_threading_shim')
  sc = scenario(case)
  ctx.count({'plain': 'undisturbed_runs', 'failure': 'failure_runs',
             'reinit': 'reinit_runs'}.get(sc, 'concurrent_runs'))
  if sc == 'r2-shutdown_supervised':
    ctx.count('supervised_shutdown_runs')
    ctx.count('direct_entry_runs' if case['r2']['entry'] == 'direct' else 'start_entry_runs')
    if info.get('unfinished_at_shutdown_request'):
      # there was a previous generator to stop: it had not been consumed yet
      ctx.count('shutdown_requested_with_generator_unfinished')
  for o in info.get('observations', []):
    ctx.observe(o, {k: v for k, v in case.items() if k != 'sched_seed'})
  if sc == 'r2-init_while_blocked':
    ctx.count('blocked_reinit_runs')
    ctx.count('requests_in_flight_at_reinit', info.get('in_flight_at_reinit', 0))
  ctx.count('generator_replaced_during_request',
            sum(1 for e in log if e[0] == 'batch' and len(e) > 3 and e[3].get('replaced')))
  cfg_key = {k: v for k, v in case.items() if k != 'sched_seed'}
  n_req = sum(1 for e in log if e[0] == 'batch')
  ctx.case((runner.stable_hash(cfg_key), sched.trace_hash()),
           n_req >= 2 and sched.line_preemptions >= 1)
  if sched.status in ('watchdog', 'step_bound'):
    ctx.inconclusive_case(sched.status, case)
    return
  for kind, detail in c15work.analyse(case, sched, log, info):
    ctx.violation(kind, case, {'detail': detail, 'log_tail': log[-14:]},
                  mechanism=mechanism(case, kind, detail))
  if len(ctx.samples) < 3:
    ctx.sample({'case': case, 'events': log[:20]})


def run_chunk(ctx, spec):
  rng = random.Random(spec['rseed'] * 1000003 + 53)
  configs = [gen_config(rng) for _ in range(spec['n_cfg'])]
  mine = [c for i, c in enumerate(configs) if i % spec['chunks'] == spec['chunk']]
  srng = random.Random(spec['rseed'] * 7919 + spec['chunk'] + 17)
  srng2 = random.Random(spec['rseed'] * 7919 + spec['chunk'] + 18)
  for cfg in mine:
    for variant in variants(cfg, srng):
      # (the later added scenarios draw from their own generator: the older cases keep
      # their schedules)
      vrng = srng2 if scenario(variant) == 'r2-shutdown_supervised' else srng
      for j in range(spec['n_sched']):
        case = dict(variant)
        case['sched_seed'] = vrng.randrange(1 << 30)
        r = j % 3
        case['strategy'] = 'pct' if r == 2 else 'random'
        case['p_line'] = [0.08, 0.3, 0.0][r]
        case['p_sync'] = [0.35, 0.6, 0.0][r]
        run_one(ctx, case)


def run_case(ctx, case):
  run_one(ctx, case)
