"""C08 - Pipeline operators route data exactly as a reference interpreter.

Every case builds a real `TreeTransform` from a JSON operator-chain spec through
the public API, runs `pipeline.make().iterate(data)` and compares with the
independent interpreter `vlib/oracles/pipeline_interp.py` (DESIGN section 4 / C08):

  stream      output stream (strict, type-exact comparison)
  inputs      deep snapshot and identity of every node of the caller's inputs
  sinks       every sink saw exactly the forwarded records, once, and was closed
  invalid     deliberately invalid key combinations must raise when built

Known-defect triggers (kept firing, classified by `mechanism`):
  filter-before-any-output-key           `TreeTransform().filter(fn)` as first operator
  skip-as-first-stored-output-of-apply   apply/select with output_keys=(SKIP, 'a')
  batch-after-skip-output-key            apply(output_keys=('a', SKIP)).batch(n)
  batch-after-sink-mixes-self-with-keys  apply(output_keys=('a','b')).sink(s).batch(n)
  sink-keyword-input-keys                sink(s, input_keys=dict(p='a'))
  falsy-index-0-output-key-of-assign     assign(Key.Index(0), fn=f) -> 'should have output_keys'
  falsy-index-0-output-key-of-select     select('a', output_keys=Key.Index(0)) stores under 'a'
  invalid-accepted:dup_assign_same_call  assign(('c','c'), fn=f) builds silently
  aggregate-skip-output-key-read-back-at-get-result   chain.agg(fn, output_keys=('s', SKIP)):
                                         builds, fails at agg_result after the whole stream
  repeated-skip-rejected-as-duplicate-output-key      assign((SKIP, 'b', SKIP), fn=f3), an
                                         aggregate with two SKIPs, stacked aggregates with a
                                         SKIP each: refused as "duplicate output keys"
Random chains never contain a trigger (so the rest stays sensitive); a separate
'triggers' chunk builds chains with exactly one trigger each.

'aggskip' chunks: a random chain followed by 1-3 stacked aggregates of multi-output
user aggregates whose output_keys hold SKIP at any position (classes: control without
SKIP / exactly one SKIP / two or more SKIPs in total), and chains ending in an assign
of a 3 / 4-output function with two or more SKIPs.  Oracle: stream = reference stream,
agg_result = exactly the kept outputs with the brute-force values
(`pipeline_interp.run_aggregates`).  A rejection when built is accepted for aggregates
with SKIP if it is consistent (the first such aggregate alone with one SKIP is refused
too).  Mechanisms are decided by the input class and differential twins (fresh names in
place of SKIP / of all SKIPs but one), never by the error text.
"""

from __future__ import annotations

import copy
import random

ID = 'C08'
LEVEL = 'exploration'
RULE = (
    'a case is (operator chain of 1-6 operators from select/apply/assign/filter/'
    'batch/sink, key specs, record stream of 0-6 records, feed kind), generated '
    'from random.Random(seed, chunk, index) by vlib/pipeline_gen.py, which tracks '
    'the record schema through the chain so that every key resolves; plus '
    'deliberately invalid builds (11 kinds, each with a valid twin); plus (aggskip) '
    'a chain of 0-4 operators followed by 1-3 stacked multi-output aggregates with '
    'SKIP at any output position (none / one / several SKIPs) or by an assign with '
    '>= 2 SKIPs; non-trivial = '
    '>= 2 operators, >= 2 records and a key shape other than a single key/SELF; '
    'distinct = hash of chain + records + feed')
ASSUMPTIONS = [
    'only keys that resolve in every record (no key-routing errors); functions '
    'come from a fixed pure pool (digest, tuple, dict, list, namedtuple returns)',
    'assign only where the library documents it as valid: keys not produced since '
    'the last apply (select/assign/dict-key names count, also SKIP) and never '
    'after an operator whose tracked output is SELF (apply/select to SELF, sink): '
    'the library rejects these at build time (over-rejection is observed, not judged)',
    'batch(n) only where the columns are defined by the documentation: tracked '
    'output keys are plain names that cover the whole dict record, or no/SELF '
    'tracked keys (whole record batched)',
    'batch options (fn_batch_size/batch_size) only on list columns of equal '
    'length per record with row-wise functions and as many outputs as output keys; '
    'assign with batch options only when batch_size equals the (constant) number '
    'of rows per record, which is the 1:1 alignment the upstream tests show',
    'select() without explicit output keys only for plain/string-path/SELF keys '
    '(its default stores under the input key)',
    'num_threads=0 (threading belongs to C03/C12/C13); feeds: list, iterator, '
    'generator, SequenceDataSource, .data_source()',
    'apply/select with SELF mixed with other output keys is only observed (the '
    'library checks it for assign and aggregates only)',
    'aggregates (aggskip): as many plain-name output keys as outputs (a tuple stored '
    'under one key / SELF is not judged), every aggregate keeps at least one output, '
    'kept names distinct over the stack, no slicers (C02), num_threads=0; a build-time '
    'rejection of aggregates with SKIP is accepted when the same chain with only the '
    'first such aggregate and a single SKIP is rejected as well',
    'assign with several SKIPs only on dict records, plain fresh names, >= 1 kept key',
]
SHAPES = ['single', 'tuple', 'path', 'index', 'kwargs', 'dictout', 'SELF', 'SKIP',
          'literal']
OPS = ['select', 'apply', 'assign', 'filter', 'batch', 'sink']
INVALID_KINDS = ['dup_assign_prev', 'dup_assign_same_call', 'dup_output_same_call', 'self_mixed',
                 'assign_no_keys', 'fbs_without_bs', 'negative_size',
                 'kwargs_without_fn', 'op_after_aggregate', 'dup_slice_name',
                 'chain_dup_name', 'chain_dup_agg_keys', 'fuse_ops_behind_aggregate']
REQUIRED = (['stream_checks', 'input_identity_checks', 'sink_checks',
             'rebatch_checks', 'selftest_checks', 'invalid_build_checks',
             'invalid_twin_checks', 'trigger_chains', 'array_twin_checks',
             'agg_result_checks', 'agg_cases_control', 'agg_cases_one_skip',
             'agg_cases_repeated_skip', 'agg_stacked_cases',
             'assign_multi_skip_checks']
            + ['rebatch_apply', 'rebatch_assign', 'rebatch_select', 'rebatch_batch']
            + [f'op_{o}' for o in OPS] + [f'key_{s}' for s in SHAPES]
            + [f'invalid_{k}' for k in INVALID_KINDS])
CHUNK_TIMEOUT_S = {'quick': 240, 'thorough': 3000}
FEEDS = ['list', 'list', 'iter', 'gen', 'seq_ds', 'data_source']


def plan(tier, seed):
  n_chunks, per = (32, 2500) if tier == "quick" else (64, 28000)
  specs = [{'mode': 'selftest'}]
  for c in range(2 if tier == 'quick' else 8):
    specs.append({'mode': 'aggskip', 'rseed': seed, 'chunk': c,
                  'count': 420 if tier == 'quick' else 3000})
  for c in range(n_chunks):
    specs.append({'mode': 'chains', 'rseed': seed, 'chunk': c, 'count': per})
  specs.append({'mode': 'triggers', 'rseed': seed,
                'count': 60 if tier == 'quick' else 600})
  specs.append({'mode': 'invalid', 'rseed': seed,
                'count': 330 if tier == 'quick' else 6600})
  return specs


# ---------------------------------------------------------------------------
# Comparison helpers
# ---------------------------------------------------------------------------


def same(a, b):
  """Type-exact deep equality (a namedtuple is not a tuple, True is not 1)."""
  if type(a) is not type(b):  # pylint: disable=unidiomatic-typecheck
    return False
  if isinstance(a, dict):
    return len(a) == len(b) and all(
        any(type(k) is type(k2) and k == k2 for k2 in b) and same(v, b[k])  # pylint: disable=unidiomatic-typecheck
        for k, v in a.items())
  if isinstance(a, (list, tuple)):
    return len(a) == len(b) and all(same(x, y) for x, y in zip(a, b))
  return a == b


def nodes(obj, out=None):
  """All container nodes of a nested value (kept alive for identity checks)."""
  out = [] if out is None else out
  if isinstance(obj, (dict, list, tuple)):
    out.append(obj)
    for v in (obj.values() if isinstance(obj, dict) else obj):
      nodes(v, out)
  return out


def short(o, n=300):
  s = repr(o)
  return s if len(s) <= n else s[:n] + '...'


def feed_real(t, feed, records):
  """Returns an iterator of the real pipeline's output for the given feed kind."""
  from ml_metrics._src.chainables import io
  if feed == 'list':
    return t.make().iterate(records)
  if feed == 'iter':
    return t.make().iterate(iter(records))
  if feed == 'gen':
    return t.make().iterate(r for r in records)
  if feed == 'seq_ds':
    return t.make().iterate(io.SequenceDataSource(records))
  raise ValueError(feed)


def run_real(chain, records, feed, resolve_fn):
  """Builds and runs the real pipeline; returns (stream, sinks)."""
  from vlib import pipeline_gen as g
  from ml_metrics._src.chainables import transform
  if feed == 'data_source':
    t = transform.TreeTransform.new().data_source(records)
    sinks = []
    for op in chain:
      t = g.add_op(t, op, resolve_fn(op), sinks)
    return list(t.make().iterate()), sinks
  t, sinks = g.build(chain, resolve_fn)
  return list(feed_real(t, feed, records)), sinks


def diff_chain(chain, records, feed, resolve_fn):
  """Runs oracle and real pipeline; returns (problems, counts).

  problems = [(kind, detail)], empty when everything agrees.
  """
  from vlib.oracles import pipeline_interp as interp
  problems = []
  counts = {'sink_checks': 0}
  want, info = interp.run_chain(chain, records, resolve_fn)
  snapshot = copy.deepcopy(records)
  before = nodes(records)
  try:
    got, sinks = run_real(chain, records, feed, resolve_fn)
  except Exception as e:  # pylint: disable=broad-exception-caught
    cause = e.__cause__
    problems.append(('raised', {
        'error': f'{type(e).__name__}: {short(str(e), 200)}',
        'cause': None if cause is None else f'{type(cause).__name__}: {short(str(cause), 160)}',
        'want': short(want)}))
    got, sinks = None, []
  if got is not None and not same(got, want):
    problems.append(('stream_differs', {'got': short(got), 'want': short(want)}))
  if got is not None:
    sink_ops = [i for i, op in enumerate(chain) if op['op'] == 'sink']
    for sink, i in zip(sinks, sink_ops, strict=True):
      counts['sink_checks'] += 1
      want_log = info[i]['sink']
      if not same(sink.data, want_log):
        problems.append(('sink_records', {'op': i, 'got': short(sink.data),
                                          'want': short(want_log)}))
      if not sink.closed or sink.close_calls != 1 or sink.writes_after_close:
        problems.append(('sink_close', {
            'op': i, 'closed': sink.closed, 'close_calls': sink.close_calls,
            'writes_after_close': sink.writes_after_close}))
  after = nodes(records)
  if len(before) != len(after) or any(x is not y for x, y in zip(before, after)):
    problems.append(('input_identity', {'nodes_before': len(before),
                                        'nodes_after': len(after)}))
  if not same(records, snapshot):
    problems.append(('input_mutated', {'got': short(records),
                                       'want': short(snapshot)}))
  return problems, counts


def op_tags(op):
  from vlib import pipeline_gen as g
  tags = sorted(g.key_shapes(op))
  if op.get('fbs') or op.get('bs'):
    tags.append('rebatch')
  if op['op'] == 'assign' and not op.get('fn'):
    tags.append('nofn')
  return op['op'] + '[' + ','.join(tags) + ']'


def mechanism_of(chain, records, feed, resolve_fn, kind):
  """Stable key: the known trigger in the chain, else the first failing operator."""
  from vlib import pipeline_gen as g
  trig = g.chain_triggers(chain)
  if trig:
    return trig[0]
  for n in range(1, len(chain) + 1):
    try:
      problems, _ = diff_chain(chain[:n], copy.deepcopy(records), feed, resolve_fn)
    except Exception:  # pylint: disable=broad-exception-caught
      problems = [('oracle', None)]
    if problems:
      return f'unclassified:{problems[0][0]}:{op_tags(chain[n - 1])}'
  return f'unclassified:{kind}:whole-chain-only'


def check_chain_case(ctx, case, resolve_fn=None):
  """case = {'chain': [...], 'records': enc(records), 'feed': kind}."""
  from vlib import pipeline_gen as g
  resolve_fn = resolve_fn or g.resolve
  chain, feed = case['chain'], case['feed']
  records = g.dec(case['records'])
  ctx.case(('chain', chain, case['records'], feed),
           g.chain_nontrivial(chain, len(records)))
  shapes = set()
  for op in chain:
    ctx.count('op_' + op['op'])
    shapes |= g.key_shapes(op)
    if op.get('fbs') or op.get('bs') or op['op'] == 'batch':
      ctx.count('rebatch_checks')
      ctx.count('rebatch_' + op['op'])
  for s in shapes:
    ctx.count('key_' + s)
  ctx.count('feed_' + feed)
  try:
    problems, counts = diff_chain(chain, records, feed, resolve_fn)
  except Exception as e:  # pylint: disable=broad-exception-caught
    ctx.inconclusive_case(f'oracle failed: {type(e).__name__}: {e}', case)
    return
  ctx.count('stream_checks')
  ctx.count('input_identity_checks')
  ctx.count('sink_checks', counts['sink_checks'])
  if len(ctx.samples) < 2 and len(chain) >= 3:
    ctx.sample({'chain': chain, 'records': case['records'][:2], 'feed': feed})
  if problems:
    kind, detail = problems[0]
    mech = mechanism_of(chain, g.dec(case['records']), feed, resolve_fn, kind)
    ctx.count('viol:' + mech)
    detail = dict(detail, also=[k for k, _ in problems[1:]],
                  chain=[op_tags(op) for op in chain])
    ctx.violation(kind, case, detail, mechanism=mech)
    return
  try:
    array_twin(ctx, case, chain, g.dec(case['records']), feed, resolve_fn)
  except Exception as e:  # pylint: disable=broad-exception-caught
    ctx.inconclusive_case(f'array twin oracle failed: {type(e).__name__}: {e}', case)


def _plain(o):
  """ndarrays -> lists, numpy scalars -> Python scalars, containers kept."""
  if hasattr(o, 'tolist') and not isinstance(o, (list, tuple, dict, str)):
    return o.tolist()
  if isinstance(o, dict):
    return {k: _plain(v) for k, v in o.items()}
  if type(o) is list:  # pylint: disable=unidiomatic-typecheck
    return [_plain(v) for v in o]
  if type(o) is tuple:  # pylint: disable=unidiomatic-typecheck
    return tuple(_plain(v) for v in o)
  return o


def array_twin(ctx, case, chain, records, feed, resolve_fn):
  """The same chain over the same column records held in int64 ndarrays.

  Only for streams of column records (dicts of int lists) and chains that re-batch:
  the outputs, arrays turned back into lists, must be the list run's outputs.
  """
  import numpy as np
  from vlib.oracles import pipeline_interp as interp
  if not records or not all(
      isinstance(r, dict) and r and all(
          type(v) is list and v and all(type(x) is int for x in v)  # pylint: disable=unidiomatic-typecheck
          for v in r.values()) for r in records):
    return
  if not any(op.get('fbs') or op.get('bs') or op['op'] == 'batch' for op in chain):
    return
  if any(op['op'] == 'sink' for op in chain):
    return
  want, _ = interp.run_chain(chain, records, resolve_fn)
  arr = [{k: np.array(v, dtype=np.int64) for k, v in r.items()} for r in records]
  ctx.count('array_twin_checks')
  try:
    got, _ = run_real(chain, arr, feed, resolve_fn)
  except Exception as e:  # pylint: disable=broad-exception-caught
    ctx.violation('array_twin_raised', case,
                  {'error': f'{type(e).__name__}: {short(str(e), 200)}', 'want': short(want),
                   'chain': [op_tags(op) for op in chain]},
                  mechanism='array_twin:raised:' + op_tags(chain[-1]).split('[')[0])
    return
  got = _plain(got)
  if not same(got, want):
    ctx.violation('array_twin_differs', case,
                  {'got': short(got), 'want': short(want),
                   'chain': [op_tags(op) for op in chain]},
                  mechanism='array_twin:stream_differs')


def gen_chain_case(rseed, chunk, index):
  from vlib import pipeline_gen as g
  rng = random.Random(f'C08:{rseed}:{chunk}:{index}')
  _, records = g.gen_records(rng)
  n_ops = rng.choice([1, 2, 2, 3, 3, 4, 4, 5, 6])
  chain, _, _ = g.gen_chain(rng, records, n_ops)
  if not chain:
    return None
  return {'chain': chain, 'records': g.enc(records), 'feed': rng.choice(FEEDS)}


def gen_trigger_case(rseed, index):
  from vlib import pipeline_gen as g
  rng = random.Random(f'C08T:{rseed}:{index}')
  trigger = g.TRIGGERS[index % len(g.TRIGGERS)]
  shape = 'cols' if rng.random() < 0.2 else rng.choice(['dict', 'list', 'int'])
  if trigger == 'falsy-index-0-output-key-of-assign':
    shape = 'list'
  _, records = g.gen_records(rng, shape=shape, n=rng.randint(2, 5))
  chain = g.gen_trigger_chain(rng, records, trigger)
  if not chain:
    return None
  if trigger in g.UNTRIGGERED:
    if g.chain_triggers(chain):
      return None
  elif g.chain_triggers(chain) != [trigger]:
    return None
  return {'chain': chain, 'records': g.enc(records), 'feed': 'list'}


# ---------------------------------------------------------------------------
# Invalid combinations must be rejected when built
# ---------------------------------------------------------------------------


class _Agg:
  """Minimal aggregatable (non-tuple result)."""

  def create_state(self):
    return [0, 0]

  def update_state(self, state, inputs):
    return [state[0] + 1, state[1] + 1]

  def merge_states(self, states):
    return [sum(s[0] for s in states), sum(s[1] for s in states)]

  def get_result(self, state):
    return state[0]


def _f(x):
  return x


def _f2(x):
  return x, x


VARIANTS = {
    'dup_assign_prev': ['tuple_then_single', 'tuple_then_dict', 'dict_then_tuple',
                        'tuple_dict_then_tuple', 'tuple_then_tuple_dict',
                        'apply_then_assign', 'select_then_assign',
                        'assign_filter_assign', 'path_key'],
    'dup_assign_same_call': ['plain_twice', 'dict_name_and_plain', 'list_form'],
    'dup_output_same_call': ['apply_twice', 'apply_dict_name_and_plain', 'select_twice',
                             'apply_skip_twice_is_valid'],
    'self_mixed': ['self_first', 'self_last', 'assign_then_self', 'self_then_assign'],
    'assign_no_keys': ['no_keys', 'empty_tuple', 'after_assign'],
    'fbs_without_bs': ['apply', 'assign'],
    'negative_size': ['apply_bs', 'apply_fbs', 'assign_bs', 'select_bs', 'batch'],
    'kwargs_without_fn': ['select', 'apply_none', 'assign_nofn'],
    'op_after_aggregate': ['apply', 'assign', 'select', 'filter', 'sink', 'batch',
                           'agg', 'aggregate'],
    'dup_slice_name': ['single', 'cross', 'named'],
    'chain_dup_name': ['plain', 'with_agg'],
    'chain_dup_agg_keys': ['chained', 'fused', 'add_aggregate'],
    'fuse_ops_behind_aggregate': ['unnamed', 'same_name', 'select_child'],
}


def build_invalid(case, valid):
  """Builds the invalid combination (valid=False) or its valid twin."""
  from vlib import pipeline_gen as g
  from ml_metrics._src.chainables import transform, tree
  T = transform.TreeTransform  # pylint: disable=invalid-name
  Key = tree.Key  # pylint: disable=invalid-name
  kind, var = case['invalid'], case['variant']
  a, b, c, z = case['names']
  k = case['k']
  dup = (lambda good: good) if valid else (lambda good: a)

  if kind == 'dup_assign_prev':
    if var == 'tuple_then_single':
      t = T().assign((a, b), fn=_f2).assign(dup(z), fn=_f)
    elif var == 'tuple_then_dict':
      t = T().assign((a, b, c), fn=_f).assign({dup(z): 'o1', 'zz': 'o2'}, fn=_f)
    elif var == 'dict_then_tuple':
      t = T().assign({a: 'o1', b: 'o2'}, fn=_f).assign((dup(z), 'zz'), fn=_f2)
    elif var == 'tuple_dict_then_tuple':
      t = T().assign(({a: 'o1', b: 'o2'}, c), fn=_f2).assign((dup(z), 'zz'), fn=_f2)
    elif var == 'tuple_then_tuple_dict':
      t = T().assign((a, b, c), fn=_f).assign(({dup(z): 'o1'}, 'zz'), fn=_f2)
    elif var == 'apply_then_assign':
      t = T().apply(_f2, output_keys=(a, b)).assign(dup(z), fn=_f)
    elif var == 'select_then_assign':
      t = T().select((a, b)).assign(dup(z), fn=_f)
    elif var == 'assign_filter_assign':
      t = T().assign(a, fn=_f).filter(_f, input_keys=a).assign(dup(z), fn=_f)
    else:
      key = Key.new(a, b)
      t = T().assign(key, fn=_f).assign(Key.new(z, b) if valid else Key.new(a, b), fn=_f)
  elif kind == 'dup_assign_same_call':
    if var == 'plain_twice':
      t = T().assign((a, dup(z)), fn=_f2)
    elif var == 'dict_name_and_plain':
      t = T().assign(({a: 'o1'}, dup(z)), fn=_f2)
    else:
      t = T().assign([b, a, dup(z)], fn=_f)
  elif kind == 'dup_output_same_call':
    if var == 'apply_twice':
      t = T().apply(_f2, output_keys=(a, dup(z)))
    elif var == 'apply_dict_name_and_plain':
      t = T().apply(_f2, output_keys=({a: 'o1'}, dup(z)))
    elif var == 'select_twice':
      t = T().select(('x', 'y'), output_keys=(a, dup(z)))
    else:
      # two dropped outputs are fine; a stored key repeated is not
      t = T().apply(_f, output_keys=(Key.SKIP, Key.SKIP, a, dup(z)))
  elif kind == 'self_mixed':
    s = z if valid else Key.SELF
    if var == 'self_first':
      t = T().assign((s, a), fn=_f2)
    elif var == 'self_last':
      t = T().assign((a, b, s), fn=_f)
    elif var == 'assign_then_self':
      t = T().assign((a, b), fn=_f2).assign(s, fn=_f)
    else:
      t = T().assign(s, fn=_f).assign((a, b), fn=_f2)
  elif kind == 'assign_no_keys':
    keys = {'no_keys': None, 'empty_tuple': (), 'after_assign': None}[var]
    t = T().assign(a, fn=_f) if var == 'after_assign' else T()
    if valid:
      t = t.assign(z, fn=_f)
    else:
      t = t.assign(fn=_f) if keys is None else t.assign(keys, fn=_f)
  elif kind == 'fbs_without_bs':
    kw = dict(fn_batch_size=k, batch_size=k if valid else 0)
    t = T().apply(_f, **kw) if var == 'apply' else T().assign(a, fn=_f, **kw)
  elif kind == 'negative_size':
    n = k if valid else -k
    if var == 'apply_bs':
      t = T().apply(_f, batch_size=n)
    elif var == 'apply_fbs':
      t = T().apply(_f, fn_batch_size=n, batch_size=k)
    elif var == 'assign_bs':
      t = T().assign(a, fn=_f, batch_size=n)
    elif var == 'select_bs':
      t = T().select((a, b), batch_size=n)
    else:
      t = T().batch(n)
  elif kind == 'kwargs_without_fn':
    keys = a if valid else {'x': a}
    if var == 'select':
      t = T().select(keys)
    elif var == 'apply_none':
      t = T().apply(None, input_keys=keys)
    else:
      t = T().assign(z, input_keys=keys)
  elif kind == 'op_after_aggregate':
    def add(t):
      if var == 'apply':
        return t.apply(_f)
      if var == 'assign':
        return t.assign(z, fn=_f)
      if var == 'select':
        return t.select(a)
      if var == 'filter':
        return t.filter(_f)
      if var == 'sink':
        return t.sink(g.RecSink())
      if var == 'batch':
        return t.batch(k)
      return t
    base = T().apply(_f, output_keys=a)
    if var in ('agg', 'aggregate'):
      t = base.agg(_Agg(), output_keys='m')
      if not valid:
        t = t.agg(_Agg(), output_keys='m2') if var == 'agg' else \
            t.aggregate(_Agg(), output_keys='m2')
    elif valid:
      t = add(base).agg(_Agg(), output_keys='m')
    else:
      t = add(base.agg(_Agg(), output_keys='m'))
  elif kind == 'dup_slice_name':
    t = T().agg(_Agg(), output_keys='m')
    if var == 'single':
      t = t.add_slice(a).add_slice(dup(z))
    elif var == 'cross':
      t = t.add_slice((a, b)).add_slice((dup(z), b))
    else:
      t = t.add_slice(a, slice_name='s', slice_fn=_f).add_slice(
          b, slice_name='s2' if valid else 's', slice_fn=_f)
  elif kind == 'chain_dup_name':
    t1 = T.new(name='A').apply(_f)
    t2 = T.new(name='B').apply(_f)
    if var == 'with_agg':
      t2 = t2.agg(_Agg(), output_keys='m')
    t3 = T.new(name='C' if valid else 'A').apply(_f)
    t = t1.chain(t2).chain(t3)
  elif kind == 'chain_dup_agg_keys':
    other = 'm2' if valid else 'm'
    if var == 'chained':
      t = T.new(name='A').agg(_Agg(), output_keys='m').chain(
          T.new(name='B').apply(_f).agg(_Agg(), output_keys=other))
    elif var == 'fused':
      t = T.new(name='A').agg(_Agg(), output_keys='m').chain(
          T.new(name='A').agg(_Agg(), output_keys=other))
    else:
      t = T().agg(_Agg(), output_keys='m').add_aggregate(fn=_Agg(), output_keys=other)
  elif kind == 'fuse_ops_behind_aggregate':
    # chain() fuses transforms of the same name: the operators of the child would
    # end up in front of the aggregation of the parent.
    n1 = '' if var == 'unnamed' else 'A'
    n2 = 'B' if valid else n1
    parent = T.new(name=n1).apply(_f).agg(_Agg(), output_keys='m')
    child = T.new(name=n2).select(a) if var == 'select_child' else T.new(name=n2).apply(_f)
    t = parent.chain(child)
  else:
    raise ValueError(kind)
  t.make()
  return t


def check_invalid_case(ctx, case):
  """case = {'invalid': kind, 'variant': v, 'names': [4 names], 'k': int}."""
  kind, var = case['invalid'], case['variant']
  ctx.case(('invalid', kind, var, case['names'], case['k']), True)
  ctx.count('invalid_build_checks')
  ctx.count('invalid_' + kind)
  try:
    build_invalid(case, valid=True)
    ctx.count('invalid_twin_checks')
  except Exception as e:  # pylint: disable=broad-exception-caught
    ctx.violation('valid_twin_rejected', case,
                  {'error': f'{type(e).__name__}: {short(str(e), 200)}'},
                  mechanism=f'twin-rejected:{kind}:{var}')
    return
  try:
    build_invalid(case, valid=False)
  except Exception as e:  # pylint: disable=broad-exception-caught
    ctx.count('rejected_with_' + type(e).__name__)
    return
  ctx.count(f'viol:invalid-accepted:{kind}')
  ctx.violation('invalid_accepted_at_build', case,
                {'kind': kind, 'variant': var, 'note': 'built and made without an exception'},
                mechanism=f'invalid-accepted:{kind}')


def gen_invalid_case(rseed, index):
  from vlib import pipeline_gen as g
  rng = random.Random(f'C08I:{rseed}:{index}')
  kind = INVALID_KINDS[index % len(INVALID_KINDS)]
  variants = VARIANTS[kind]
  var = variants[(index // len(INVALID_KINDS)) % len(variants)]
  names = rng.sample(g.NAMES, 4)
  return {'invalid': kind, 'variant': var, 'names': names, 'k': rng.randint(1, 4)}


def observe_apply_self_mixed(ctx):
  """SELF mixed with other *apply* output keys: observed, never a verdict."""
  from ml_metrics._src.chainables import transform, tree
  for keys in (('a', tree.Key.SELF), (tree.Key.SELF, 'a')):
    try:
      transform.TreeTransform().apply(_f2, output_keys=keys).make()
      ctx.observe('apply_self_mixed_outputs_accepted_at_build', repr(keys))
    except Exception:  # pylint: disable=broad-exception-caught
      ctx.observe('apply_self_mixed_outputs_rejected_at_build', repr(keys))


def observe_over_rejection(ctx):
  """Valid-looking chains the library refuses to build: observed only."""
  from vlib import pipeline_gen as g
  from ml_metrics._src.chainables import transform, tree
  T = transform.TreeTransform  # pylint: disable=invalid-name
  probes = {
      'assign_after_sink': lambda: T().sink(g.RecSink()).assign('c', fn=_f),
      'assign_after_apply_to_self': lambda: T().apply(_f).assign('c', fn=_f),
      'assign_skip_twice': lambda: T().assign((tree.Key.SKIP, 'c'), fn=_f2).assign(
          (tree.Key.SKIP, 'd'), fn=_f2),
      'assign_key_dropped_by_select': lambda: T().assign('c', fn=_f).select('a').assign(
          'c', fn=_f),
  }
  for name, thunk in probes.items():
    try:
      thunk().make()
    except Exception as e:  # pylint: disable=broad-exception-caught
      ctx.observe('valid_chain_rejected_at_build:' + name,
                  f'{type(e).__name__}: {short(str(e), 120)}')


# ---------------------------------------------------------------------------
# Chunks
# ---------------------------------------------------------------------------


# ---------------------------------------------------------------------------
# Outputs dropped with SKIP: aggregates behind a chain, assign with several SKIPs
# ---------------------------------------------------------------------------

AGG_SKIP_MECH = 'aggregate-skip-output-key-read-back-at-get-result'
DUP_SKIP_MECH = 'repeated-skip-rejected-as-duplicate-output-key'
AGG_CLASSES = ['control', 'one', 'one', 'repeat', 'repeat', 'assign']


def _err(e):
  return f'{type(e).__name__}: {short(str(e), 200)}'


def build_agg_real(chain, aggs, records, feed):
  """Builds chain + aggregates through the public API; returns (runner, feed args)."""
  from vlib import pipeline_gen as g
  from ml_metrics._src.chainables import io, transform
  sinks = []
  if feed == 'data_source':
    t = transform.TreeTransform.new().data_source(records)
    args = ()
  else:
    t = transform.TreeTransform.new()
    args = ({'list': lambda: records, 'iter': lambda: iter(records),
             'gen': lambda: (r for r in records),
             'seq_ds': lambda: io.SequenceDataSource(records)}[feed](),)
  for op in chain:
    t = g.add_op(t, op, g.resolve(op), sinks)
  return g.add_aggs(t, aggs).make(), args


def diff_agg(chain, aggs, records, feed):
  """-> ('rejected_at_build', error) | ('ok', None) | (problem kind, detail)."""
  from vlib import pipeline_gen as g
  from vlib.oracles import pipeline_interp as interp
  want_stream, _ = interp.run_chain(chain, records, g.resolve)
  want = interp.run_aggregates(aggs, want_stream, g.make_agg)
  records = copy.deepcopy(records)
  try:
    runner, args = build_agg_real(chain, aggs, records, feed)
  except Exception as e:  # pylint: disable=broad-exception-caught
    return 'rejected_at_build', _err(e)
  consumed = 0
  try:
    it = runner.iterate(*args)
    got_stream = []
    for rec in it:
      got_stream.append(rec)
      consumed += 1
    got = it.agg_result
  except Exception as e:  # pylint: disable=broad-exception-caught
    return 'raised_after_build', {'error': _err(e), 'records_consumed_before': consumed,
                                  'of': len(want_stream), 'want_result': short(want)}
  if not same(got_stream, want_stream):
    return 'stream_differs', {'got': short(got_stream), 'want': short(want_stream)}
  if not same(got, want):
    return 'agg_result_differs', {'got': short(got), 'want': short(want)}
  return 'ok', None


def agg_tags(aggs):
  return ['agg[%d outputs, SKIP at %s]' % (a['n_out'], a['skip']) for a in aggs]


def check_agg_case(ctx, case):
  """case = {'chain', 'records', 'feed', 'aggs': [agg specs], 'class'}.

  Valid-looking pipeline (built without an error): the stream is the reference stream
  and agg_result holds exactly the kept outputs with the brute-force values.  A
  rejection when built is accepted for aggregates with SKIP when it is consistent
  (the first such aggregate alone, with a single SKIP, is rejected as well).
  The mechanism is decided by the input class plus differential twins (the same
  pipeline with fresh names in place of SKIP), never by the error text.
  """
  from vlib import pipeline_gen as g
  chain, aggs, feed = case['chain'], case['aggs'], case['feed']
  records = g.dec(case['records'])
  n_skips = sum(len(a['skip']) for a in aggs)
  ctx.case(('aggs', chain, aggs, case['records'], feed), len(records) >= 2)
  ctx.count('agg_cases_' + ('control' if not n_skips else 'one_skip' if n_skips == 1
                            else 'repeated_skip'))
  if len(aggs) > 1:
    ctx.count('agg_stacked_cases')
  if len(ctx.samples) < 3 and n_skips:
    ctx.sample({'chain': chain, 'aggs': aggs, 'records': case['records'][:2], 'feed': feed})
  try:
    kind, detail = diff_agg(chain, aggs, records, feed)
    no_skip = [g.agg_with_skips(a, []) for a in aggs]
    twin = diff_agg(chain, no_skip, g.dec(case['records']), feed)[0] if n_skips else kind
  except Exception as e:  # pylint: disable=broad-exception-caught
    ctx.inconclusive_case(f'oracle failed: {_err(e)}', case)
    return
  tags = {'chain': [op_tags(op) for op in chain], 'aggs': agg_tags(aggs), 'feed': feed}
  if kind == 'ok':
    ctx.count('agg_result_checks')
    if n_skips:
      ctx.count('agg_skip_result_checks')
    return
  if kind != 'rejected_at_build':
    ctx.count('agg_result_checks')
    # Built without an error, yet the run / the result is not the reference one.
    mech = AGG_SKIP_MECH if n_skips and twin == 'ok' else \
        f'unclassified:aggregate:{kind}:no-skip-twin-{twin}'
    ctx.count('viol:' + mech)
    ctx.violation(kind, case, dict(detail, **tags), mechanism=mech)
    return
  # Rejected when built.
  ctx.count('agg_build_rejections')
  if not n_skips or twin == 'rejected_at_build':
    mech = 'unclassified:aggregate-rejected-at-build-without-skip'
    ctx.count('viol:' + mech)
    ctx.violation('valid_rejected_at_build', case, dict(tags, error=detail), mechanism=mech)
    return
  first = next(a for a in aggs if a['skip'])
  reduced = [g.agg_with_skips(first, first['skip'][:1])]
  try:
    reduced_kind = diff_agg(chain, reduced, g.dec(case['records']), feed)[0]
  except Exception as e:  # pylint: disable=broad-exception-caught
    ctx.inconclusive_case(f'oracle failed: {_err(e)}', case)
    return
  ctx.count('agg_consistency_checks')
  if reduced_kind == 'rejected_at_build':
    ctx.count('agg_skip_rejected_consistently')
    return
  mech = DUP_SKIP_MECH if n_skips >= 2 else \
      'unclassified:aggregate-single-skip-rejected-at-build-only-when-stacked'
  ctx.count('viol:' + mech)
  ctx.violation('valid_rejected_at_build', case, dict(
      tags, error=detail,
      note='the first aggregate with a SKIP alone, with one SKIP, is accepted when built: '
           'the rejection is not a consistent refusal of SKIP in aggregates'),
                mechanism=mech)


def check_multiskip_case(ctx, case):
  """case = {'chain' (last op: assign, >= 2 SKIPs), 'records', 'feed', 'multiskip': 1}.

  SKIP drops an output, it is not a key: the stream is the reference stream.  The twin
  (all SKIPs but one replaced by fresh names) must agree as well; only then a failure
  is attributed to the repeated SKIP.
  """
  from vlib import pipeline_gen as g
  chain, feed = case['chain'], case['feed']
  last = chain[-1]
  records = g.dec(case['records'])
  ctx.case(('multiskip', chain, case['records'], feed), len(records) >= 2)
  ctx.count('assign_multi_skip_cases')
  twin_chain = chain[:-1] + [g.agg_with_skips(last, last['skip'][:1])]
  try:
    problems, _ = diff_chain(chain, records, feed, g.resolve)
    twin_problems, _ = diff_chain(twin_chain, g.dec(case['records']), feed, g.resolve)
  except Exception as e:  # pylint: disable=broad-exception-caught
    ctx.inconclusive_case(f'oracle failed: {_err(e)}', case)
    return
  ctx.count('assign_multi_skip_checks')
  if not problems:
    return
  kind, detail = problems[0]
  if kind == 'raised':
    try:
      g.build(chain, g.resolve)[0].make()
    except Exception:  # pylint: disable=broad-exception-caught
      kind = 'valid_rejected_at_build'
  mech = DUP_SKIP_MECH if not twin_problems else \
      f'unclassified:assign-several-skips:{kind}:single-skip-twin-{twin_problems[0][0]}'
  ctx.count('viol:' + mech)
  ctx.violation(kind, case, dict(detail, chain=[op_tags(op) for op in chain],
                                 skip_positions=last['skip']), mechanism=mech)


def gen_aggskip_case(rseed, chunk, index):
  from vlib import pipeline_gen as g
  rng = random.Random(f'C08A:{rseed}:{chunk}:{index}')
  cls = AGG_CLASSES[index % len(AGG_CLASSES)]
  shape = rng.choice(['dict', 'dict', 'cols']) if cls == 'assign' else None
  _, records = g.gen_records(rng, shape=shape,
                             n=rng.randint(1, 6) if cls == 'assign' else None)
  n_ops = rng.choice([0, 0, 1, 2, 3, 4])
  kinds = g.KINDS if cls != 'assign' else [k for k in g.KINDS if k != 'batch']
  chain, stream, tracked = g.gen_chain(rng, records, n_ops, kinds=kinds)
  feed = rng.choice(FEEDS)
  if cls == 'assign':
    op = g.gen_multi_skip_assign(rng, stream, tracked)
    if op is None:
      return None
    return {'chain': chain + [op], 'records': g.enc(records), 'feed': feed,
            'multiskip': 1}
  aggs = g.gen_aggs(rng, stream, cls)
  if aggs is None:
    return None
  return {'chain': chain, 'aggs': aggs, 'records': g.enc(records), 'feed': feed}


def run_chunk(ctx, spec):
  from vlib import pipeline_selftest
  mode = spec['mode']
  if mode == 'aggskip':
    for i in range(spec['count']):
      case = gen_aggskip_case(spec['rseed'], spec['chunk'], i)
      if case is None:
        continue
      (check_multiskip_case if 'multiskip' in case else check_agg_case)(ctx, case)
    return
  if mode == 'selftest':
    pipeline_selftest.run(ctx, same)
    observe_apply_self_mixed(ctx)
    observe_over_rejection(ctx)
  elif mode == 'chains':
    for i in range(spec['count']):
      case = gen_chain_case(spec['rseed'], spec['chunk'], i)
      if case is not None:
        check_chain_case(ctx, case)
  elif mode == 'triggers':
    for i in range(spec['count']):
      case = gen_trigger_case(spec['rseed'], i)
      if case is not None:
        ctx.count('trigger_chains')
        check_chain_case(ctx, case)
  elif mode == 'invalid':
    for i in range(spec['count']):
      check_invalid_case(ctx, gen_invalid_case(spec['rseed'], i))


def run_case(ctx, case):
  if 'aggs' in case:
    check_agg_case(ctx, case)
  elif 'multiskip' in case:
    check_multiskip_case(ctx, case)
  elif 'invalid' in case:
    check_invalid_case(ctx, case)
  elif 'selftest' in case:
    from vlib import pipeline_selftest
    pipeline_selftest.run(ctx, same, only=case['selftest'])
  else:
    check_chain_case(ctx, case)
