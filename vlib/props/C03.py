"""C03 - results do not depend on the execution strategy.

One pipeline spec (c16lib JSON grammar: pre-batched unique integers, element-wise
operators, exact integer aggregators) is executed

  (a) single-threaded with as few stages as possible              E1 (twin)
  (b) with num_threads 1-4: fan-out over shards of a shardable
      source / one shared thread-safe iterator                     E2 + E3
  (c) split into named stages (fluent stages chained, or every
      operator its own TreeTransform.new(name=...) fused by
      chain()), and stage by stage through named_transforms()      E1
  (d) as k shards (make(shard=ShardConfig(i, k)) or a sharded data
      source), outputs united, states merged by merge_states       E1
  (e) through orchestrate.run_pipeline_interleaved, in process     E3

and every run is compared with c16lib.reference (plain Python) and with (a).
Scenario (f) (vlib/c03fault.py) runs pipelines in which the update of one aggregate
fails on one batch (or the last operator fails outside the per-element skippable call), with ignore_error off and on, fused / chained / threaded, and
demands that every strategy ends the same way (raised | completed with equal result)
as the fused single-threaded run.
Chunks are single-engine (a child interpreter either installs the scheduler
shims into iter_utils or runs real threads, never both).
"""

from __future__ import annotations

import collections
import gc
import random
import sys

from vlib import runner as vrunner

ID = 'C03'
LEVEL = 'exploration'
EXTRA_PATH = ('vlib/fakecourier',)
RULE = (
    'a case is (pipeline spec: 0-40 unique integers in records of 1-5, 1-4 element-wise operators '
    '(affine, square, filter, slow), exact aggregator sum/collect at the end or none, optionally a second '
    'aggregating stage in the middle; execution strategy: (b) layout with num_threads 1-4 on one or more '
    'stages over a SequenceDataSource / ShardedIterable (fan-out) or a generator / list / upstream stage '
    '(shared iterator) x schedule (seed, random walk | PCT) or x seeded real-thread delays; (c) random split '
    'into named stages, fluent or piecewise-chained, run by make() and stage by stage over named_transforms(); '
    '(d) k = 1-7 shards by make(shard=) or a sharded source, merge_states + get_result, strict counts; '
    '(e) run_pipeline_interleaved with buffer sizes 0-3; (f) "an aggregation fails": dict-batch pipelines '
    '(0-2 assign / filter operators, 1-3 exact aggregates on random columns with 0-2 column-adding assigns '
    'between and behind them, 1-12 batches) in which the update of one random aggregate raises a random '
    'exception type on one random batch (or none), run with ignore_error off and on as ONE fused stage '
    '(aggregate().add_aggregate()), the same with num_threads 1-3, as 2 random chains of named stages, as '
    'such a chain with num_threads on random stages, and periodically with every element a stage of its own; '
    'every third pipeline also as a variant whose LAST operator is a column-adding apply (optionally with batch_size) that fails OUTSIDE the skippable call on one random batch (one output too many | a scalar under batch_size) or not at all; '
    'every run is compared with the fused single-threaded run of the same ignore_error flag: same outcome '
    'class (raised | completed) and, when completed, same batches and aggregates). Non-trivial = the strategy differs from the reference '
    'in threads / stages / shards / runner and the dataset has >= 2 elements; distinct = hash of (spec, '
    'strategy, layout, k | buffers) + schedule-trace hash')
ASSUMPTIONS = [
    'records are pre-batched lists of unique integers and every operator is element-wise (no re-batching operator, no sink), so the multiset of emitted batches does not depend on the partition of the stream',
    'aggregators are exact integer aggregators (sum/count/xor, sorted collection) returning non-tuple results under a named output key; at most one aggregation per stage and a new stage starts after an aggregation',
    'user functions do not block: under the scheduler the slow operator and the generator source hand over control at a pre-emption point instead of sleeping; scheduler assumptions as in C04 (pre-emption at synchronisation operations and at statement boundaries of the anchored iter_utils / transform / io iterator functions)',
    'real-thread runs (b native, e) that do not complete within 60 s (typical: milliseconds) are retried once; two consecutive watchdog expiries of the same case are reported as a hang, a single one is inconclusive',
    'in the interleaved runner the aggregate of a stage is read from that stage\'s result_queue.returned; only the last stage must not carry any other returned value',
    'strategy (d) uses shardable sources only (SequenceDataSource: contiguous shards, ShardedIterable: round-robin shards)',
    'scenario (f): every operator behind the first aggregation only ADDS a column (assign), filters stand in front of the first aggregation, so every chain of named stages has a one-stage twin (aggregate().add_aggregate()) that computes the same thing; the failing aggregate raises from update_state (ValueError / TypeError / RuntimeError / KeyError / ZeroDivisionError); only the outcome class (raised | completed) and the result of completed runs are compared, not the exception type and not the batches delivered before an error; fault-free runs must equal the plain-Python model; what a pipeline should do with a failing aggregation under ignore_error is NOT prescribed (raising and skipping the batch are both accepted as long as every strategy does the same)',
    'scenario (f), fault class "an operator fails outside the skippable call": the failing operator is the LAST operator of the pipeline in spec order (a column-adding apply(fn, input_keys=all columns, output_keys=all columns + one[, batch_size=rows per batch]); aggregations may follow in the same or in later stages), so that no other operator of a fused or chained layout gets to skip its error and no aggregate upstream has counted a batch that a later operator drops (what ignore_error should do in those cases is not prescribed by the property); two triggers: one result value more than output_keys, a scalar where batch_size re-batches a column; a chained layout never puts num_threads > 0 on the failing stage when that stage has a stage downstream (in the current tree the downstream stage then skips the same stored error forever: same input class, but every case would cost two 60 s watchdogs); oracle as for failing aggregates (outcome class and, when completed, batches and aggregates equal to the fused single-threaded run; fault-free variants equal to the plain-Python model)',
]
REQUIRED = [
    'strategy_a', 'strategy_b_sched', 'strategy_b_native', 'strategy_c', 'strategy_c_named',
    'strategy_d', 'strategy_d_make_shard', 'strategy_e', 'schedules', 'line_preemptions',
    'batches_compared', 'agg_compared', 'returned_agg_compared', 'twin_compared',
    'strict_cnt_checks', 'shard_union_checks', 'merged_results_compared', 'fanout_runs',
    'shared_iterator_runs', 'worker_threads', 'shim_futures_installed', 'fuse_by_chain_layouts',
    'two_agg_stage_specs', 'strategy_d_threaded', 'shard_without_source_checks', 'shard_of_sharded_source_checks', 'sliced_merged_results_compared',
    'sliced_shards_with_different_key_sets',
    'fault_cases', 'fault_reference_runs', 'fault_free_model_checks', 'fault_runs_fused',
    'fault_runs_chained', 'fault_runs_threaded', 'fault_outcomes_compared',
    'fault_results_compared', 'fault_both_raised', 'fault_class_no_fault',
    'fault_class_fault_in_final_stage', 'fault_class_fault_in_final_stage_ignore_error',
    'fault_class_fault_in_non_final_stage', 'fault_class_fault_in_non_final_stage_ignore_error',
    'fault_class_op_fault_in_final_stage', 'fault_class_op_fault_in_final_stage_ignore_error',
    'fault_class_op_fault_in_non_final_stage', 'fault_class_op_fault_in_non_final_stage_ignore_error',
    'fault_op_arity_cases', 'fault_op_nonbatch_cases', 'fault_free_apply_model_checks',
]
CHUNK_TIMEOUT_S = {'quick': 300, 'thorough': 3000}

F_MAKE_SHARD = 'd:make-shard:chained-pipeline-raises-TypeError'
F_GET_RESULT = 'd:merged-get_result-raises-KeyError:two-aggregating-stages'


# -- generators -------------------------------------------------------------------


def gen_spec(rng, delays):
  n = rng.choice([0, 1, 2, 3, 5, 9, 17, 26, 40])
  big = (not delays) and rng.random() < 0.07
  if big:
    # Shards longer than the 64-row random-access read-ahead window (and not a
    # multiple of it) exercise the windowed reads of sharded sources.
    n = rng.choice([150, 200, 333])
  ops = []
  for _ in range(rng.randint(1, 4)):
    k = rng.choice(['affine', 'affine', 'square', 'square', 'filter', 'slow'])
    if k == 'affine':
      ops.append(['affine', {'a': rng.randint(1, 3), 'b': rng.randint(0, 5)}])
    elif k == 'slow':
      ops.append(['slow', {'delay': rng.choice([0.0, 0.0005, 0.002]) if delays else 0.0}])
    else:
      ops.append([k])
  spec = {'n': n, 'rec': 1 if big else rng.randint(1, 5), 'ops': ops,
          'agg': rng.choice(['sum', 'collect', 'sum', None])}
  if rng.random() < 0.25:
    spec['mid_agg'] = {'after': rng.randint(1, len(ops)),
                       'kind': rng.choice(['sum', 'collect'])}
  return spec


B_CLASSES = ['fanout_seq', 'shared_gen', 'staged', 'fanout_rr', 'mixed', 'shared_list', 'c16']


def gen_threaded_layout(rng, spec, nt, cls):
  from vlib import c03work as w
  if cls == 'c16' and spec.get('mid_agg'):
    cls = 'staged'
  if cls == 'c16':
    return {'kind': 'c16', 'agg_fused': rng.random() < 0.6, 'num_threads': nt}
  source = {'fanout_seq': 'seq', 'fanout_rr': 'rr', 'shared_gen': 'gen',
            'shared_list': 'list'}.get(cls)
  if cls in ('staged', 'mixed'):
    lay = w.gen_layout(rng, spec, source=source, p_split=0.5)
    if len(lay['stages']) > 1 and lay['stages'][1] == 0:
      lay['stages'] = [0] + [g + 1 for g in lay['stages'][1:]]
    n_st = lay['stages'][-1] + 1
    if cls == 'staged':
      threads = [0] * n_st
      threads[rng.randrange(1, n_st)] = nt
    else:
      threads = [rng.choice([0, nt, rng.randint(1, nt)]) for _ in range(n_st)]
      if not any(threads):
        threads[rng.randrange(n_st)] = nt
    lay['threads'] = threads
    return lay
  lay = w.gen_layout(rng, spec, source=source, p_split=0.0)
  n_st = lay['stages'][-1] + 1
  lay['threads'] = [nt] + [rng.choice([0, nt]) for _ in range(n_st - 1)]
  return lay


def plan(tier, seed):
  if tier == 'quick':
    kinds = ['sched'] * 16 + ['native'] * 8 + ['e1'] * 8
    sizes = {'sched': {'n_pipe': 12, 'n_nt': 2, 'n_sched': 26},
             'native': {'n_pipe': 36, 'n_nt': 2, 'reps': 2, 'n_e': 4},
             'e1': {'n_pipe': 500}}
  else:
    kinds = ['sched'] * 32 + ['native'] * 16 + ['e1'] * 16
    sizes = {'sched': {'n_pipe': 48, 'n_nt': 4, 'n_sched': 40},
             'native': {'n_pipe': 260, 'n_nt': 4, 'reps': 3, 'n_e': 8},
             'e1': {'n_pipe': 5000}}
  out = []
  for i, kind in enumerate(kinds):
    out.append(dict(sizes[kind], chunk=i, mode=kind, rseed=seed))
  # (f) first: short chunks, so that they never form the tail of the run (their chunk
  # numbers do not shift those of the other modes, whose cases stay what they were).
  n_fault = 4 if tier == 'quick' else 16
  fault = [{'n_pipe': 120 if tier == 'quick' else 1200, 'chunk': 1000 + j, 'mode': 'fault',
            'rseed': seed} for j in range(n_fault)]
  return fault + out


# -- oracle -----------------------------------------------------------------------


def _diff(got, want):
  from vlib import c03work as w
  g, t = collections.Counter(w.canon(got)), collections.Counter(w.canon(want))
  return {'missing': sorted((t - g).elements())[:6], 'unexpected': sorted((g - t).elements())[:6],
          'n_got': len(got), 'n_want': len(want)}


def compare(ctx, case, tag, res, want, twin, check_ret=True):
  """res: {'outs', 'agg', 'ret'}; want: reference; twin: the (a) run or None."""
  from vlib import c03work as w
  from ml_metrics._src.chainables import transform
  want_outs, want_agg = want
  ok = True
  res = dict(res, agg=w.norm_agg(res['agg']))
  if twin is not None:
    twin = dict(twin, agg=w.norm_agg(twin['agg']))
  ctx.count('batches_compared', len(res['outs']))
  if w.canon(res['outs']) != w.canon(want_outs):
    ok = False
    ctx.violation('output_multiset_differs', case, _diff(res['outs'], want_outs),
                  mechanism=f'{tag}:outputs-differ')
  ctx.count('agg_compared')
  if res['agg'] != want_agg:
    ok = False
    ctx.violation('aggregate_differs', case,
                  {'got': repr(res['agg'])[:300], 'want': repr(want_agg)[:300]},
                  mechanism=f'{tag}:aggregate-differs')
  if check_ret:
    ctx.count('returned_agg_compared')
    ret = res['ret']
    got = ret.agg_result if isinstance(ret, transform.AggregateResult) else ret
    if isinstance(ret, transform.AggregateResult):
      got = w.norm_agg(got)
    if got != want_agg:
      ok = False
      ctx.violation('returned_aggregate_differs', case,
                    {'got': repr(ret)[:300], 'want': repr(want_agg)[:300]},
                    mechanism=f'{tag}:returned-aggregate-differs')
  if twin is not None:
    ctx.count('twin_compared')
    if ok and (w.canon(res['outs']) != w.canon(twin['outs']) or res['agg'] != twin['agg']):
      ctx.violation('differs_from_single_threaded_run', case,
                    {'outs': _diff(res['outs'], twin['outs']), 'agg': repr(res['agg'])[:200],
                     'twin_agg': repr(twin['agg'])[:200]},
                    mechanism=f'{tag}:differs-from-strategy-a')
  return ok


def run_a(ctx, spec, want):
  """Strategy (a), also the twin of every other strategy."""
  from vlib import c03work as w
  case = {'strategy': 'a', 'spec': spec}
  ctx.count('strategy_a')
  try:
    res = w.run_inline(spec, w.reference_layout(spec))
  except Exception as e:  # pylint: disable=broad-exception-caught
    ctx.violation('run_raised', case, {'error': f'{type(e).__name__}: {str(e)[:300]}'},
                  mechanism=f'a:raises:{type(e).__name__}')
    return None
  ok = compare(ctx, case, 'a', res, want, None)
  ctx.case(('a', spec), False)
  return res if ok else None


def _deadlock_sites(witness):
  sites = set()
  if isinstance(witness, dict):
    for name, v in witness.items():
      if not isinstance(v, dict):
        continue
      st = [s for s in (v.get('stack') or []) if s.startswith(('iter_utils.py', 'transform.py'))]
      who = name.split('_')[0].split('#')[0].split(':')[0]
      where = (st[-1].split(':')[-1] if st
               else (v.get('blocked_on') or '?').split('@')[0].split('(')[0])
      sites.add(f'{who}:{where}')
  return '[' + ','.join(sorted(sites)) + ']'


def run_b_sched(ctx, case, want, twin):
  from vlib import c03work as w
  spec, layout = case['spec'], case['layout']
  cls = w.sharing_class(layout)
  tag = f'b-sched:{cls}'
  sched, box, info = w.run_sched(case)
  ctx.count('strategy_b_sched')
  ctx.count('schedules')
  ctx.count('line_preemptions', sched.line_preemptions)
  ctx.count('switches', sched.switches)
  ctx.count('worker_threads', info['workers'])
  if 'futures' in info['shims'] and 'threading' in info['shims']:
    ctx.count('shim_futures_installed')
  if cls in ('fanout', 'both'):
    ctx.count('fanout_runs')
  if cls in ('shared', 'both'):
    ctx.count('shared_iterator_runs')
  cfg = vrunner.stable_hash(('b', spec, layout))
  ctx.case((cfg, sched.trace_hash()), spec['n'] >= 2 and w.max_threads(layout) >= 1)
  if sched.status in ('watchdog', 'step_bound'):
    ctx.inconclusive_case(sched.status, case)
    return
  if sched.status == 'deadlock':
    ctx.violation('hang', case, {'witness': sched.witness},
                  mechanism=f'{tag}:hang{_deadlock_sites(sched.witness)}')
    return
  errs = {k: v for k, v in sched.thread_errors().items()}
  if errs:
    ctx.violation('thread_error', case, {k: repr(v)[:200] for k, v in errs.items()},
                  mechanism=f'{tag}:thread-error')
  if 'exc' in box:
    e = box['exc']
    ctx.violation('run_raised', case, {'error': f'{type(e).__name__}: {str(e)[:300]}'},
                  mechanism=f'{tag}:raises:{type(e).__name__}')
    return
  if 'outs' not in box:
    ctx.violation('consumer_did_not_finish', case, None, mechanism=f'{tag}:consumer-unfinished')
    return
  compare(ctx, case, tag, box, want, twin)
  if len(ctx.samples) < 2:
    ctx.sample({'case': case, 'n_batches': len(box['outs']), 'agg': repr(box['agg'])[:100],
                'workers': info['workers'], 'line_preemptions': sched.line_preemptions})


def _guarded(ctx, case, fn, tag):
  from vlib import cwork
  finished, res, exc = cwork.run_with_watchdog(fn, 60)
  if not finished:
    finished, res, exc = cwork.run_with_watchdog(fn, 60)
    if not finished:
      ctx.violation('no_completion_within_watchdog', case, None, mechanism=f'{tag}:hang')
      return None
    ctx.inconclusive_case('first attempt hit the watchdog, retry completed', case)
  if exc is not None:
    ctx.violation('run_raised', case, {'error': f'{type(exc).__name__}: {str(exc)[:300]}'},
                  mechanism=f'{tag}:raises:{type(exc).__name__}')
    return None
  return res


def run_b_native(ctx, case, want, twin):
  from vlib import c03work as w
  spec, layout = case['spec'], case['layout']
  cls = w.sharing_class(layout)
  tag = f'b-native:{cls}'
  w.set_jitter(case.get('jitter', 0))
  res = _guarded(ctx, case, lambda: w.run_inline(spec, layout), tag)
  ctx.count('strategy_b_native')
  ctx.case(('bn', spec, layout, case.get('jitter')), spec['n'] >= 2 and w.max_threads(layout) >= 1)
  if res is None:
    return
  compare(ctx, case, tag, res, want, twin)


def stage_aggs(spec, layout):
  """Aggregate output key produced by each stage (or None)."""
  from vlib import c03work as w
  if layout.get('kind') == 'c16':
    if not spec.get('agg'):
      return [None, None]
    return [None, 'agg'] if layout.get('agg_fused', True) else [None, None, 'agg']
  out = [None] * w.n_stages(layout)
  for el, g in zip(w.elements(spec), layout['stages']):
    if el[0] == 'agg':
      out[g] = el[2]
  return out


def run_e(ctx, case, want, twin):
  from vlib import c03work as w
  from ml_metrics._src.chainables import transform
  spec, layout = case['spec'], case['layout']
  tag = 'e:interleaved'
  w.set_jitter(case.get('jitter', 0))
  res = _guarded(ctx, case, lambda: w.run_interleaved(spec, layout, case['bufs']), tag)
  ctx.count('strategy_e')
  ctx.case(('e', spec, layout, case['bufs'], case.get('jitter')), spec['n'] >= 2)
  if res is None:
    return
  want_outs, want_agg = want
  ctx.count('batches_compared', len(res['outs']))
  if w.canon(res['outs']) != w.canon(want_outs):
    ctx.violation('output_multiset_differs', case, _diff(res['outs'], want_outs),
                  mechanism=f'{tag}:outputs-differ')
  elif twin is not None:
    ctx.count('twin_compared')
    if w.canon(res['outs']) != w.canon(twin['outs']):
      ctx.violation('differs_from_single_threaded_run', case, _diff(res['outs'], twin['outs']),
                    mechanism=f'{tag}:differs-from-strategy-a')
  keys = stage_aggs(spec, layout)
  if len(keys) != len(res['stage_returns']):
    ctx.violation('stage_count_differs', case,
                  {'names': res['names'], 'expected': w.stage_names(spec, layout)},
                  mechanism=f'{tag}:stage-count')
    return
  for s, (key, rets) in enumerate(zip(keys, res['stage_returns'])):
    last = s == len(keys) - 1
    finals = [r for r in rets if isinstance(r, transform.AggregateResult)]
    if key is not None:
      ctx.count('agg_compared')
      ctx.count('returned_agg_compared')
      expect = {key: want_agg[key]}
      if len(finals) != 1 or len(rets) != 1:
        ctx.violation('not_exactly_one_stage_aggregate', case,
                      {'stage': res['names'][s], 'returned': repr(rets)[:300]},
                      mechanism=f'{tag}:stage-aggregate-count')
      elif finals[0].agg_result != expect:
        ctx.violation('aggregate_differs', case,
                      {'stage': res['names'][s], 'got': repr(finals[0].agg_result)[:300],
                       'want': repr(expect)[:300]},
                      mechanism=f'{tag}:aggregate-differs')
    elif last and rets:
      ctx.violation('unexpected_returned_values', case, {'returned': repr(rets)[:200]},
                    mechanism=f'{tag}:unexpected-return')
  if len(ctx.samples) < 2:
    ctx.sample({'case': case, 'n_batches': len(res['outs']), 'stages': res['names']})


def run_c(ctx, case, want, twin):
  """Fused vs chained vs piecewise-fused; make() and named_transforms()."""
  from vlib import c03work as w
  spec, layout = case['spec'], case['layout']
  form = 'piecewise' if layout.get('piecewise') else 'fluent'
  tag = f'c:{form}'
  ctx.count('strategy_c')
  names = w.stage_names(spec, layout)
  stages = layout.get('stages') or []
  if layout.get('piecewise') and any(a == b for a, b in zip(stages, stages[1:])):
    ctx.count('fuse_by_chain_layouts')
  ctx.case(('c', spec, layout), spec['n'] >= 2 and (len(names) >= 2 or bool(layout.get('piecewise'))))
  try:
    res = w.run_inline(spec, layout)
  except Exception as e:  # pylint: disable=broad-exception-caught
    ctx.violation('run_raised', case, {'error': f'{type(e).__name__}: {str(e)[:300]}'},
                  mechanism=f'{tag}:raises:{type(e).__name__}')
    return
  compare(ctx, case, tag, res, want, twin)
  # the same stages made and piped one by one
  ctx.count('strategy_c_named')
  tag = f'c:named_transforms:{form}'
  try:
    res = w.run_named_stages(spec, layout)
  except Exception as e:  # pylint: disable=broad-exception-caught
    ctx.violation('run_raised', case, {'error': f'{type(e).__name__}: {str(e)[:300]}'},
                  mechanism=f'{tag}:raises:{type(e).__name__}')
    return
  info = res['info']
  if layout.get('kind') != 'c16':
    els = w.elements(spec)
    want_fns = [0] * len(names)
    want_aggs = [0] * len(names)
    for el, g in zip(els, layout['stages']):
      if el[0] == 'op':
        want_fns[g] += 1
      elif el[0] == 'agg':
        want_aggs[g] += 1
    if (info['names'] != names or info['fns'] != want_fns or info['aggs'] != want_aggs
        or any(info['has_input_transform'])):
      ctx.violation('named_transforms_structure', case,
                    {'got': info, 'want': {'names': names, 'fns': want_fns, 'aggs': want_aggs}},
                    mechanism=f'{tag}:structure')
  # the last stage only returns its own aggregate
  keys = stage_aggs(spec, layout)
  last_want = None
  if keys and keys[-1] is not None:
    last_want = {k: v for k, v in want[1].items()
                 if k == keys[-1] or k.startswith(keys[-1] + '|')}
  from ml_metrics._src.chainables import transform
  ret = res['ret']
  got = ret.agg_result if isinstance(ret, transform.AggregateResult) else ret
  if isinstance(ret, transform.AggregateResult):
    got = w.norm_agg(got)
  ctx.count('returned_agg_compared')
  if got != last_want:
    ctx.violation('returned_aggregate_differs', case,
                  {'got': repr(ret)[:300], 'want': repr(last_want)[:300]},
                  mechanism=f'{tag}:returned-aggregate-differs')
  compare(ctx, case, tag, res, want, twin, check_ret=False)


def run_d(ctx, case, want, twin):
  from vlib import c03work as w
  spec, layout, k, via = case['spec'], case['layout'], case['k'], case['via']
  tag = f'd:{via}'
  ctx.count('strategy_d')
  if via == 'make':
    ctx.count('strategy_d_make_shard')
  ctx.case(('d', spec, layout, k, via), spec['n'] >= 2 and k >= 2)
  n_st = w.n_stages(layout)
  two_aggs = bool(spec.get('mid_agg')) and bool(spec.get('agg'))
  try:
    outs, states, sizes = w.run_shards(spec, layout, k, via)
  except TypeError as e:
    if via == 'make' and n_st >= 2 and "data source type: <class 'NoneType'>" in str(e):
      # make(shard=) handed the shard to a stage that has no data source
      ctx.violation('sharded_run_raised', case,
                    {'error': f'TypeError: {str(e)[:200]}', 'stages': n_st},
                    mechanism=F_MAKE_SHARD)
      return
    ctx.violation('sharded_run_raised', case, {'error': f'TypeError: {str(e)[:300]}'},
                  mechanism=f'{tag}:raises:TypeError')
    return
  except Exception as e:  # pylint: disable=broad-exception-caught
    ctx.violation('sharded_run_raised', case, {'error': f'{type(e).__name__}: {str(e)[:300]}'},
                  mechanism=f'{tag}:raises:{type(e).__name__}')
    return
  want_outs, want_agg = want
  ctx.count('shard_union_checks')
  ctx.count('batches_compared', len(outs))
  if w.canon(outs) != w.canon(want_outs):
    ctx.violation('shard_union_differs', case, dict(_diff(outs, want_outs), sizes=sizes),
                  mechanism=f'{tag}:union-of-shards-differs')
  elif twin is not None:
    ctx.count('twin_compared')
    if w.canon(outs) != w.canon(twin['outs']):
      ctx.violation('differs_from_single_threaded_run', case, _diff(outs, twin['outs']),
                    mechanism=f'{tag}:differs-from-strategy-a')
  if want_agg is None:
    if any(s is not None for s in states):
      ctx.violation('state_without_aggregation', case, {'states': repr(states)[:200]},
                    mechanism=f'{tag}:state-without-aggregation')
    return
  try:
    results, probes = w.merged_results(spec, layout, states, k)
  except Exception as e:  # pylint: disable=broad-exception-caught
    key = f'{tag}:merge-raises:{type(e).__name__}'
    if two_aggs and isinstance(e, KeyError):
      # ChainedRunner.get_result handed one stage the state of another stage
      key = F_GET_RESULT
    ctx.violation('merge_or_get_result_raised', case,
                  {'error': f'{type(e).__name__}: {str(e)[:300]}'}, mechanism=key)
    return
  sliced = bool(spec.get('slice'))
  for label, got in results:
    ctx.count('merged_results_compared')
    ctx.count('agg_compared')
    got = w.norm_agg(got)
    if sliced:
      ctx.count('sliced_merged_results_compared')
      if any(set(dict(st)) != set(dict(states[0])) for st in states if st is not None):
        ctx.count('sliced_shards_with_different_key_sets')
    if got != want_agg:
      ctx.violation('merged_shard_states_differ', case,
                    {'via': label, 'got': repr(got)[:300], 'want': repr(want_agg)[:300]},
                    mechanism=f'{tag}:merged-aggregate-differs')
    elif twin is not None and got != w.norm_agg(twin['agg']):
      ctx.violation('differs_from_single_threaded_run', case,
                    {'via': label, 'got': repr(got)[:200], 'twin': repr(twin['agg'])[:200]},
                    mechanism=f'{tag}:differs-from-strategy-a')
  for tlabel, what, n_states, m, raised in probes:
    ctx.count('strict_cnt_checks')
    if raised is None:
      who = 'chained' if tlabel.endswith(':chained') else 'transform'
      ctx.violation('partial_merge_not_rejected', case,
                    {'runner': tlabel, 'probe': what, 'states': n_states, 'strict_states_cnt': m},
                    mechanism=f'd:strict-states-cnt-ignored:{who}')
  if len(ctx.samples) < 2:
    ctx.sample({'case': case, 'shard_sizes': sizes, 'merged': repr(results[0][1])[:100]})


# -- chunks -----------------------------------------------------------------------


def _two_aggs(spec):
  return bool(spec.get('mid_agg')) and bool(spec.get('agg'))


def chunk_sched(ctx, spec):
  from vlib import c03work as w
  rng = random.Random(spec['rseed'] * 1000003 + spec['chunk'] * 13 + 1)
  srng = random.Random(spec['rseed'] * 7919 + spec['chunk'] + 11)
  for i in range(spec['n_pipe']):
    pspec = gen_spec(rng, delays=False)
    if _two_aggs(pspec):
      ctx.count('two_agg_stage_specs')
    want = w.expected(pspec)
    twin = run_a(ctx, pspec, want)
    nts = rng.sample([1, 2, 3, 4], spec['n_nt'])
    for nt in nts:
      cls = B_CLASSES[(i + nt + spec['chunk']) % len(B_CLASSES)]
      layout = gen_threaded_layout(rng, pspec, nt, cls)
      for j in range(spec['n_sched']):
        r = j % 4
        case = {'strategy': 'b_sched', 'spec': pspec, 'layout': layout,
                'sched_seed': srng.randrange(1 << 30),
                'sched': 'pct' if r == 3 else 'random',
                'p_line': [0.05, 0.15, 0.4, 0.0][r], 'p_sync': [0.3, 0.5, 0.7, 0.0][r]}
        run_b_sched(ctx, case, want, twin)


def chunk_native(ctx, spec):
  from vlib import c03work as w
  sys.setswitchinterval(1e-5)
  rng = random.Random(spec['rseed'] * 1000003 + spec['chunk'] * 13 + 2)
  runs = 0
  for i in range(spec['n_pipe']):
    pspec = gen_spec(rng, delays=True)
    if _two_aggs(pspec):
      ctx.count('two_agg_stage_specs')
    want = w.expected(pspec)
    twin = run_a(ctx, pspec, want)
    for nt in rng.sample([1, 2, 3, 4], spec['n_nt']):
      cls = B_CLASSES[(i + nt + spec['chunk']) % len(B_CLASSES)]
      layout = gen_threaded_layout(rng, pspec, nt, cls)
      for _ in range(spec['reps']):
        case = {'strategy': 'b_native', 'spec': pspec, 'layout': layout,
                'jitter': rng.randrange(1000)}
        run_b_native(ctx, case, want, twin)
        runs += 1
    # (b) x (d): the sharded run of a pipeline whose source stage fans out over threads.
    nt = rng.randint(1, 3)
    layout = gen_threaded_layout(rng, pspec, nt, rng.choice(['fanout_seq', 'fanout_rr']))
    ctx.count('strategy_d_threaded')
    run_d(ctx, {'strategy': 'd', 'spec': pspec, 'layout': layout, 'k': rng.randint(2, 4),
                'via': rng.choice(['make', 'make', 'ds']), 'jitter': rng.randrange(1000)},
          want, twin)
    runs += 1
    for j in range(spec['n_e']):
      if j % 4 == 3 and not pspec.get('mid_agg'):
        layout = {'kind': 'c16', 'agg_fused': rng.random() < 0.5,
                  'num_threads': rng.choice([0, 0, 2])}
      elif j % 4 == 2:
        layout = gen_threaded_layout(rng, pspec, rng.randint(1, 3), rng.choice(['staged', 'mixed']))
      else:
        layout = w.gen_layout(rng, pspec, p_split=0.6)
      case = {'strategy': 'e', 'spec': pspec, 'layout': layout,
              'bufs': [rng.randint(0, 3) for _ in range(3)], 'jitter': rng.randrange(1000)}
      run_e(ctx, case, want, twin)
      runs += 1
    if runs > 25:
      gc.collect()
      runs = 0


def chunk_e1(ctx, spec):
  from vlib import c03work as w
  rng = random.Random(spec['rseed'] * 1000003 + spec['chunk'] * 13 + 3)
  for i in range(spec['n_pipe']):
    pspec = gen_spec(rng, delays=False)
    if pspec.get('agg') and rng.random() < 0.35:
      # The final aggregate is also sliced per row by the bit length of the value:
      # shards then hold different sets of slice keys.
      # (Masked inputs become int64 arrays inside the library: only when every
      # value and the sum stay far below 2**63.)
      vals = [abs(v) for o in w.expected(pspec)[0] for v in o]
      if sum(vals) < 2 ** 50:
        pspec['slice'] = 'bits'
    if _two_aggs(pspec):
      ctx.count('two_agg_stage_specs')
    want = w.expected(pspec)
    twin = run_a(ctx, pspec, want)
    # (c)
    layouts = [w.gen_layout(rng, pspec, p_split=rng.choice([0.0, 0.3, 0.6, 1.0]))
               for _ in range(3)]
    layouts[0]['piecewise'] = True
    if not pspec.get('mid_agg') and not pspec.get('slice') and i % 3 == 0:
      layouts.append({'kind': 'c16', 'agg_fused': rng.random() < 0.5, 'num_threads': 0})
    for layout in layouts:
      run_c(ctx, {'strategy': 'c', 'spec': pspec, 'layout': layout}, want, twin)
    # (d)
    n_rec = len(w.c16lib.records(pspec['n'], pspec['rec']))
    ks = sorted(set([rng.randint(1, 3), rng.randint(2, 7), min(n_rec + 1, 7)]))
    for j, k in enumerate(ks):
      source = rng.choice(['seq', 'seq', 'rr'])
      if j == 0:
        layout = dict(w.reference_layout(pspec), source=source)
      else:
        layout = w.gen_layout(rng, pspec, source=source, p_split=rng.choice([0.0, 0.5]))
      via = 'make' if (j != 1) else 'ds'
      if not pspec.get('mid_agg') and not pspec.get('slice') and j == 2 and i % 4 == 0:
        layout, via = {'kind': 'c16', 'agg_fused': rng.random() < 0.5, 'num_threads': 0}, 'ds'
      run_d(ctx, {'strategy': 'd', 'spec': pspec, 'layout': layout, 'k': k, 'via': via},
            want, twin)


def check_shard_without_source(ctx, k, n):
  """make(shard=) on a pipeline no stage of which owns a data source: either it is
  rejected, or the k shard runs over the data handed to iterate() partition it."""
  from ml_metrics._src.chainables import io, transform
  from vlib import c16lib
  T = transform.TreeTransform
  case = {'strategy': 'shard_without_source', 'k': k, 'n': n}
  ctx.count('shard_without_source_checks')
  ctx.case(('shard_without_source', k, n), k >= 2 and n >= 2)
  data = [[i] for i in range(n)]
  outs = []
  for layout in ('fused', 'chained'):
    if layout == 'fused':
      p = T.new().apply(fn=c16lib.op_square).aggregate(fn=c16lib.SumCount(), output_keys='agg')
    else:
      p = T.new(name='a').apply(fn=c16lib.op_square).chain(
          T.new(name='b').aggregate(fn=c16lib.SumCount(), output_keys='agg'))
    got = []
    try:
      for i in range(k):
        got.extend(map(list, p.make(shard=io.ShardConfig(i, k)).iterate(data)))
    except Exception as e:  # pylint: disable=broad-exception-caught
      ctx.observe('shard_without_source_rejected', f'{layout}: {type(e).__name__}')
      continue
    want = sorted([i * i] for i in range(n))
    if sorted(got) != want:
      ctx.violation('shard_without_data_source_not_a_partition', dict(case, layout=layout),
                    {'got': sorted(got)[:40], 'want': want[:40]},
                    mechanism='d:make-shard-without-data-source-runs-whole-input')
  del outs


K_OWN_SHARD = 'd:make-shard-ignores-the-shard-of-its-data-source'


def check_shard_of_sharded_source(ctx, kind, n, own, k):
  """The pipeline's data source is itself a shard (own = (i, m)): the k shard runs of
  make(shard=) partition what that data source covers."""
  from ml_metrics._src.chainables import io, transform
  from vlib import c16lib
  case = {'strategy': 'shard_of_sharded_source', 'kind': kind, 'n': n, 'own': list(own), 'k': k}
  ctx.count('shard_of_sharded_source_checks')
  ctx.case(('shard_of_sharded_source', kind, n, tuple(own), k), k >= 2 and n >= 2)
  recs = [[i] for i in range(n)]
  base = io.SequenceDataSource(recs) if kind == 'seq' else io.ShardedIterable(recs)
  ds = base.shard(*own)
  covered = sorted(map(list, ds))
  p = transform.TreeTransform.new().data_source(ds).apply(fn=c16lib.op_affine)
  got = []
  try:
    for i in range(k):
      got.extend(map(list, p.make(shard=io.ShardConfig(i, k)).iterate()))
  except Exception as e:  # pylint: disable=broad-exception-caught
    ctx.violation('sharded_run_raised', case, {'error': f'{type(e).__name__}: {e}'[:200]},
                  mechanism='d:shard-of-sharded-source:raises')
    return
  want = sorted(c16lib.op_affine(r) for r in covered)
  if sorted(got) != want:
    whole = sorted(c16lib.op_affine(r) for r in recs)
    ctx.violation('shards_do_not_partition_the_data_source', case,
                  {'got': sorted(got)[:30], 'want': want[:30],
                   'equals_whole_underlying_data': sorted(got) == whole},
                  mechanism=K_OWN_SHARD if sorted(got) == whole else 'd:shard-of-sharded-source:differs')


# -- (f) an aggregation fails: the strategies agree on the outcome ---------------------

K_TRUNC = 'chained-upstream-aggregation-error-truncates-run-under-ignore-error'
K_OPTRUNC = 'chained-upstream-operator-error-outside-skippable-call-truncates-run'
FAULT_WITNESSES_PER_CLASS = 3


def _fviol(ctx, kind, case, detail, mechanism):
  """Counts every violation; keeps a few literal witnesses per class and chunk."""
  ctx.count('viol:' + mechanism)
  seen = ctx.__dict__.setdefault('_c03_fault_seen', {})
  seen[(kind, mechanism)] = seen.get((kind, mechanism), 0) + 1
  if seen[(kind, mechanism)] <= FAULT_WITNESSES_PER_CLASS:
    ctx.violation(kind, case, detail, mechanism=mechanism)


def _fault_run(ctx, case, fspec, layout, ie, tag):
  from vlib import c03fault as F
  if any(layout['threads']):
    return _guarded(ctx, case, lambda: F.run(fspec, layout, ie), tag)
  try:
    return F.run(fspec, layout, ie)
  except Exception as e:  # pylint: disable=broad-exception-caught
    # F.run reports what the pipeline raises while it RUNS; this is building it.
    ctx.violation('build_raised', case, {'error': f'{type(e).__name__}: {str(e)[:300]}'},
                  mechanism=f'{tag}:build-raises:{type(e).__name__}')
    return None


def _short(res):
  if res is None:
    return None
  out = {k: v for k, v in res.items() if k != 'outs'}
  out['n_outs'] = len(res['outs'])
  return out


def check_fault_case(ctx, case, ref=None):
  """One (pipeline with an optionally failing aggregate, layout, ignore_error) run
  against its fused single-threaded twin: same outcome class (raised | completed)
  and, when both completed, the same batches and aggregates. Fault-free cases are
  also compared with the plain-Python model."""
  from vlib import c03fault as F
  fspec, layout, ie = case['fspec'], case['layout'], case['ie']
  lcls, fcls = F.layout_class(layout), F.fault_class(fspec, layout)
  tag = f'f:{lcls}:{fcls}:ignore_error={int(ie)}'
  mdl = F.model(fspec)
  full = collections.Counter(F.canon_batch(o) for o in mdl['outs'])
  if ref is None:
    ref = run_fault_reference(ctx, fspec, ie, mdl)
    if ref is None:
      return
  res = _fault_run(ctx, case, fspec, layout, ie, tag)
  ctx.count('fault_cases')
  ctx.count('fault_runs_' + layout['kind'])
  if any(layout['threads']):
    ctx.count('fault_runs_threaded')
  ctx.count('fault_class_' + fcls.replace('-', '_') + ('_ignore_error' if ie else ''))
  if 'op' in (fspec.get('fault') or {}):
    ctx.count('fault_op_' + fspec['fault']['mode'] + '_cases')
  ctx.case(('fault', fspec, layout, ie), len(mdl['outs']) >= 2)
  if res is None:
    return
  ctx.count('fault_outcomes_compared')
  got = collections.Counter(res['outs'])
  if res['cls'] != ref['cls']:
    mech = f'{tag}:{res["cls"]}-but-fused-twin-{ref["cls"]}'
    if (ie and fcls in ('fault-in-non-final-stage', 'op-fault-in-non-final-stage')
        and layout['kind'] == 'chained' and res['cls'] == 'completed'):
      # Input class of the audited defect: ignore_error, the failing aggregate has a
      # stage downstream. Signature: the run ends normally, holds nothing but
      # batches of the dataset, lacks the refused batch (single-threaded: it is
      # exactly the batches in front of it), and the batches behind it are gone.
      j = fspec['fault']['batch']
      bad = F.canon_batch(mdl['outs'][j])
      before = [F.canon_batch(o) for o in mdl['outs'][:j]]
      if any(layout['threads']):
        sig = not (got - full) and bad not in got and sum(got.values()) < sum(full.values())
      else:
        sig = res['outs'] == before
      if sig:
        mech = K_OPTRUNC if fcls.startswith('op-') else K_TRUNC
    _fviol(ctx, 'outcome_differs_between_strategies', case,
           {'this_run': _short(res), 'fused_single_threaded_twin': _short(ref),
            'batches_of_the_dataset': sum(full.values()),
            'delivered': len(res['outs']),
            'failing_batch_index': (fspec.get('fault') or {}).get('batch')}, mech)
    return
  if res['cls'] == 'raised':
    ctx.count('fault_both_raised')
    if res['exc'] != ref['exc']:
      ctx.observe('fault_exception_type_differs', f'{res["exc"]} vs fused {ref["exc"]}')
    return
  ctx.count('fault_results_compared')
  ctx.count('batches_compared', len(res['outs']))
  if got != collections.Counter(ref['outs']):
    _fviol(ctx, 'output_multiset_differs', case,
           {'missing': sorted((collections.Counter(ref['outs']) - got).elements())[:4],
            'unexpected': sorted((got - collections.Counter(ref['outs'])).elements())[:4]},
           f'{tag}:outputs-differ')
  elif res['agg'] != ref['agg'] or res['ret'] != ref['agg']:
    _fviol(ctx, 'aggregate_differs', case,
           {'agg': res['agg'], 'returned': res['ret'], 'fused_twin': ref['agg']},
           f'{tag}:aggregate-differs')


def run_fault_reference(ctx, fspec, ie, mdl=None):
  """The fused single-threaded run; fault-free: equal to the plain-Python model."""
  from vlib import c03fault as F
  mdl = mdl or F.model(fspec)
  layout = F.fused_layout(0)
  case = {'strategy': 'fault', 'fspec': fspec, 'layout': layout, 'ie': ie}
  fcls = F.fault_class(fspec, layout)
  tag = f'f:fused-single-threaded:{fcls}:ignore_error={int(ie)}'
  ref = _fault_run(ctx, case, fspec, layout, ie, tag)
  ctx.count('fault_reference_runs')
  if ref is None:
    return None
  if not fspec.get('fault'):
    ctx.count('fault_free_model_checks')
    if any(el[0] == 'apply' for el in fspec['els']):
      ctx.count('fault_free_apply_model_checks')
    want = [F.canon_batch(o) for o in mdl['outs']]
    if ref['cls'] != 'completed':
      _fviol(ctx, 'run_raised', case, _short(ref), f'{tag}:raises:{ref.get("exc")}')
      return None
    if ref['outs'] != want or ref['agg'] != mdl['aggs'] or ref['ret'] != mdl['aggs']:
      _fviol(ctx, 'differs_from_model', case,
             {'got': _short(ref), 'want_aggs': mdl['aggs'], 'want_batches': len(want)},
             f'{tag}:differs-from-model')
      return None
  return ref


def chunk_fault(ctx, spec):
  from vlib import c03fault as F
  sys.setswitchinterval(1e-5)
  rng = random.Random(spec['rseed'] * 1000003 + spec['chunk'] * 13 + 5)
  # The second fault class draws from a stream of its own: the cases of the first
  # one stay what they were.
  rng2 = random.Random(spec['rseed'] * 7919 + spec['chunk'] * 31 + 11)
  runs = 0
  for i in range(spec['n_pipe']):
    fspec = F.gen_fspec(rng)
    if i % 8 == 0 and not fspec.get('fault'):
      # every chunk holds the triggering input class, whatever the seed
      outs = F.model(fspec)['outs']
      if outs:
        fspec['fault'] = {'agg': F.agg_keys(fspec)[0], 'batch': rng.randrange(len(outs)),
                          'exc': rng.choice(F.EXC_NAMES)}
    layouts = [F.fused_layout(rng.randint(1, 3))]
    for p_split in (0.3, 0.7):
      lay = F.gen_chained_layout(rng, fspec, p_split)
      layouts.append(lay)
    layouts.append(F.with_threads(rng, rng.choice(layouts[1:])))
    if i % 8 == 0:
      # every element is a named stage of its own
      layouts.append({'kind': 'chained', 'threads': [0] * (len(fspec['els']) + 1),
                      'stages': list(range(len(fspec['els']) + 1))})
    for ie in (False, True):
      ref = run_fault_reference(ctx, fspec, ie)
      if ref is None:
        continue
      for layout in layouts:
        case = {'strategy': 'fault', 'fspec': fspec, 'layout': layout, 'ie': ie}
        check_fault_case(ctx, case, ref)
        runs += 1
    if len(ctx.samples) < 2 and fspec.get('fault'):
      ctx.sample({'fspec': fspec, 'layouts': layouts[:3]})
    if i % 3 == 1:
      runs += chunk_fault_op(ctx, rng2, fspec, i)
    if runs > 200:
      gc.collect()
      runs = 0


def chunk_fault_op(ctx, rng, base, i):
  """Fault class 'the last operator fails outside the skippable call' on a variant
  of the pipeline `base`: fused with threads, 2 random chains, one of them with
  threads (never on a failing stage that has a stage downstream, see ASSUMPTIONS),
  periodically every element a stage of its own."""
  from vlib import c03fault as F
  # i % 12 == 1: fault-free (the apply operator against the model); otherwise failing
  fspec = F.with_last_apply(rng, base, p_fault=0.0 if i % 12 == 1 else 1.0)
  if fspec is None:
    return 0
  if fspec.get('fault'):
    fspec['fault']['mode'] = F.OP_FAULT_MODES[(i // 3) % 2]   # both modes in every chunk
    next(el for el in fspec['els'] if el[0] == 'apply')[5] = (
        fspec['rec'] if fspec['fault']['mode'] == 'nonbatch' else rng.choice([0, fspec['rec']]))
  layouts = [F.fused_layout(rng.randint(1, 3))]
  for p_split in (0.3, 0.7):
    layouts.append(F.gen_chained_layout(rng, fspec, p_split))
  if i % 6 == 1:
    layouts.append({'kind': 'chained', 'threads': [0] * (len(fspec['els']) + 1),
                    'stages': list(range(len(fspec['els']) + 1))})
  lay = F.with_threads(rng, rng.choice(layouts[1:3]))
  if F.fault_class(fspec, lay) == 'op-fault-in-non-final-stage':
    lay['threads'][F.fault_stage(fspec, lay)] = 0
  if any(lay['threads']):
    layouts.append(lay)
  runs = 0
  for ie in (False, True):
    ref = run_fault_reference(ctx, fspec, ie)
    if ref is None:
      continue
    for layout in layouts:
      check_fault_case(ctx, {'strategy': 'fault', 'fspec': fspec, 'layout': layout, 'ie': ie}, ref)
      runs += 1
  return runs


def run_chunk(ctx, spec):
  if spec['mode'] == 'fault':
    chunk_fault(ctx, spec)
    return
  if spec['mode'] == 'e1':
    rng0 = random.Random(spec['rseed'] * 7 + spec.get('chunk', 0))
    for _ in range(4):
      m = rng0.randint(2, 3)
      check_shard_of_sharded_source(ctx, rng0.choice(['seq', 'rr']), rng0.randint(2, 12),
                                    (rng0.randrange(m), m), rng0.randint(1, 3))
    for k in (1, 2, 3):
      check_shard_without_source(ctx, k, 4)
  {'sched': chunk_sched, 'native': chunk_native, 'e1': chunk_e1}[spec['mode']](ctx, spec)


def run_case(ctx, case):
  from vlib import c03work as w
  if case.get('strategy') == 'fault':
    sys.setswitchinterval(1e-5)
    check_fault_case(ctx, case)
    return
  spec = case['spec']
  want = w.expected(spec)
  strategy = case['strategy']
  if strategy == 'shard_of_sharded_source':
    check_shard_of_sharded_source(ctx, case['kind'], case['n'], tuple(case['own']), case['k'])
    return
  if strategy == 'shard_without_source':
    check_shard_without_source(ctx, case['k'], case['n'])
    return
  if strategy == 'a':
    run_a(ctx, spec, want)
    return
  twin = run_a(ctx, spec, want)
  if strategy == 'b_sched':
    run_b_sched(ctx, case, want, twin)
  elif strategy == 'b_native':
    sys.setswitchinterval(1e-5)
    run_b_native(ctx, case, want, twin)
  elif strategy == 'c':
    run_c(ctx, case, want, twin)
  elif strategy == 'd':
    run_d(ctx, case, want, twin)
  elif strategy == 'e':
    sys.setswitchinterval(1e-5)
    run_e(ctx, case, want, twin)
  else:
    raise ValueError(strategy)
