"""C04 - iterator queues: exactly once, per-producer order, termination.

Engine E2: the real IteratorQueue runs under the deterministic scheduler with
pre-emption at every synchronisation operation and at statement boundaries of
the anchored functions.  Oracle: offline checker on the recorded event log
(unique ids per produced element) + exact deadlock detection.
"""

from __future__ import annotations

import random

from vlib import runner

ID = 'C04'
LEVEL = 'exploration'
RULE = (
    'a case is (queue configuration, schedule): producers 1-4 with 0-4 uniquely '
    'numbered elements each and a return value, consumers 1-3 with a dequeue mode '
    '(get, get_batch(k, block), get_batch(), iterator, mixed), capacity 0-3, raw queue '
    'flavour (SimpleQueue, Queue, asyncio.Queue), max_enqueuer preset or discovered, '
    'timeout unset or set; the schedule is chosen by a seeded random-walk or PCT strategy '
    'over yield points at every lock/condition operation and statement boundary of the '
    'queue methods. Non-trivial = at least 2 threads and at least one pre-emption at a '
    'statement boundary inside an anchored function; distinct = (configuration, schedule '
    'choice trace) hash')
ASSUMPTIONS = [
    'with several producers max_enqueuer is preset to the producer count (as piter_multiplex does); discovery is only valid for one producer',
    'Condition.notify wakes waiters in FIFO order and there are no spurious wake-ups (CPython behaviour)',
    'a timed wait (timeout configured) can only expire when no thread is enabled (global starvation); an unexpected TimeoutError in a fault-free run is reported as a violation',
    'pre-emption happens between Python statements of the anchored functions and at synchronisation operations, not inside a single statement',
    'the raw queue.Queue/SimpleQueue/asyncio.Queue objects are trusted and used through their non-blocking methods only',
]
REQUIRED = ['async_cases', 'schedules', 'line_preemptions', 'lock_ops', 'cond_waits', 'recv_events',
            'shim_threading_installed']
CHUNK_TIMEOUT_S = {'quick': 300, 'thorough': 3000}

MODES = ['get', 'get', 'batch_nb:1', 'batch_nb:2', 'batch_nb:3',
         'batch_b:1', 'batch_b:2', 'batch_b:3', 'batch0', 'iter', 'mixed']


def gen_config(rng):
  P = rng.choice([1, 1, 2, 2, 3, 4])
  lens = [rng.choice([0, 1, 2, 2, 3, 4]) for _ in range(P)]
  C = rng.choice([1, 1, 2, 2, 3])
  cap = rng.choice([0, 1, 1, 2, 3])
  if cap == 0:
    flavour = rng.choice(['default', 'simple', 'asyncio', 'queue'])
  else:
    flavour = rng.choice(['default', 'queue', 'asyncio'])
  modes = [rng.choice(MODES) for _ in range(C)]
  preset = True if P > 1 else rng.random() < 0.5
  return {
      'P': P, 'lens': lens, 'C': C, 'cap': cap, 'flavour': flavour,
      'modes': modes, 'preset': preset,
      'timeout': rng.choice([None, None, 5.0]),
      'mode_seed': rng.randrange(1000),
  }


def plan(tier, seed):
  n_cfg, n_sched = (160, 120) if tier == 'quick' else (1600, 600)
  chunks = 32 if tier == 'quick' else 64
  return [{'chunk': i, 'chunks': chunks, 'n_cfg': n_cfg, 'n_sched': n_sched,
           'rseed': seed} for i in range(chunks)] + [
      {'mode': 'async', 'chunk': j, 'rseed': seed,
       'n': 120 if tier == 'quick' else 4000} for j in range(2 if tier == 'quick' else 8)]


def run_one(ctx, case):
  from vlib import qwork
  from vlib.sched import shims
  before = dict(shims.EVENTS)
  sched, log, info = qwork.run_queue_case(case)
  ctx.count('schedules')
  ctx.count('lock_ops', shims.EVENTS['lock_ops'] - before['lock_ops'])
  ctx.count('cond_waits', shims.EVENTS['cond_waits'] - before['cond_waits'])
  ctx.count('line_preemptions', sched.line_preemptions)
  ctx.count('preemptions', sched.preemptions)
  ctx.count('switches', sched.switches)
  ctx.count('recv_events', sum(1 for e in log if e[0] == 'recv'))
  if 'threading' in info['shims']:
    ctx.count('shim_threading_installed')
  for site, n in sched.preempt_sites.items():
    fn = site.split(':')[0]
    if fn == '_release_and_notify':
      ctx.count('preempt_in_release_and_notify', n)
    elif fn == 'get_nowait':
      ctx.count('preempt_in_get_nowait', n)
  cfg_key = {k: v for k, v in case.items() if k not in ('sched_seed',)}
  nontrivial = (case['P'] + case['C'] >= 2) and sched.line_preemptions >= 1
  ctx.case((runner.stable_hash(cfg_key), sched.trace_hash()), nontrivial)
  if sched.status in ('watchdog', 'step_bound'):
    ctx.inconclusive_case(sched.status, case)
    return
  problems = qwork.analyse(case, sched, log)
  for kind, detail in problems:
    ctx.violation(kind, case, {'detail': detail, 'log_tail': log[-25:]},
                  mechanism=f'queue-{kind}')
  if len(ctx.samples) < 3:
    ctx.sample({'case': case, 'events': log[:40], 'switches': sched.switches,
                'line_preemptions': sched.line_preemptions})


def run_async_chunk(ctx, spec):
  """AsyncIteratorQueue (asyncio producers, sync/async consumers) on native threads."""
  from vlib import aqwork
  rng = random.Random(spec['rseed'] * 9176 + spec['chunk'] * 131 + 0)
  for i in range(spec['n']):
    P = rng.choice([1, 2, 3])
    lens = [rng.randint(0, 5) for _ in range(P)]
    C = rng.choice([1, 2, 3])
    case = {'engine': 'async', 'P': P, 'lens': lens, 'C': C, 'cap': rng.choice([0, 1, 2, 3]),
            'modes': [rng.choice(['async', 'get', 'batch', 'batch_b']) for _ in range(C)],
            'delay_seed': rng.randrange(1 << 20)}
    if 0:
      p = rng.randrange(P)
      case['fault'] = {'p': p, 'at': rng.randint(0, lens[p])}
    run_async_one(ctx, case)


def run_async_one(ctx, case):
  from vlib import aqwork
  finished, log = aqwork.run_async_case(case, 30)
  if not finished:
    finished, log = aqwork.run_async_case(case, 30)
    if not finished:
      ctx.violation('no_completion_within_watchdog', case, {'log_tail': log[-20:]},
                    mechanism='async-queue-hang')
      return
    ctx.inconclusive_case('async case hit the watchdog once', case)
  ctx.count('async_cases')
  ctx.count('async_recv_events', sum(1 for e in log if e[0] == 'recv'))
  ctx.case(('async', case), case['P'] + case['C'] >= 3)
  for kind, detail in aqwork.analyse(case, log):
    ctx.violation(kind, case, {'detail': detail, 'log_tail': log[-20:]},
                  mechanism=f'async-queue-{kind}')


def run_chunk(ctx, spec):
  if spec.get('mode') == 'async':
    return run_async_chunk(ctx, spec)
  rng = random.Random(spec['rseed'] * 1000003 + 17)
  configs = [gen_config(rng) for _ in range(spec['n_cfg'])]
  mine = [c for i, c in enumerate(configs) if i % spec['chunks'] == spec['chunk']]
  srng = random.Random(spec['rseed'] * 7919 + spec['chunk'])
  for cfg in mine:
    for j in range(spec['n_sched']):
      case = dict(cfg)
      case['sched_seed'] = srng.randrange(1 << 30)
      r = j % 4
      case['strategy'] = 'pct' if r == 3 else 'random'
      case['p_line'] = [0.05, 0.15, 0.4, 0.0][r]
      case['p_sync'] = [0.3, 0.5, 0.7, 0.0][r]
      run_one(ctx, case)


def run_case(ctx, case):
  if case.get('engine') == 'async':
    return run_async_one(ctx, case)
  run_one(ctx, case)
