"""C04 - iterator queues: exactly once, per-producer order, termination.

Engine E2: the real IteratorQueue runs under the deterministic scheduler with
pre-emption at every synchronisation operation and at statement boundaries of
the anchored functions.  Oracle: offline checker on the recorded event log
(unique ids per produced element) + exact deadlock detection.  Besides the blocking
operations the cases cover timeouts firing mid-stream (timing variants), one side using
the public non-blocking operation in a loop (polling variants) and, on native threads,
AsyncIteratorQueue incl. producers handed over as awaitables (awaitable variants).
"""

from __future__ import annotations

import random

from vlib import runner

ID = 'C04'
LEVEL = 'exploration'
RULE = (
    'a case is (queue configuration, schedule): producers 1-4 with 0-4 uniquely '
    'numbered elements each and a return value, consumers 1-3 with a dequeue mode '
    '(get, get_batch(k, block), get_batch(), iterator, mixed), capacity 0-3, raw queue '
    'flavour (SimpleQueue, Queue, asyncio.Queue), max_enqueuer preset or discovered, '
    'timeout unset or set; the schedule is chosen by a seeded random-walk or PCT strategy '
    'over yield points at every lock/condition operation and statement boundary of the '
    'queue methods. Non-trivial = at least 2 threads and at least one pre-emption at a '
    'statement boundary inside an anchored function; distinct = (configuration, schedule '
    'choice trace) hash. Timing variants of every configuration (vlib/qwork.timing_variants): '
    'a timeout is configured and (a) the consumers sleep before their first 1-3 operations or '
    'only turn up once the producers returned, on a bounded buffer, with and without '
    'ignore_error, or (b) the sources sleep before 1-2 elements and the consumers (any mode, '
    'one forced to get_batch(k, block=True)) retry after a TimeoutError; oracle: no produced '
    'element vanishes without a reported error. batch_then_away variant of every configuration '
    '(vlib/qwork.away_variants): buffer of 2-3 with a timeout, 2-4 producers x 2-4 elements, one '
    'consumer that only dequeues through get_batch() / the iterator and is parked between its '
    'operations until the buffer is full again or every producer returned; fault-free oracle. '
    'Polling variants of every configuration '
    '(vlib/qwork.poll_variants): one side uses the public non-blocking operation in a loop - one '
    'or all consumers only call get_nowait() (queue.Empty = try again) against producers blocking '
    'in put() on a bounded buffer of 1-3 (at least one source longer than the buffer) or on the '
    'capacity as generated; all producers call put_nowait() (queue.Full = try again; the last one '
    'closes the stream with maybe_stop(), at once or once the buffer was emptied) against blocking '
    'consumers of any mode; or both sides poll; same oracle as the fault-free cases + exact '
    'deadlock detection. Native async cases additionally with producers handed to '
    'async_enqueue_from_iterator as AWAITABLES resolving to the source (iterator or plain async '
    'iterable, with a return value) after 0-100 event-loop yields or 0-20 ms, 1-4 producers, '
    'oracle with return values')
ASSUMPTIONS = [
    'with several producers max_enqueuer is preset to the producer count (as piter_multiplex does); discovery is only valid for one producer',
    'Condition.notify wakes waiters in FIFO order and there are no spurious wake-ups (CPython behaviour)',
    'a timed wait (timeout configured) can only expire when no thread is enabled (global starvation); an unexpected TimeoutError in a fault-free run is reported as a violation',
    'pre-emption happens between Python statements of the anchored functions and at synchronisation operations, not inside a single statement',
    'the raw queue.Queue/SimpleQueue/asyncio.Queue objects are trusted and used through their non-blocking methods only',
    'timing variants: a sleeping thread is a timed wait that never becomes enabled; which of several pending timed waits (sleeps, queue timeouts) expires first under global starvation is a seeded choice, i.e. a sleep may be shorter or longer than the timeout; TimeoutErrors are expected there and are not verdicts',
    'timing variants: a consumer retries a dequeue that raised TimeoutError as long as queue.exception is None (at most 40 times, then it ends with the TimeoutError); a run in which any producer raised, the queue recorded an exception or a consumer ended with an exception counts as reported and is not checked for completeness',
    'timing and polling variants: put() of the queue instance and the raw buffer object (get_nowait / put_nowait / empty) are wrapped by pass-through recorders (used only to attribute a loss or a starved peer to its call site, never for the verdict)',
    'batch_then_away variant: the consumer is not runnable between its queue operations until the buffer is full or all producers returned (a consumer busy for longer than the timeout); a timed wait that expires meanwhile (only under global starvation) belongs to a producer asleep in put() although the buffer has room: the resulting TimeoutError / failed stream is a violation (fault-free oracle)',
    'polling variants: a poller that got queue.Empty / queue.Full polls again once the outcome of the poll can have changed (buffer non-empty, queue done or exhausted / buffer not full): equivalent to spinning, but a spinner cannot starve the schedule or mask a deadlock; at most 400 polls per element (a case that hits the bound is inconclusive)',
    'polling variants: producers that put_nowait() are not registered enqueuers (max_enqueuer unset, no return values); the end of the stream is the public maybe_stop() issued by the last of them after its last element was put, immediately or once the buffer is empty; blocking and polling producers are never mixed on one queue (the queue cannot know an unregistered producer is still running)',
    'polling variants: a timed wait (timeout configured) of the blocking peer can only expire under global starvation, i.e. when every poller waits for a change of the buffer: such a TimeoutError in a fault-free run is a violation as in the base cases',
    'awaitable variants (native threads): the coroutines of all producers are started in the same event-loop iteration before any consumer; a case that does not complete within its watchdog (4 s, cases take milliseconds) is run again with twice the watchdog; one expiry is inconclusive, two are a violation keyed by scenario + recorded final state; after one confirmed hang in a chunk its remaining bounded-buffer cases are skipped (counter async_awaitable_bounded_cases_skipped_after_hang)',
]
REQUIRED = ['async_cases', 'schedules', 'line_preemptions', 'lock_ops', 'cond_waits', 'recv_events',
            'shim_threading_installed', 'timing_cases', 'timing_timeouts_fired', 'timing_naps',
            'timing_consumer_retries', 'timing_put_timeouts', 'timing_complete_streams',
            'poll_cases', 'poll_consumer_polls', 'poll_producer_polls', 'poll_both_poll',
            'poll_get_nowait_calls', 'poll_put_nowait_calls', 'poll_empty_seen', 'poll_full_seen',
            'poll_close_after_drain', 'async_awaitable_cases', 'async_awaitables_resolved',
            'async_return_values_seen', 'away_cases', 'away_parks',
            'away_batches_freeing_several_slots']
CHUNK_TIMEOUT_S = {'quick': 300, 'thorough': 3000}

MODES = ['get', 'get', 'batch_nb:1', 'batch_nb:2', 'batch_nb:3',
         'batch_b:1', 'batch_b:2', 'batch_b:3', 'batch0', 'iter', 'mixed']


def gen_config(rng):
  P = rng.choice([1, 1, 2, 2, 3, 4])
  lens = [rng.choice([0, 1, 2, 2, 3, 4]) for _ in range(P)]
  C = rng.choice([1, 1, 2, 2, 3])
  cap = rng.choice([0, 1, 1, 2, 3])
  if cap == 0:
    flavour = rng.choice(['default', 'simple', 'asyncio', 'queue'])
  else:
    flavour = rng.choice(['default', 'queue', 'asyncio'])
  modes = [rng.choice(MODES) for _ in range(C)]
  preset = True if P > 1 else rng.random() < 0.5
  return {
      'P': P, 'lens': lens, 'C': C, 'cap': cap, 'flavour': flavour,
      'modes': modes, 'preset': preset,
      'timeout': rng.choice([None, None, 5.0]),
      'mode_seed': rng.randrange(1000),
  }


def plan(tier, seed):
  n_cfg, n_sched = (160, 120) if tier == 'quick' else (1600, 600)
  chunks = 32 if tier == 'quick' else 64
  sched = [{'chunk': i, 'chunks': chunks, 'n_cfg': n_cfg, 'n_sched': n_sched,
            'n_tsched': 4 if tier == 'quick' else 16,
            'n_psched': 6 if tier == 'quick' else 24,
            'rseed': seed} for i in range(chunks)]
  awaitable = [{'mode': 'async_awaitable', 'chunk': j, 'rseed': seed,
                'n': 80 if tier == 'quick' else 1500}
               for j in range(2 if tier == 'quick' else 8)]
  plain_async = [{'mode': 'async', 'chunk': j, 'rseed': seed,
                  'n': 120 if tier == 'quick' else 4000}
                 for j in range(2 if tier == 'quick' else 8)]
  # Awaitable chunks in the first wave: a case that hangs costs two watchdogs of idle
  # wall-clock (after one scheduler chunk, so that the first witnesses are of both engines).
  return sched[:1] + awaitable + sched[1:] + plain_async


def run_one(ctx, case):
  from vlib import qwork
  from vlib.sched import shims
  before = dict(shims.EVENTS)
  sched, log, info = qwork.run_queue_case(case)
  ctx.count('schedules')
  ctx.count('lock_ops', shims.EVENTS['lock_ops'] - before['lock_ops'])
  ctx.count('cond_waits', shims.EVENTS['cond_waits'] - before['cond_waits'])
  ctx.count('line_preemptions', sched.line_preemptions)
  ctx.count('preemptions', sched.preemptions)
  ctx.count('switches', sched.switches)
  ctx.count('recv_events', sum(1 for e in log if e[0] == 'recv'))
  if 'threading' in info['shims']:
    ctx.count('shim_threading_installed')
  for site, n in sched.preempt_sites.items():
    fn = site.split(':')[0]
    if fn == '_release_and_notify':
      ctx.count('preempt_in_release_and_notify', n)
    elif fn.lstrip('_') == 'get_nowait':
      ctx.count('preempt_in_get_nowait', n)
  cfg_key = {k: v for k, v in case.items() if k not in ('sched_seed',)}
  nontrivial = (case['P'] + case['C'] >= 2) and sched.line_preemptions >= 1
  ctx.case((runner.stable_hash(cfg_key), sched.trace_hash()), nontrivial)
  if sched.status in ('watchdog', 'step_bound'):
    ctx.inconclusive_case(sched.status, case)
    return
  if case.get('scn'):
    return check_timing(ctx, case, sched, log, info)
  if case.get('pollcls'):
    return check_poll(ctx, case, sched, log, info)
  problems = qwork.analyse(case, sched, log)
  for kind, detail in problems:
    ctx.violation(kind, case, {'detail': detail, 'log_tail': log[-25:]},
                  mechanism=f'queue-{kind}')
  if len(ctx.samples) < 3:
    ctx.sample({'case': case, 'events': log[:40], 'switches': sched.switches,
                'line_preemptions': sched.line_preemptions})


def check_timing(ctx, case, sched, log, info, prefix=''):
  """Oracle + counters of one timing-variant schedule (shared with C05)."""
  from vlib import qwork
  if case['scn'] == 'batch_then_away':
    return check_away(ctx, case, sched, log, info)
  ctx.count('timing_cases')
  ctx.count('timing_' + case['scn'])
  ctx.count('timing_timeouts_fired', sched.timeouts_fired)
  ctx.count('timing_naps', sum(1 for e in log if e[0] == 'nap'))
  ctx.count('timing_consumer_retries', sum(1 for e in log if e[0] == 'retry'))
  ctx.count('timing_put_timeouts', sum(1 for e in log if e[0] == 'put_timeout'))
  problems = qwork.analyse_timing(case, sched, log, info)
  if info.get('reports'):
    ctx.count('timing_runs_with_reported_error')
  elif not problems:
    ctx.count('timing_complete_streams')
  for kind, detail in problems:
    mech = qwork.classify_timing(case, kind, detail)
    if mech is None:
      mech = f'{prefix}{case["scn"]}:queue-{kind}{qwork.deadlock_sites(kind, detail)}'
    ctx.violation(kind, case, {'detail': detail, 'log_tail': log[-30:]}, mechanism=mech)
  if len(ctx.samples) < 5 and ctx.counters.get('timing_cases', 0) <= 2:
    ctx.sample({'case': case, 'events': log[:40]})


def check_away(ctx, case, sched, log, info):
  """Oracle + counters of one 'batch_then_away' schedule (vlib/qwork.away_variants)."""
  from vlib import qwork
  ctx.count('away_cases')
  ctx.count('away_parks', sum(1 for e in log if e[0] == 'away'))
  ctx.count('away_timeouts_fired', sched.timeouts_fired)
  ops = [i for i, e in enumerate(log) if e[0] == 'op'] + [len(log)]
  ctx.count('away_batches_freeing_several_slots',
            sum(1 for a, b in zip(ops, ops[1:])
                if sum(1 for e in log[a:b] if e[0] == 'deq') >= 2))
  problems, ev = qwork.analyse_away(case, sched, log)
  if not problems:
    ctx.count('away_complete_streams')
  for kind, detail, mech in problems:
    report_once_per_class(ctx, kind, case,
                          {'detail': detail, 'evidence': ev, 'log_tail': log[-30:]}, mech)


_WITNESSED = set()


def report_once_per_class(ctx, kind, case, detail, mech):
  """One replayable witness per (kind, mechanism) and chunk; every occurrence is counted.

  The polling / awaitable variants hit a root cause in a large share of their cases: the
  runner keeps the first witnesses it sees, which would all be of one class.
  """
  ctx.count('viol:' + mech)
  if (kind, mech) in _WITNESSED:
    return
  _WITNESSED.add((kind, mech))
  ctx.violation(kind, case, detail, mechanism=mech)


def check_poll(ctx, case, sched, log, info):
  """Oracle + counters of one polling-variant schedule (vlib/qwork.poll_variants)."""
  from vlib import qwork
  st = info['state']
  ctx.count('poll_cases')
  ctx.count('poll_' + case['pollcls'])
  ctx.count('poll_get_nowait_calls', st['get_nowait_calls'])
  ctx.count('poll_put_nowait_calls', st['put_nowait_calls'])
  ctx.count('poll_empty_seen', st['empty_seen'])
  ctx.count('poll_full_seen', st['full_seen'])
  if any(e[0] == 'close_wait' for e in log):
    ctx.count('poll_close_after_drain')
  if st['poll_bound_hit']:
    # A poller gave up: nothing can be said about completeness.
    ctx.inconclusive_case('poll bound hit', case)
    return
  problems, ev = qwork.analyse_poll(case, sched, log)
  if not problems:
    ctx.count('poll_complete_streams')
  for kind, detail, mech in problems:
    report_once_per_class(ctx, kind, case,
                          {'detail': detail, 'evidence': ev, 'log_tail': log[-30:]}, mech)
  if len(ctx.samples) < 6 and ctx.counters.get('poll_cases', 0) <= 2:
    ctx.sample({'case': case, 'events': log[:40]})


def run_async_chunk(ctx, spec):
  """AsyncIteratorQueue (asyncio producers, sync/async consumers) on native threads."""
  from vlib import aqwork
  rng = random.Random(spec['rseed'] * 9176 + spec['chunk'] * 131 + 0)
  for i in range(spec['n']):
    P = rng.choice([1, 2, 3])
    lens = [rng.randint(0, 5) for _ in range(P)]
    C = rng.choice([1, 2, 3])
    case = {'engine': 'async', 'P': P, 'lens': lens, 'C': C, 'cap': rng.choice([0, 1, 2, 3]),
            'modes': [rng.choice(['async', 'get', 'batch', 'batch_b']) for _ in range(C)],
            'delay_seed': rng.randrange(1 << 20)}
    if 0:
      p = rng.randrange(P)
      case['fault'] = {'p': p, 'at': rng.randint(0, lens[p])}
    run_async_one(ctx, case)


def run_async_one(ctx, case):
  from vlib import aqwork
  finished, log = aqwork.run_async_case(case, 30)
  if not finished:
    finished, log = aqwork.run_async_case(case, 30)
    if not finished:
      ctx.violation('no_completion_within_watchdog', case, {'log_tail': log[-20:]},
                    mechanism='async-queue-hang')
      return
    ctx.inconclusive_case('async case hit the watchdog once', case)
  ctx.count('async_cases')
  ctx.count('async_recv_events', sum(1 for e in log if e[0] == 'recv'))
  ctx.case(('async', case), case['P'] + case['C'] >= 3)
  for kind, detail in aqwork.analyse(case, log):
    ctx.violation(kind, case, {'detail': detail, 'log_tail': log[-20:]},
                  mechanism=f'async-queue-{kind}')


AWAITABLE_WATCHDOG_S = 4.0


def gen_awaitable_case(rng):
  """Some producers hand the queue an awaitable that resolves to their source later."""
  P = rng.choice([1, 2, 2, 3, 3, 4])
  lens = [rng.randint(0, 5) for _ in range(P)]
  C = rng.choice([1, 2, 3])

  def lateness():
    if rng.random() < 0.5:
      return ['yields', rng.choice([0, 1, 2, 5, 10, 30, 100])]
    return ['sleep', rng.choice([0.0, 0.0005, 0.002, 0.005, 0.02])]

  late = [lateness() if rng.random() < 0.5 else None for _ in range(P)]
  if not any(late):
    late[rng.randrange(P)] = lateness()
  return {'engine': 'async', 'scn': 'awaitable', 'P': P, 'lens': lens, 'C': C,
          'cap': rng.choice([0, 0, 1, 2, 3]), 'late': late,
          'iterables': [rng.random() < 0.3 for _ in range(P)],
          'modes': [rng.choice(['async', 'get', 'batch', 'batch_b']) for _ in range(C)],
          'delay_seed': rng.randrange(1 << 20), 'watchdog_s': AWAITABLE_WATCHDOG_S}


def run_awaitable_chunk(ctx, spec):
  rng = random.Random(spec['rseed'] * 9176 + spec['chunk'] * 131 + 7)
  hung = False
  for _ in range(spec['n']):
    case = gen_awaitable_case(rng)
    if hung and case['cap']:
      # Every further hang costs two watchdogs of wall-clock; only a producer parked on a
      # full bounded buffer can hang here: one witness per chunk, the unbounded cases go on.
      ctx.count('async_awaitable_bounded_cases_skipped_after_hang')
      continue
    if run_awaitable_one(ctx, case) == 'hang':
      hung = True


def run_awaitable_one(ctx, case):
  """Watchdog + one retry: one expiry is inconclusive, two are a violation."""
  from vlib import aqwork
  w = case.get('watchdog_s', 30)
  ctx.count('async_awaitable_cases')
  ctx.count('async_awaitable_producers', sum(1 for x in case['late'] if x))
  ctx.case(('async', case), case['P'] + case['C'] >= 3)
  finished, log = aqwork.run_async_case(case, w)
  if not finished:
    finished, log = aqwork.run_async_case(case, 2 * w)
    if not finished:
      report_once_per_class(ctx, 'no_completion_within_watchdog', case,
                            {'final_state': aqwork._final(log), 'log_tail': log[-20:]},  # pylint: disable=protected-access
                            aqwork.classify_hang(case, log))
      return 'hang'
    ctx.inconclusive_case('async awaitable case hit the watchdog once', case)
  ctx.count('async_recv_events', sum(1 for e in log if e[0] == 'recv'))
  ctx.count('async_awaitables_resolved', sum(1 for e in log if e[0] == 'resolved'))
  ctx.count('async_return_values_seen',
            sum(len(e[3]) for e in log if e[0] == 'end' and e[2] == 'stop'))
  problems = aqwork.analyse_awaitable(case, log)
  if not problems:
    ctx.count('async_awaitable_complete_streams')
  for kind, detail, mech in problems:
    report_once_per_class(ctx, kind, case,
                          {'detail': detail, 'resolved_after_queue_counted_as_done':
                           aqwork.premature_end(case, log), 'log_tail': log[-20:]}, mech)
  return 'done'


def run_chunk(ctx, spec):
  if spec.get('mode') == 'async':
    return run_async_chunk(ctx, spec)
  if spec.get('mode') == 'async_awaitable':
    return run_awaitable_chunk(ctx, spec)
  rng = random.Random(spec['rseed'] * 1000003 + 17)
  configs = [gen_config(rng) for _ in range(spec['n_cfg'])]
  mine = [c for i, c in enumerate(configs) if i % spec['chunks'] == spec['chunk']]
  srng = random.Random(spec['rseed'] * 7919 + spec['chunk'])
  for cfg in mine:
    for j in range(spec['n_sched']):
      case = dict(cfg)
      case['sched_seed'] = srng.randrange(1 << 30)
      r = j % 4
      case['strategy'] = 'pct' if r == 3 else 'random'
      case['p_line'] = [0.05, 0.15, 0.4, 0.0][r]
      case['p_sync'] = [0.3, 0.5, 0.7, 0.0][r]
      run_one(ctx, case)
  from vlib import qwork
  trng = random.Random(spec['rseed'] * 7919 + spec['chunk'] + 4004)
  for cfg in mine:
    for variant in qwork.timing_variants(cfg, trng) + qwork.away_variants(cfg, trng):
      for j in range(spec.get('n_tsched', 8)):
        case = dict(variant)
        case['sched_seed'] = trng.randrange(1 << 30)
        r = j % 4
        case['strategy'] = 'pct' if r == 3 else 'random'
        case['p_line'] = [0.05, 0.15, 0.4, 0.0][r]
        case['p_sync'] = [0.3, 0.5, 0.7, 0.0][r]
        run_one(ctx, case)
  prng = random.Random(spec['rseed'] * 7919 + spec['chunk'] + 6006)
  for cfg in mine:
    for variant in qwork.poll_variants(cfg, prng):
      for j in range(spec.get('n_psched', 6)):
        case = dict(variant)
        case['sched_seed'] = prng.randrange(1 << 30)
        r = j % 4
        case['strategy'] = 'pct' if r == 3 else 'random'
        case['p_line'] = [0.05, 0.15, 0.4, 0.0][r]
        case['p_sync'] = [0.3, 0.5, 0.7, 0.0][r]
        run_one(ctx, case)


def run_case(ctx, case):
  if case.get('engine') == 'async' and case.get('scn') == 'awaitable':
    return run_awaitable_one(ctx, case)
  if case.get('engine') == 'async':
    return run_async_one(ctx, case)
  run_one(ctx, case)
