"""C11 - Merging is associative, order-insensitive and never damages its operands.

Metamorphic, on the adapters of `vlib.agg_adapters` (shared with C01), through
the object API (merge) and the AggregateFn API (merge_states). One case =
(adapter, API mode, dataset seed, state sizes) and runs five sub-checks on the
states s1..sm built from the seeded data (size 0 = fresh state):

  grouping   every bracketing (m <= 4; sampled beyond) and, for commutative
             metrics, every permutation gives the result of the left fold;
             order-carrying metrics vary the bracketing only; the reservoir is
             checked for size / membership / reviewed count
  identity   merge(fresh, s) and merge(s, fresh) report what s reports
  operand    deep-copied twins say what each side has to report: the operand
             is unchanged by the merge, by a later update of the receiver, and
             stays independent (operand + Y == twin + Y, receiver unaffected)
  result     result() twice gives the same value; an accumulator whose result
             is read at random points ends like a twin that was never read
  scribble   (metrics whose result() is a defensive copy) writing into the
             returned arrays does not reach the accumulator

Every merge works on deep copies of the case's states, so the sub-checks do not
interfere. The case dict regenerates everything from its seed: replay is exact.
"""

from __future__ import annotations

import itertools
import random

from vlib import agg_adapters as A
from vlib import c11_scenarios as S
from vlib.props import C01 as _c01

ID = 'C11'
LEVEL = 'exploration'
RULE = (
    'case = (metric configuration [adapter + API mode], seeded data, sizes of the '
    '2-5 states [0 = fresh state], and within it every bracketing / permutation of '
    'the merge for m <= 4, 12 sampled bracketings x permutations beyond); states are '
    'built from 1 batch (30%: 2 batches; CallableMetric states half of the time '
    'directly by new(batch), as add() does internally); non-trivial = >= 3 states or a fresh state '
    'involved; distinct = hash(adapter, mode, dataset seed, sizes). Second audit round: '
    'sub-check "independence" (a state, then a second created state that is updated: the '
    'first must not change) on every adapter; KerasAggregateFn around a stand-in metric; '
    'scenario reservoir_many (vlib/c11_scenarios.py): 20-300 tiny FixedSizeSample states or '
    '3-8 states of 1e5-3e6 samples merged under two of {left fold, balanced tree, reversed, '
    'shuffled, one n-ary merge_states}, then result() twice and 1-3 further add()s; third '
    'audit round: scenario reservoir_unequal (vlib/c01_scenarios.py, shared with C01): 2-3 '
    'FixedSizeSample states of pairwise different max_size merged into the first, in both '
    'directions, at every fill level, one of 1e6 sampler seeds per case')
ASSUMPTIONS = list(_c01.ASSUMPTIONS) + [
    'a fresh state is what the constructor / create_state() returns, never fed',
    'states are not built by new(batch) from a batch that holds only NaN (such a state '
    'has count 0 but already a shape, a fresh one has none: [nan, nan] vs nan)',
    'grouping compares every bracketing / permutation with the in-order left fold of '
    'the same states (not with a single-batch run; that is C01)',
    'order-carrying accumulators (UnboundedSampler, ValueAccumulator) keep the order of '
    'the states and vary only the bracketing',
    'FixedSizeSample: merged results are compared in size, membership and reviewed '
    'count only; operand / twin comparisons use the reservoir as a multiset',
    'the scribble sub-check only runs for Histogram and CalibrationHistogram, whose '
    'result() is implemented as a copy (anchored mechanism); metrics that document '
    'nothing and return internal containers (Counter, UnboundedSampler, '
    'FixedSizeSample) are not scribbled on',
    'merge_states: only the first state may be modified (docstring of Aggregatable)',
    'adapters that exist for C01 input classes only (",all-metrics" / macro / '
    'binary-average configurations without vocabulary) are not iterated here '
    '(Adapter.checks); the merge laws on them are those of their sibling adapters',
    'reservoir_many: invariants only (size, membership, reviewed count, operand unchanged, '
    'result repeatable, add() after the merges works); sampling probabilities are not checked',
]
REQUIRED = ['grouping_checks', 'states_built_by_new', 'permutation_checks', 'identity_checks',
            'operand_checks', 'result_checks', 'scribble_checks', 'reservoir_checks',
            'obj_api_checks', 'aggfn_api_checks', 'fresh_state_cases',
            'nary_merge_states_checks', 'nary_operand_checks',
            'nary_operand_checks_4plus', 'independence_checks',
            'reservoir_many_states_cases', 'reservoir_many_tiny_cases',
            'reservoir_many_large_cases', 'reservoir_add_after_merge_checks',
            'reservoir_unequal_cases', 'reservoir_unequal_large_receiver_cases',
            'reservoir_unequal_small_receiver_cases', 'reservoir_unequal_audited_class_cases',
            'reservoir_unequal_merge_checks',
            ] + _c01.FAMILY_COUNTERS
EXHAUSTIVE = {'quick': False, 'thorough': False}
CHUNK_TIMEOUT_S = {'quick': 240, 'thorough': 3000}

N_CHUNKS = {'quick': 32, 'thorough': 64}
CASES_PER_ADAPTER_MODE = {'quick': 32, 'thorough': 1600}


def plan(tier, seed):
  ams = A.adapter_modes('C11')
  k = N_CHUNKS[tier]
  specs = [{'work': [], 'rseed': seed, 'cases': CASES_PER_ADAPTER_MODE[tier],
            'scenarios': S.plan_slice(tier, i, k)} for i in range(k)]
  parts = 1 if tier == 'quick' else 8
  j = 0
  for name, mode in ams:
    for part in range(parts):
      specs[j % k]['work'].append([name, mode, part, parts])
      j += 1
  return specs


def gen_case(rng, ad, mode, tier):
  m = rng.choice([2, 3, 3, 4, 4, 5])
  big = 40 if tier == 'thorough' else 8
  sizes = [0 if rng.random() < 0.25 else rng.randint(1, rng.choice([3, big]))
           for _ in range(m)]
  return {'adapter': ad.name, 'mode': mode, 'dseed': rng.getrandbits(40),
          'sizes': sizes}


# ---------------------------------------------------------------------------
# merge trees
# ---------------------------------------------------------------------------


def bracketings(items):
  """All binary merge trees over the sequence `items` (Catalan many)."""
  if len(items) == 1:
    return [items[0]]
  out = []
  for i in range(1, len(items)):
    for left in bracketings(items[:i]):
      for right in bracketings(items[i:]):
        out.append((left, right))
  return out


def left_fold(items):
  t = items[0]
  for x in items[1:]:
    t = (t, x)
  return t


def leaves(t):
  return [t] if isinstance(t, int) else [x for c in t for x in leaves(c)]


class _Raised(Exception):
  """An exception of the code under test at a named step."""

  def __init__(self, step, exc):
    super().__init__(step)
    self.step, self.exc = step, A.exc_info(exc)


def _guard(step, fn, *args):
  try:
    return fn(*args)
  except Exception as e:  # pylint: disable=broad-exception-caught
    raise _Raised(step, e) from e


# ---------------------------------------------------------------------------
# one case
# ---------------------------------------------------------------------------


def check_case(ctx, case, reg):
  ad = reg[case['adapter']]
  mode = case['mode']
  drv = A.Driver(ad, mode)
  sizes = case['sizes']
  m = len(sizes)
  rows = ad.gen_dataset(random.Random(case['dseed']), sum(sizes))
  rng = random.Random(case['dseed'] ^ 0x5BD1E995)
  extra = ad.gen_dataset(random.Random(case['dseed'] + 1), 5)
  x_rows, y_rows = extra[:2], extra[2:]
  ctx.case(('C11', ad.name, mode, case['dseed'], sizes), m >= 3 or 0 in sizes)
  ctx.count('family:' + ad.family)
  ctx.count('obj_api_checks' if mode == 'obj' else 'aggfn_api_checks')
  if 0 in sizes:
    ctx.count('fresh_state_cases')
  if getattr(ad, 'fixed_positions_macro_no_vocab', False):
    ctx.count('macro_fixed_position_no_vocab_cases')

  # ---- build the states (never read: result() is only called on clones) -------
  parts, pos = [], 0
  for s in sizes:
    parts.append(rows[pos:pos + s])
    pos += s
  states = []
  for part in parts:
    h = drv.make()
    if (part and mode == 'obj' and ad.one_batch_path == 'new'
        and ad.new_state_is_accumulator and rng.random() < 0.5
        and not _c01._all_nan(part)):  # pylint: disable=protected-access
      # A batch state exactly as the library builds it inside add(): new(batch).
      try:
        st = ad.one_batch_state(part)
      except Exception:  # pylint: disable=broad-exception-caught
        st = None
      if st is not None:
        ctx.count('states_built_by_new')
        states.append(A.Handle(st))
        continue
    if part:
      cut = rng.randint(1, len(part) - 1) if (len(part) >= 2 and rng.random() < 0.3) else 0
      try:
        if cut:
          drv.feed(h, part[:cut])
          drv.feed(h, part[cut:])
        else:
          drv.feed(h, part)
      except Exception:  # pylint: disable=broad-exception-caught
        # Two-batch construction failed (a C01 matter): fall back to one batch.
        ctx.count('state_build_fallback')
        h = drv.make()
        try:
          drv.feed(h, part)
        except Exception as e:  # pylint: disable=broad-exception-caught
          ctx.inconclusive_case('building a state raised: ' + repr(A.exc_info(e)), case)
          return
    states.append(h)
  lit = {'states': [p if len(p) <= 8 else {'rows': len(p), 'head': p[:3]} for p in parts],
         'api': mode}

  def viol(kind, detail, diffs=None, exc=None):
    A.report(ctx, ad, kind, case, dict(lit, **detail), diffs=diffs, exc=exc,
             rows=rows + extra)

  def evaluate(tree):
    if isinstance(tree, int):
      return drv.clone(states[tree])
    if tree[0] == 'nary':
      hs = [drv.clone(states[i]) for i in tree[1]]
      return drv.merge(hs[0], hs[1:])
    acc = evaluate(tree[0])
    for child in tree[1:]:
      drv.merge(acc, [evaluate(child)])
    return acc

  def rows_of(idx):
    return [r for i in idx for r in parts[i]]

  # ---- 1. grouping --------------------------------------------------------------
  ident = list(range(m))
  fed = [i for i in range(m) if sizes[i]]
  base = None
  for attempt in (0, 1):
    try:
      base = drv.observe(_guard('merge', evaluate, left_fold(ident)))
      break
    except _Raised as r:
      viol('merge_raises', {'tree': repr(left_fold(ident))}, exc=r.exc)
      # A fresh state broke the fold: still compare the groupings of the fed ones.
      if attempt == 0 and 2 <= len(fed) < m:
        ident = fed
        ctx.count('grouping_retry_without_fresh_states')
      else:
        break
  m_eff = len(ident)
  if base is not None:
    if ad.reservoir:
      ctx.count('reservoir_checks')
      d = ad.reservoir_diffs(base, rows_of(ident))
      if d:
        viol('reservoir_after_merge', {'tree': repr(left_fold(ident))}, diffs=d)
    trees = []
    if m_eff <= 4:
      trees += [('bracket', t) for t in bracketings(ident)]
      if ad.commutative:
        trees += [('perm', left_fold(list(p))) for p in itertools.permutations(ident)]
        for _ in range(6):
          p = ident[:]
          rng.shuffle(p)
          trees.append(('perm+bracket', rng.choice(bracketings(p))))
    else:
      allb = bracketings(ident)
      trees += [('bracket', t) for t in rng.sample(allb, 8)]
      if ad.commutative:
        for _ in range(12):
          p = ident[:]
          rng.shuffle(p)
          trees.append(('perm+bracket', rng.choice(bracketings(p))))
    if mode == 'aggfn':
      trees.append(('nary', ('nary', ident)))
      if ad.commutative:
        p = ident[:]
        rng.shuffle(p)
        trees.append(('nary', ('nary', p)))
    for what, tree in trees:
      ctx.count('grouping_checks')
      if what.startswith('perm'):
        ctx.count('permutation_checks')
      if what == 'nary':
        ctx.count('nary_merge_states_checks')
      try:
        obs = drv.observe(_guard('merge', evaluate, tree))
      except _Raised as r:
        viol('merge_raises', {'tree': repr(tree)}, exc=r.exc)
        continue
      if ad.reservoir:
        ctx.count('reservoir_checks')
        d = ad.reservoir_diffs(obs, rows_of(ident))
        if d:
          viol('reservoir_after_merge', {'tree': repr(tree)}, diffs=d)
        continue
      d = A.compare_obs(ad, obs, base)
      if d:
        viol('grouping_changes_result' if what == 'bracket' else
             'order_changes_result' if what.startswith('perm') else
             'nary_merge_states_differs',
             {'tree': repr(tree), 'baseline': repr(left_fold(ident))}, diffs=d)

  # ---- 2. identity ----------------------------------------------------------------
  for i in range(m):
    own = drv.observe(drv.clone(states[i]))
    for side in ('fresh_left', 'fresh_right'):
      ctx.count('identity_checks')
      try:
        if side == 'fresh_left':
          got = _guard('merge', drv.merge, drv.make(), [drv.clone(states[i])])
        else:
          got = _guard('merge', drv.merge, drv.clone(states[i]), [drv.make()])
      except _Raised as r:
        viol(side + '_merge_raises', {'state': i}, exc=r.exc)
        continue
      d = A.compare_obs(ad, drv.observe(got), own)
      if d:
        viol(side + '_not_neutral', {'state': i}, diffs=d)

  # ---- 3. operand preservation ------------------------------------------------------
  pairs = []
  if fed:
    pairs += [('F', fed[0]), (fed[-1], 'F')]
  idx = list(range(m))
  for _ in range(3):
    i, j = rng.sample(idx, 2)
    pairs.append((i, j))
  for i, j in pairs:
    ctx.count('operand_checks')
    recv = drv.make() if i == 'F' else drv.clone(states[i])
    op = drv.make() if j == 'F' else drv.clone(states[j])
    where = {'receiver': i, 'operand': j}
    snap = drv.observe(op)
    twin_op = drv.clone(op)
    try:
      _guard('merge', drv.merge, recv, [op])
      d = A.compare_obs(ad, drv.observe(op), snap)
      if d:
        viol('operand_changed_by_merge', where, diffs=d)
        continue
      twin_recv = drv.clone(recv)
      _guard('update of receiver', drv.feed, recv, x_rows)
      _guard('update of receiver', drv.feed, twin_recv, x_rows)
      d = A.compare_obs(ad, drv.observe(op), snap)
      if d:
        viol('receiver_update_leaks_into_operand', dict(where, update=x_rows), diffs=d)
      # ... and a later merge into the receiver (an update by merging)
      third = states[rng.randrange(m)]
      _guard('second merge into receiver', drv.merge, recv, [drv.clone(third)])
      _guard('second merge into receiver', drv.merge, twin_recv, [drv.clone(third)])
      d = A.compare_obs(ad, drv.observe(op), snap)
      if d:
        viol('receiver_update_leaks_into_operand',
             dict(where, update='merge of another state into the receiver'), diffs=d)
      r1 = drv.observe(recv)
      d = A.compare_obs(ad, r1, drv.observe(twin_recv))
      if d:
        viol('receiver_differs_from_its_copy_after_update', dict(where, update=x_rows),
             diffs=d)
      _guard('update of operand', drv.feed, op, y_rows)
      _guard('update of operand', drv.feed, twin_op, y_rows)
      d = A.compare_obs(ad, drv.observe(op), drv.observe(twin_op))
      if d:
        viol('operand_not_independent_after_merge', dict(where, update=y_rows), diffs=d)
      d = A.compare_obs(ad, drv.observe(recv), r1)
      if d:
        viol('operand_update_leaks_into_receiver', dict(where, update=y_rows), diffs=d)
    except _Raised as r:
      viol(r.step.replace(' ', '_') + '_raises', where, exc=r.exc)

  # ---- 3b. n-ary merge: only the first state may change ---------------------------------
  for _ in range(2):
    k = rng.randint(3, 7)
    hs = [drv.make() if (fed and rng.random() < 0.1) else drv.clone(states[rng.randrange(m)])
          for _ in range(k)]
    snaps = [drv.observe(h) for h in hs]
    ctx.count('nary_operand_checks')
    if k >= 4:
      ctx.count('nary_operand_checks_4plus')
    try:
      _guard('merge', drv.merge, hs[0], hs[1:])
    except _Raised as r:
      viol('merge_raises', {'nary_states': k}, exc=r.exc)
      continue
    for pos in range(1, k):
      d = A.compare_obs(ad, drv.observe(hs[pos]), snaps[pos])
      if d:
        viol('operand_changed_by_merge', {'receiver': 0, 'operand': pos, 'nary_states': k},
             diffs=d)
        break

  # ---- 4. result() is repeatable and does not disturb later updates ---------------------
  if rows:
    ctx.count('result_checks')
    nb = rng.randint(2, 4) if len(rows) >= 2 else 1
    sizes_b = _c01._cut(rng, len(rows), min(nb, len(rows)))  # pylint: disable=protected-access
    a, tw = drv.make(), drv.make()
    pos = 0
    try:
      for bi, b in enumerate(sizes_b):
        batch = rows[pos:pos + b]
        pos += b
        _guard('update', drv.feed, a, batch)
        _guard('update', drv.feed, tw, batch)
        if bi == 0 or rng.random() < 0.6:
          o1, o2 = drv.observe(a), drv.observe(a)
          d = A.compare_obs(ad, o2, o1)
          if d:
            viol('result_not_repeatable', {'after_batches': bi + 1}, diffs=d)
      k = rng.randrange(m)
      drv.observe(a)
      _guard('merge', drv.merge, a, [drv.clone(states[k])])
      _guard('merge', drv.merge, tw, [drv.clone(states[k])])
      drv.observe(a)
      _guard('update', drv.feed, a, x_rows)
      _guard('update', drv.feed, tw, x_rows)
      d = A.compare_obs(ad, drv.observe(a), drv.observe(tw))
      if d:
        viol('result_disturbs_later_updates',
             {'batches': sizes_b, 'then_merge_state': k, 'then_update': x_rows}, diffs=d)
    except _Raised as r:
      viol(r.step + '_raises', {'batches': sizes_b, 'sub_check': 'result'}, exc=r.exc)

  # ---- 5. scribbling on a returned result -------------------------------------------------
  if ad.result_is_copy and fed:
    ctx.count('scribble_checks')
    a = drv.clone(states[fed[0]])
    tw = drv.clone(a)
    before = drv.observe(a)
    ad.scribble(drv.raw_result(a))
    d = A.compare_obs(ad, drv.observe(a), before)
    if d:
      viol('result_aliases_internal_state', {'state': fed[0]}, diffs=d)
    else:
      drv.feed(a, x_rows)
      drv.feed(tw, x_rows)
      d = A.compare_obs(ad, drv.observe(a), drv.observe(tw))
      if d:
        viol('result_aliases_internal_state', {'state': fed[0], 'update': x_rows}, diffs=d)


  # ---- 6. states of one aggregate are independent objects ----------------------------------
  # (a freshly created state is neutral: creating it, and updating it, leaves every
  # state that already exists alone - "later updates to either side do not leak")
  if fed:
    ctx.count('independence_checks')
    try:
      a = drv.make()
      _guard('update', drv.feed, a, parts[fed[0]])
      snap = drv.observe(a)
      b = _guard('create', drv.make)
      d = A.compare_obs(ad, drv.observe(a), snap)
      if d:
        viol('creating_a_state_disturbs_an_existing_state', {'state': fed[0]}, diffs=d)
      else:
        _guard('update', drv.feed, b, x_rows)
        d = A.compare_obs(ad, drv.observe(a), snap)
        if d:
          viol('update_of_a_fresh_state_leaks_into_an_existing_state',
               {'state': fed[0], 'update': x_rows}, diffs=d)
    except _Raised as r:
      viol(r.step + '_raises', {'sub_check': 'independence'}, exc=r.exc)


def run_chunk(ctx, spec):
  reg = A.registry()
  tier = spec['tier']
  for name, mode, part, parts in spec['work']:
    ad = reg[name]
    total = spec['cases']
    lo, hi = total * part // parts, total * (part + 1) // parts
    for i in range(lo, hi):
      rng = random.Random(A.stable_int('C11', spec['rseed'], name, mode, i))
      case = gen_case(rng, ad, mode, tier)
      check_case(ctx, case, reg)
      if i == lo and len(ctx.samples) < 2:
        ctx.sample(case)
  for item in spec.get('scenarios', ()):
    S.run_item(ctx, spec['rseed'], tier, item)


def run_case(ctx, case):
  if case.get('scenario'):
    S.check(ctx, case)
    return
  check_case(ctx, case, A.registry())
