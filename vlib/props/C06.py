"""C06 - distributed runs survive worker timeouts and deaths: no lost or doubled work.

Engine E4 + E3 with fault enumeration: the real orchestrate.as_completed /
WorkerPool.run / sharded_pipelines_as_iterator drive real
PrefetchedCourierServer workers over the simulated transport; a fault plan
assigns {lost request, lost reply, slow, death before/after, app error} to the
i-th data-plane call of each worker.  Time is dilated (library clock runs S
times faster) so that the shipped heartbeat/threshold/deadline logic decides.

Abort scenarios (verdicts are read from the state left behind, never from a
wall-clock expiry):
  iterate_abort         one shard fails with an application error (a failing op or
                        an injected handler error at the i-th call of a worker)
                        while other shards are in flight; afterwards every worker
                        must have its capacity back and a second pipeline must run
                        through each single worker alone.
  interleaved_failure   run_pipeline_interleaved (in-process source -> remote
                        stage on the pool -> in-process stage) with the last stage
                        failing on element k (or not at all).
  sharded_ignore_error  workers started with ignore_error=True, one record of one
                        shard raises: only that record may be missing.

Application errors are drawn from a family (ValueError, a user exception carrying an
attribute `code` in {0, 3, 4, 'x'}, xml ParseError of malformed documents with expat codes
4 / 7 / 3, OSError with an errno): what the application raises is its own object, it may
carry any attribute.  In the sharded abort cases it travels pickled inside a batch; the
retry budget of those cases is small, so that a shard that is re-run although its error is
deterministic ends the case (verdict from the calls seen by the transport, never from time).

Scenario 'sharded_final_reply_death': a worker dies right AFTER it has served the
last reply of a shard (the reply that carries the end marker): the reply reaches
the driver, the death (exit with its alive=False notice, or an abrupt kill) is
placed 0-8 ms after the reply left, i.e. between the worker's final reply and the
driver's processing of it; the window is widened with outputs that are slow to
un-pickle and with held-back replies.  Oracle as for every sharded case.
"""

from __future__ import annotations

import itertools
import queue
import random
import time

ID = 'C06'
LEVEL = 'fault_enumeration'
EXTRA_PATH = ('vlib/fakecourier',)
SCALE = 60.0
CALL_TIMEOUT = 15.0      # library seconds  (0.25 s real)
HB_THRESHOLD = 150.0     # library seconds  (2.5 s real)
RULE = (
    'a case is (driver in {as_completed, WorkerPool.run, sharded_pipelines_as_iterator}, W=1-4 '
    'workers, max_parallelism 1-2, T=1-8 uniquely numbered tasks or K=1-6 shards, fault plan). '
    'Fault plans: every single fault kind at every one of the first 4 data-plane calls of every '
    'faultable worker (enumerated), pairs of faults sampled, application errors on chosen tasks; '
    'the last worker is never faulted (side condition: one worker stays usable); iterate_abort = W=2-3 '
    'workers, K=W..W+1 slow shards, an application error at a chosen record or at call 0-2 of a chosen '
    'worker, then a second pipeline through each worker alone; interleaved_failure = W=1-3, n=40-300 '
    'elements, in-process last stage failing at element k or fault free; sharded_final_reply_death = W=2-3, '
    'K=W..W+2 shards (>= 2 final replies per run), iterate_batch_size 1-3 or 64 (a whole shard per reply), '
    'outputs costing 2-10 ms each to un-pickle, a non-last worker exits (alive=False notice) or is killed '
    '0-8 ms after its first reply carrying an end marker left, that reply held back 0-5 ms. Non-trivial = '
    'the plan has >= 1 fault that actually hit an executed call; distinct = hash of (driver, sizes, '
    'plan). Application errors (as_completed / run task, failing record of an iterate_abort or '
    'sharded_ignore_error shard) are drawn from the family {ValueError, user exception with code 0/3/4/x, '
    'ParseError invalid-token (code 4) / mismatched-tag (7) / no-element (3), OSError errno 2/4/5}; one '
    'iterate_abort case per chunk takes the member (chunk + seed) mod 11, retry_threshold 1-5 for '
    'iterate_abort cases with a failing record')
ASSUMPTIONS = [
    'transport stand-in semantics (see C14): a deadline completes the client future with code 4 while the handler may still run and take effect (at-most-once is not provided)',
    f'the library clock is dilated by S={SCALE:g} (time.time x S, sleep / S, transport deadlines / S); call_timeout={CALL_TIMEOUT:g}s and heartbeat_threshold={HB_THRESHOLD:g}s library time keep the shipped ordering interval < deadline < threshold',
    'a dead worker stays dead for the rest of the case, except for the `restart` fault: the worker is unreachable for 0.4 s real time and then answers again under the same address with its generator state lost',
    'the last worker of the pool is never faulted and the retry budget is not exhausted; if the library nevertheless reports all workers timed out although the transport saw that worker healthy, the case is inconclusive (load), never a violation',
    'non-retriable application errors must surface as an exception whose text names the failing task',
    'abort scenarios: a worker counts as permanently blocked only if, after the driver returned / raised and every transport call to the pool has returned, its client still lists a pending state (nothing can complete it: the driver closed its event loop); a pool counts as permanently holding workers only if the runner stopped its event loop while the remote stage still waits for coroutine futures of that loop. Anything that merely has not happened yet when the watchdog expires is inconclusive',
    'sharded_ignore_error: a server started with ignore_error=True skips the failing record only (what iterate(ignore_error=True) does in process): every other batch is delivered and aggregated; a run that raises the application error instead is accepted too',
    'iterate_abort: after an abort the failing shard is not retried (application errors are not retriable); outputs delivered before the abort must be batches of the reference run',
    'application errors never are TimeoutError instances (OSError(ETIMEDOUT) is one): the workers themselves answer with TimeoutError objects to ask for a retry of the shard, such an error of the application is indistinguishable by design',
    'iterate_abort with a failing record: retry_threshold 1-5; the budget counts as exhausted legitimately (inconclusive, load) when the transport itself completed >= 1 data-plane call of the case with DEADLINE_EXCEEDED; with none, TimeoutError(Too many Timeouts) / a shard initialised more often than (shards + transport deadlines) is the application error taken for a timeout',
  'sharded_final_reply_death: the final reply of the shard is delivered (it had left the worker before the death); the exiting worker notice is the pushed heartbeat(alive=False), modelled as in exit_notice by unregistering the address; the un-pickling cost of an output is a real sleep inside its __reduce__ target on the un-pickling thread; which of (notice seen first / reply processed first) happens is left to the OS scheduler, both orders must give the fault-free aggregate',
]
REQUIRED = ['as_completed_cases', 'run_cases', 'sharded_cases', 'late_death_cases', 'no_deadline_cases', 'faults_hit', 'rejoin_cases', 'rejoin_phase2_cases',
            'tasks_delivered', 'fault_free_cases', 'app_error_cases', 'release_checks',
            'iterate_abort_cases', 'iterate_abort_other_shard_in_flight', 'iterate_abort_capacity_checks',
            'interleaved_cases', 'interleaved_failure_cases', 'interleaved_fault_free_cases',
            'interleaved_failure_remote_stage_busy', 'ignore_error_cases',
            'final_reply_death_cases', 'final_reply_deaths_hit',
            'app_error_family_cases', 'app_error_code4_in_batch_cases', 'app_error_other_attr_in_batch_cases',
            'run_app_error_cases']
# Mechanism keys of the audited root causes (classified by the scenario of the case).
K_ITER_ABORT = 'iterate-abort-leaks-capacity-placeholder'
K_INTERLEAVED = 'interleaved-failure-leaves-workers-acquired'
K_IGNORE_TRUNC = 'ignore-error-server-truncates-shard-after-application-error'
# WorkerPool.iterate() retries the shard of a worker it sees dead while the shard's
# coroutine already holds the last reply and delivers the shard's state: merged twice
K_LAST_REPLY = 'dead-worker-last-reply-state-delivered-and-shard-retried'
# WorkerPool.iterate() looks at `.code` of the exception of a finished shard task, which is
# the application's own exception object (it travelled pickled inside a batch): code == 4
# is taken for DEADLINE_EXCEEDED and the shard is re-run for the whole retry budget
K_CODE4 = 'application-error-with-code-4-retried-as-timeout'
CHUNK_TIMEOUT_S = {'quick': 500, 'thorough': 3400}
FAULT_KINDS = ['lost_request', 'lost_reply', 'slow', 'die_before', 'die_after', 'restart']


def plan(tier, seed):
  chunks = 32 if tier == 'quick' else 64
  return [{'chunk': i, 'chunks': chunks, 'rseed': seed,
           'per_chunk': 30 if tier == 'quick' else 300} for i in range(chunks)]


def all_single_faults(W):
  out = []
  for w in range(W - 1):
    for idx in range(4):
      for kind in FAULT_KINDS:
        out.append([[w, idx, kind]])
  return out


def draw_exc(rng_exc):
  from vlib import c06lib
  return dict(rng_exc.choice(c06lib.EXC_FAMILY))


def gen_cases(rng, n, rng_exc=None):
  """Deterministic case list for one chunk index (strided over the space).

  rng_exc (own stream: the draws of `rng` stay what they were) draws the exception of
  the application errors and the failing task of WorkerPool.run cases.
  """
  cases = []
  for _ in range(n):
    driver = rng.choice(['as_completed', 'as_completed', 'sharded', 'run'])
    W = rng.randint(1, 4)
    par = rng.choice([1, 1, 2])
    kind = rng.random()
    faults = []
    if W > 1 and kind < 0.75:
      singles = all_single_faults(W)
      faults = list(rng.choice(singles))
      if rng.random() < 0.35:
        extra = rng.choice(singles)[0]
        if extra[:2] != faults[0][:2]:
          faults.append(extra)
    case = {'driver': driver, 'W': W, 'par': par, 'faults': faults}
    if driver == 'as_completed':
      case['T'] = rng.randint(1, 8)
      case['app_error'] = rng.choice([None, None, None, rng.randrange(case['T'])])
      case['ignore_failures'] = bool(case['app_error'] is not None and rng.random() < 0.3)
      if rng_exc is not None and case['app_error'] is not None:
        case['exc'] = draw_exc(rng_exc)
    elif driver == 'run':
      case['T'] = rng.randint(1, 3)
      case['faults'] = [f for f in faults if f[2] in ('slow',)][:1]
      if rng_exc is not None and rng_exc.random() < 0.3:
        case['app_error'] = rng_exc.randrange(case['T'])
        case['exc'] = draw_exc(rng_exc)
    else:
      case['K'] = rng.randint(1, 6)
      case['n'] = rng.choice([0, 3, 9, 17, 30])
      case['rec'] = rng.randint(1, 4)
      case['ibs'] = rng.randint(1, 3)
    cases.append(case)
  return cases


def gen_final_reply_death_case(rng):
  """A non-last worker dies right after the first final reply (end marker) it served."""
  W = rng.randint(2, 3)
  K = W + rng.randint(0, 2)
  rec = rng.randint(1, 3)
  per_shard = rng.randint(2, 6)             # batches per shard
  return {'driver': 'sharded_final_reply_death', 'W': W, 'par': 1, 'K': K, 'faults': [],
          'n': rec * per_shard * K, 'rec': rec,
          # 64: one reply carries the whole shard and its end marker
          'ibs': rng.choice([1, 2, 3, 64, 64, 64]), 'prefetch': rng.choice([2, 2, 64]),
          'victim': rng.randrange(W - 1),
          'death': rng.choice(['exit_notice', 'exit_notice', 'exit_notice', 'kill']),
          'after_ms': rng.choice([0, 1, 3, 8]), 'reply_delay_ms': rng.choice([0, 0, 5]),
          'load_delay_ms': rng.choice([2, 5, 10])}


def enumerated_cases(chunk, chunks):
  """The enumerated single-fault sub-space, strided over the chunks."""
  out = []
  for W in (2, 3):
    for f in all_single_faults(W):
      for driver in ('as_completed', 'sharded'):
        case = {'driver': driver, 'W': W, 'par': 1, 'faults': f}
        if driver == 'as_completed':
          case.update(T=4, app_error=None, ignore_failures=False)
        else:
          case.update(K=3, n=12, rec=2, ibs=2)
        out.append(case)
  return [c for i, c in enumerate(out) if i % chunks == chunk]


class Runner:
  """Holds the per-child environment."""

  def __init__(self):
    from vlib import cwork
    import courier
    self.cwork = cwork
    self.courier = courier
    cwork.setup(scale=SCALE)

  def make_pool(self, W, par, ibs=1, call_timeout=CALL_TIMEOUT, **server_kwargs):
    from ml_metrics._src.chainables import courier_worker
    servers = self.cwork.start_servers(W, 'c06w', **server_kwargs)
    addrs = [s.address for s in servers]
    raw = {s.address: s._server.address for s in servers}  # pylint: disable=protected-access
    pool = courier_worker.WorkerPool(
        addrs, call_timeout=call_timeout, max_parallelism=par,
        heartbeat_threshold_secs=HB_THRESHOLD, iterate_batch_size=ibs)
    return servers, addrs, raw, pool

  def install_plan(self, raw_addrs, faults, servers=None):
    """raw_addrs: worker index -> transport address."""
    import threading
    sim = self.courier.sim
    by_raw = {s._server.address: s for s in (servers or [])}  # pylint: disable=protected-access

    def restart(addr):
      # The worker process is replaced: unreachable for a while, then back under
      # the same address with its generator state lost.
      sim.kill(addr)

      def back():
        time.sleep(0.4)
        srv = by_raw.get(addr)
        if srv is not None:
          srv._generator = None  # pylint: disable=protected-access
          srv._enqueue_thread = None  # pylint: disable=protected-access
        sim.revive(addr)

      threading.Thread(target=back, daemon=True).start()
    table = {}
    for w, idx, kind in faults:
      table[(raw_addrs[w], idx)] = kind
    hits = []

    def plan(addr, method, idx):
      kind = table.get((addr, idx))
      if kind is None or method == 'heartbeat':
        return None
      hits.append((addr, method, idx, kind))
      if kind == 'slow':
        return {'kind': 'ok', 'delay': (CALL_TIMEOUT * 1.6) / SCALE}
      if kind == 'restart':
        restart(addr)
        return {'kind': 'lost_request'}
      if kind == 'exit_notice':
        # The worker process exits while holding this call: the call is never
        # answered, its port refuses new connections, and its death notice
        # (heartbeat(is_alive=False) to the master) unregisters it at once.
        from ml_metrics._src.utils import courier_utils
        sim.kill(addr)
        sim.refusing.add(addr)
        for name, srv in list(by_raw.items()):
          if name == addr:
            sim.refusing.add(srv.address)
            courier_utils.worker_registry().unregister(srv.address)
        return {'kind': 'lost_request'}
      return {'kind': kind}

    sim.fault_plan = plan
    with sim.lock:
      sim.call_counts = {}
    return hits

  def clear_plan(self):
    self.courier.sim.fault_plan = None


def _healthy_last_worker(runner, raw_last):
  return runner.courier.sim.lookup(raw_last) is not None


def run_as_completed(ctx, runner, case):
  from vlib import c16lib
  from ml_metrics._src.chainables import lazy_fns, orchestrate
  servers, addrs, raw, pool = runner.make_pool(
      case['W'], case['par'], call_timeout=0 if case.get('no_deadline') else CALL_TIMEOUT)
  raw_list = [raw[a] for a in addrs]
  try:
    pool.wait_until_alive(deadline_secs=HB_THRESHOLD, minimum_num_workers=case['W'])
    hits = runner.install_plan(raw_list, case['faults'], servers)
    T = case['T']
    if case.get('exc') is not None:
      from vlib import c06lib
      tasks = [lazy_fns.trace(c06lib.task_fn)(
          i, exc=case['exc'] if case.get('app_error') == i else None) for i in range(T)]
    else:
      tasks = [lazy_fns.trace(c16lib.task_fn)(
          i, fail='value' if case.get('app_error') == i else None) for i in range(T)]
    delivered, error = [], None

    def go():
      for r in orchestrate.as_completed(pool, iter(tasks),
                                        ignore_failures=case.get('ignore_failures', False)):
        delivered.append(r)

    finished, _, exc = runner.cwork.run_with_watchdog(go, 90)
    runner.clear_plan()
    return {'finished': finished, 'exc': exc, 'delivered': delivered, 'hits': hits,
            'acquired': len(pool.acquired_workers),
            'locked': sum(1 for w in pool.all_workers if w.is_locked()),
            'last_healthy': _healthy_last_worker(runner, raw_list[-1])}
  finally:
    runner.clear_plan()
    runner.cwork.stop_servers(servers, join_s=0.5)


def run_pool_run(ctx, runner, case):
  from vlib import c16lib
  from ml_metrics._src.chainables import lazy_fns
  servers, addrs, raw, pool = runner.make_pool(case['W'], case['par'])
  raw_list = [raw[a] for a in addrs]
  try:
    pool.wait_until_alive(deadline_secs=HB_THRESHOLD, minimum_num_workers=case['W'])
    hits = runner.install_plan(raw_list, [])
    delivered = []

    def go():
      for i in range(case['T']):
        if case.get('exc') is not None:
          from vlib import c06lib
          delivered.append(pool.run(lazy_fns.trace(c06lib.task_fn)(
              i, exc=case['exc'] if case.get('app_error') == i else None)))
        else:
          delivered.append(pool.run(lazy_fns.trace(c16lib.task_fn)(i)))

    finished, _, exc = runner.cwork.run_with_watchdog(go, 60)
    return {'finished': finished, 'exc': exc, 'delivered': delivered, 'hits': hits,
            'acquired': len(pool.acquired_workers),
            'locked': sum(1 for w in pool.all_workers if w.is_locked()),
            'last_healthy': True}
  finally:
    runner.clear_plan()
    runner.cwork.stop_servers(servers, join_s=0.5)


def run_sharded(ctx, runner, case):
  from vlib import c16lib
  from ml_metrics._src.chainables import orchestrate
  servers, addrs, raw, pool = runner.make_pool(case['W'], case['par'], case['ibs'])
  raw_list = [raw[a] for a in addrs]
  spec = {'n': case['n'], 'rec': case['rec'], 'ops': [['affine', {'a': 3, 'b': 1}]],
          'agg': 'sum', 'fused': True, 'num_threads': 0}
  try:
    pool.wait_until_alive(deadline_secs=HB_THRESHOLD, minimum_num_workers=case['W'])
    hits = runner.install_plan(raw_list, case['faults'], servers)
    rq = queue.SimpleQueue()
    outs = []

    def go():
      for b in orchestrate.sharded_pipelines_as_iterator(
          pool, c16lib.define_pipeline, spec, num_shards=case['K'], result_queue=rq):
        outs.append(b)

    finished, _, exc = runner.cwork.run_with_watchdog(go, 120)
    runner.clear_plan()
    aggs = []
    if finished and exc is None:
      try:
        aggs.append(rq.get(timeout=20))
      except queue.Empty:
        pass
      time.sleep(0.02)
      while not rq.empty():
        aggs.append(rq.get_nowait())
    ref_outs, ref_agg = c16lib.reference(spec)
    # transport log (never a clock): calls the stand-in ended itself with DEADLINE_EXCEEDED
    n_deadline = sum(1 for ev in list(runner.courier.sim.call_log)
                     if ev.get('ev') == 'return' and ev.get('outcome') == 'error4'
                     and ev.get('method') != 'heartbeat' and ev.get('server') in set(raw_list) | set(addrs))
    return {'finished': finished, 'exc': exc, 'outs': outs, 'aggs': aggs,
            'ref_outs': ref_outs, 'ref_agg': ref_agg, 'hits': hits,
            'transport_deadlines': n_deadline,
            'acquired': len(pool.acquired_workers),
            'locked': sum(1 for w in pool.all_workers if w.is_locked()),
            'last_healthy': _healthy_last_worker(runner, raw_list[-1])}
  finally:
    runner.clear_plan()
    runner.cwork.stop_servers(servers, join_s=0.5)


def run_sharded_late_death(ctx, runner, case):
  """A worker dies after it completed its shard but before the (suspended)
  driver loop collects the finished task: the consumer pauses longer than the
  heartbeat threshold after the first batch, the worker is killed meanwhile."""
  import threading
  from vlib import c16lib
  from ml_metrics._src.chainables import orchestrate
  W = case['W']
  servers, addrs, raw, pool = runner.make_pool(W, 1, case['ibs'])
  raw_list = [raw[a] for a in addrs]
  spec = {'n': case['n'], 'rec': case['rec'], 'ops': [['affine', {'a': 3, 'b': 1}]],
          'agg': 'sum', 'fused': True, 'num_threads': 0}
  try:
    pool.wait_until_alive(deadline_secs=HB_THRESHOLD, minimum_num_workers=W)
    rq = queue.SimpleQueue()
    outs = []
    killed = []

    def killer():
      time.sleep(0.6)   # every shard has long finished (they run ahead of the consumer)
      runner.courier.sim.kill(raw_list[case['victim']])
      killed.append(time.time())

    def go():
      it = orchestrate.sharded_pipelines_as_iterator(
          pool, c16lib.define_pipeline, spec, num_shards=W, result_queue=rq)
      first = True
      for b in it:
        outs.append(b)
        if first:
          first = False
          threading.Thread(target=killer, daemon=True).start()
          time.sleep(HB_THRESHOLD / SCALE * 1.4)   # the victim's heartbeat goes stale

    finished, _, exc = runner.cwork.run_with_watchdog(go, 120)
    aggs = []
    if finished and exc is None:
      try:
        aggs.append(rq.get(timeout=20))
      except queue.Empty:
        pass
      time.sleep(0.02)
      while not rq.empty():
        aggs.append(rq.get_nowait())
    ref_outs, ref_agg = c16lib.reference(spec)
    return {'finished': finished, 'exc': exc, 'outs': outs, 'aggs': aggs,
            'ref_outs': ref_outs, 'ref_agg': ref_agg,
            'hits': [(raw_list[case['victim']], 'killed-after-shard-done', -1, 'late_death')] if killed else [],
            'acquired': len(pool.acquired_workers),
            'locked': sum(1 for w in pool.all_workers if w.is_locked()),
            'last_healthy': True}
  finally:
    runner.cwork.stop_servers(servers, join_s=0.5)


def run_sharded_final_reply_death(ctx, runner, case):
  """A worker dies right after it served the last reply of a shard."""
  import threading
  from vlib import c06lib, c16lib
  from ml_metrics._src.chainables import orchestrate
  from ml_metrics._src.utils import courier_utils
  W = case['W']
  servers, addrs, raw, pool = runner.make_pool(W, 1, case['ibs'], prefetch_size=case['prefetch'])
  raw_list = [raw[a] for a in addrs]
  sim = runner.courier.sim
  spec = {'n': case['n'], 'rec': case['rec'], 'ops': [['affine', {'a': 3, 'b': 1}]],
          'agg': 'sum', 'fused': True, 'num_threads': 0,
          'load_delay': case['load_delay_ms'] / 1000.0}
  victim = servers[case['victim']]
  victim_raw = raw_list[case['victim']]
  hits, state = [], {'final_pending': False, 'done': False}
  lock = threading.Lock()

  def on_final():
    with lock:
      if not state['done']:
        state['final_pending'] = True

  def die():
    time.sleep(case['after_ms'] / 1000.0)     # real milliseconds (this module's clock is not dilated)
    if case['death'] == 'exit_notice':
      # graceful exit: the alive=False notice reaches the driver, then the process is gone
      # (the address is NOT put into sim.refusing: the library's clients are created
      # with wait_for_ready, a call dispatched to the worker in the instant before the
      # notice arrived waits for its deadline / for the liveness check like on the real
      # transport; a 'connection refused' status would be an invention of the stand-in
      # that the library rightly treats as a non-retriable error)
      courier_utils.worker_registry().unregister(victim.address)
      sim.kill(victim_raw)
    else:
      sim.kill(victim_raw)

  def reply_delay(addr, method):
    if addr != victim_raw or method != 'next_batch_from_generator':
      return 0
    with lock:
      mine = state['final_pending'] and not state['done']
      if mine:
        state['done'] = True
        state['final_pending'] = False
    if not mine:
      return 0
    hits.append((addr, method, -1, 'death_after_final_reply:' + case['death']))
    threading.Thread(target=die, daemon=True).start()
    return case['reply_delay_ms'] / 1000.0

  try:
    pool.wait_until_alive(deadline_secs=HB_THRESHOLD, minimum_num_workers=W)
    c06lib.tap_final_replies(victim, on_final)
    sim.reply_delay = reply_delay
    rq, outs = queue.SimpleQueue(), []

    def go():
      for b in orchestrate.sharded_pipelines_as_iterator(
          pool, c06lib.define_pipeline_slow_outputs, spec, num_shards=case['K'], result_queue=rq):
        outs.append(b)

    finished, _, exc = runner.cwork.run_with_watchdog(go, 120)
    sim.reply_delay = None
    aggs = _collect_aggs(rq, finished, exc)
    ref_outs, ref_agg = c16lib.reference(spec)
    # transport log (never a clock): calls the stand-in ended itself with DEADLINE_EXCEEDED
    n_deadline = sum(1 for ev in list(runner.courier.sim.call_log)
                     if ev.get('ev') == 'return' and ev.get('outcome') == 'error4'
                     and ev.get('method') != 'heartbeat' and ev.get('server') in set(raw_list) | set(addrs))
    return {'finished': finished, 'exc': exc, 'outs': outs, 'aggs': aggs,
            'ref_outs': ref_outs, 'ref_agg': ref_agg, 'hits': hits,
            'transport_deadlines': n_deadline,
            'acquired': len(pool.acquired_workers),
            'locked': sum(1 for w in pool.all_workers if w.is_locked()),
            'last_healthy': _healthy_last_worker(runner, raw_list[-1])}
  finally:
    sim.reply_delay = None
    runner.cwork.stop_servers(servers, join_s=0.5)


def run_sharded_rejoin(ctx, runner, case):
  """A worker dies while its shard is in flight, with no call deadline: it is only
  noticed through its stale heartbeat and its task is cancelled.  It rejoins
  later.  Afterwards every other worker is taken away and a second pipeline runs
  through the same pool: the rejoined worker is the one usable worker."""
  import threading
  from vlib import c16lib
  from ml_metrics._src.chainables import orchestrate
  W = case['W']
  servers, addrs, raw, pool = runner.make_pool(W, 1, case['ibs'], call_timeout=0)
  raw_list = [raw[a] for a in addrs]
  sim = runner.courier.sim
  spec = {'n': case['n'], 'rec': case['rec'], 'ops': [['affine', {'a': 3, 'b': 1}]],
          'agg': 'sum', 'fused': True, 'num_threads': 0}
  spec2 = dict(spec, n=case['n2'])
  victim = raw_list[case['victim']]
  try:
    pool.wait_until_alive(deadline_secs=HB_THRESHOLD, minimum_num_workers=W)
    hits = runner.install_plan(raw_list, [[case['victim'], case['idx'], 'die_before']], servers)
    rq, outs = queue.SimpleQueue(), []

    def go():
      for b in orchestrate.sharded_pipelines_as_iterator(
          pool, c16lib.define_pipeline, spec, num_shards=case['K'], result_queue=rq):
        outs.append(b)

    finished, _, exc = runner.cwork.run_with_watchdog(go, 120)
    runner.clear_plan()
    aggs = []
    if finished and exc is None:
      try:
        aggs.append(rq.get(timeout=20))
      except queue.Empty:
        pass
      while not rq.empty():
        aggs.append(rq.get_nowait())
    ref_outs, ref_agg = c16lib.reference(spec)
    res = {'finished': finished, 'exc': exc, 'outs': outs, 'aggs': aggs,
           'ref_outs': ref_outs, 'ref_agg': ref_agg, 'hits': hits,
           'acquired': len(pool.acquired_workers),
           'locked': sum(1 for w in pool.all_workers if w.is_locked()),
           'last_healthy': True, 'phase2': None}
    if not (finished and exc is None and hits):
      return res
    # The victim's process comes back under the same address (state lost).
    by_raw = {s._server.address: s for s in servers}  # pylint: disable=protected-access
    srv = by_raw.get(victim)
    if srv is not None:
      srv._generator = None  # pylint: disable=protected-access
      srv._enqueue_thread = None  # pylint: disable=protected-access
    sim.revive(victim)
    vw = [w for w in pool.all_workers if raw.get(w.address) == victim][0]
    t0 = time.time()
    while time.time() - t0 < 3 * HB_THRESHOLD / SCALE and not vw.is_alive:
      time.sleep(0.02)
    if not vw.is_alive:
      res['phase2'] = {'rejoined': False}
      return res
    for a in raw_list:
      if a != victim:
        sim.kill(a)
    rq2, outs2 = queue.SimpleQueue(), []

    def go2():
      for b in orchestrate.sharded_pipelines_as_iterator(
          pool, c16lib.define_pipeline, spec2, num_shards=2, result_queue=rq2):
        outs2.append(b)

    fin2, _, exc2 = runner.cwork.run_with_watchdog(go2, 6 * HB_THRESHOLD / SCALE + 10)
    aggs2 = []
    if fin2 and exc2 is None:
      try:
        aggs2.append(rq2.get(timeout=20))
      except queue.Empty:
        pass
    ro2, ra2 = c16lib.reference(spec2)
    res['phase2'] = {'rejoined': True, 'finished': fin2, 'exc': exc2, 'outs': outs2,
                     'aggs': aggs2, 'ref_outs': ro2, 'ref_agg': ra2,
                     'victim_pendings': len(vw.pendings), 'victim_capacity': vw.has_capacity}
    return res
  finally:
    runner.clear_plan()
    runner.cwork.stop_servers(servers, join_s=0.5)


def _collect_aggs(rq, finished, exc):
  aggs = []
  if finished and exc is None:
    try:
      aggs.append(rq.get(timeout=20))
    except queue.Empty:
      pass
    while not rq.empty():
      aggs.append(rq.get_nowait())
  return aggs


def run_iterate_abort(ctx, runner, case):
  """One shard fails with an application error while other shards are in flight;
  then a second pipeline runs through each worker alone."""
  from vlib import c06lib, c16lib
  from ml_metrics._src.chainables import courier_worker, orchestrate
  W = case['W']
  c06lib.track_transport_calls(True)   # from the very first call (heartbeat probes too)
  servers, addrs, raw, pool = runner.make_pool(W, case['par'], case['ibs'])
  raw_list = [raw[a] for a in addrs]
  ops = [['slow', {'delay': case['delay']}], ['affine', {'a': 3, 'b': 1}]]
  fail = case['fail']
  if fail['kind'] == 'op' and fail.get('site') != 'source':
    kw = {'value': 3 * fail['value'] + 1}
    if fail.get('exc') is not None:
      kw['exc'] = fail['exc']
    ops.append(['failing', kw])
  spec = {'n': case['n'], 'rec': case['rec'], 'ops': ops, 'agg': 'sum', 'fused': True,
          'num_threads': 0}
  if fail['kind'] == 'op' and fail.get('site') == 'source':
    # the data source fails while it reads the record that holds element `value`
    spec['fail_source'] = {'record': fail['value'] // case['rec'], 'exc': fail.get('exc')}
  run_kwargs = {}
  if case.get('retry_threshold') is not None:
    run_kwargs['retry_threshold'] = case['retry_threshold']
  spec2 = {'n': case['n2'], 'rec': case['rec'], 'ops': [['affine', {'a': 3, 'b': 1}]],
           'agg': 'sum', 'fused': True, 'num_threads': 0}
  try:
    pool.wait_until_alive(deadline_secs=HB_THRESHOLD, minimum_num_workers=W)
    faults = [[fail['worker'], fail['idx'], 'app_error']] if fail['kind'] == 'transport' else []
    hits = runner.install_plan(raw_list, faults, servers)
    rq, outs = queue.SimpleQueue(), []

    def go():
      for b in orchestrate.sharded_pipelines_as_iterator(
          pool, c06lib.define_pipeline, spec, num_shards=case['K'], result_queue=rq, **run_kwargs):
        outs.append(b)

    finished, _, exc = runner.cwork.run_with_watchdog(go, 60)
    runner.clear_plan()
    # what the transport saw (never a clock): shards initialised, calls that it ended itself
    # with DEADLINE_EXCEEDED, workers still registered
    n_init, n_deadline = c06lib.transport_call_stats(set(addrs))
    ref_outs, _ = c16lib.reference(dict(spec, ops=ops[:2]))
    res = {'finished': finished, 'exc': exc, 'outs': list(outs), 'ref_outs': ref_outs,
           'init_generator_calls': n_init, 'transport_deadlines': n_deadline,
           'all_workers_healthy': all(runner.courier.sim.lookup(a) is not None for a in raw_list),
           'hits': hits, 'acquired': len(pool.acquired_workers),
           'locked': sum(1 for w in pool.all_workers if w.is_locked()),
           'workers': [], 'phase2': []}
    if not finished:
      return res
    # The driver has returned: its event loop thread is joined and the loop closed,
    # so a pending state that is not a transport call can never complete any more.
    t0 = time.time()
    while time.time() - t0 < 5 and c06lib.outstanding_calls(set(addrs)):
      time.sleep(0.01)
    for w in pool.all_workers:
      orphans = c06lib.states_without_transport_call(w)
      res['workers'].append({'address': w.address, 'alive': bool(w.is_alive),
                             'pendings': len(w.pendings),
                             'pending_states_without_transport_call': len(orphans),
                             'has_capacity': bool(w.has_capacity)})
    ro2, ra2 = c16lib.reference(spec2)
    for i, w in enumerate(pool.all_workers):
      pool2 = courier_worker.WorkerPool([w])
      p2 = {'worker': i, 'same_object': pool2.all_workers[0] is w,
            'idle_workers': len(pool2.idle_workers()), 'ran': False}
      res['phase2'].append(p2)
      if not p2['same_object'] or not w.is_alive:
        continue
      if c06lib.states_without_transport_call(w) and not w.has_capacity:
        # WorkerPool.iterate only ever submits to idle_workers(): with its single
        # worker never idle the run cannot start (not executed: it would spin).
        continue
      rq2, outs2 = queue.SimpleQueue(), []

      def go2(pool2=pool2, rq2=rq2, outs2=outs2):
        for b in orchestrate.sharded_pipelines_as_iterator(
            pool2, c16lib.define_pipeline, spec2, num_shards=2, result_queue=rq2):
          outs2.append(b)

      fin2, _, exc2 = runner.cwork.run_with_watchdog(go2, 30)
      p2.update(ran=True, finished=fin2, exc=exc2, outs=list(outs2),
                aggs=_collect_aggs(rq2, fin2, exc2), ref_outs=ro2, ref_agg=ra2)
      if not fin2:
        break
    return res
  finally:
    c06lib.track_transport_calls(False)
    runner.clear_plan()
    runner.cwork.stop_servers(servers, join_s=0.5)


def judge_iterate_abort(ctx, case, res):
  from vlib import c06lib
  from ml_metrics._src.chainables import transform
  ctx.count('iterate_abort_cases')
  ctx.count('faults_hit', len(res['hits']))
  n_rec = -(-case['n'] // case['rec'])
  in_flight = len(res['outs']) < n_rec - (-(-n_rec // case['K']))
  if in_flight:
    ctx.count('iterate_abort_other_shard_in_flight')
  ctx.case(('iterate_abort', dict(case)), in_flight)
  fail = case['fail']
  exc_spec = fail.get('exc') if fail['kind'] == 'op' else None
  marks = [c06lib.APP_ERROR_MARK, 'op_failing', 'injected app error']
  code4 = False
  if exc_spec is not None:
    # input class: what the generator put in (the exception object of the failing record and
    # where it is raised: by the data source, whose exception object travels inside a batch
    # as it is, or by an op, whose exception the library replaces by 'Failed to call <fn>')
    ctx.count('app_error_family_cases')
    if fail.get('site') == 'source':
      attr = c06lib.app_error_code_attr(exc_spec)
      code4 = attr is not None and not isinstance(attr, str) and attr == 4
      ctx.count('app_error_code4_in_batch_cases' if code4 else 'app_error_other_attr_in_batch_cases')
      marks = c06lib.app_error_marks(exc_spec, f'record {fail["value"] // case["rec"]} cannot be read')
  rerun = {'init_generator_calls': res.get('init_generator_calls'), 'shards': case['K'],
           'calls_ended_by_a_transport_deadline': res.get('transport_deadlines'),
           'retry_threshold': case.get('retry_threshold'),
           'application_error': c06lib.app_error_key(exc_spec) if exc_spec is not None else None}
  if not res['finished']:
    # Shards initialised again and again although the transport ended no call itself, every
    # worker is up and no worker runs two shards (with max_parallelism 2 a second
    # init_generator on a worker legitimately sends the first shard back for a retry).
    if (exc_spec is not None and res.get('transport_deadlines') == 0
        and res.get('all_workers_healthy') and case.get('par', 1) == 1
        and (res.get('init_generator_calls') or 0) > case['K'] + 10):
      # the driver is still re-running the shard of a deterministic application error
      ctx.violation('app_error_never_surfaces_shard_rerun', case, rerun,
                    mechanism=K_CODE4 if code4 else
                    'iterate_abort:app-error-shard-rerun:' + c06lib.app_error_key(exc_spec))
    else:
      ctx.inconclusive_case('iterate_abort: phase 1 watchdog', case)
    return
  exc = res['exc']
  text = c06lib.error_chain_text(exc) if exc is not None else ''
  if exc is None:
    if case['fail']['kind'] == 'op' or res['hits']:
      ctx.violation('app_error_swallowed', case, {'n_outs': len(res['outs'])},
                    mechanism='iterate_abort:app-error-swallowed')
    else:
      ctx.inconclusive_case('iterate_abort: the injected error was never reached', case)
    return
  if 'All workers timeout' in text:
    ctx.inconclusive_case('library saw no alive worker (load)', case)
    return
  if exc_spec is not None and isinstance(exc, TimeoutError) and 'Too many Timeouts' in str(exc):
    # a deterministic application error reported as an exhausted timeout budget
    # 'Too many Timeouts: n > t, last error: <args[0] of the last exception counted as a timeout>'
    last = str(exc).rsplit('last error:', 1)[-1]
    last_is_the_application_error = any(m in last for m in marks) or (
        exc_spec.get('type') == 'oserror' and last.strip() == str(exc_spec['errno']))
    if not last_is_the_application_error:
      # the budget went to other retries (deadlines under load; a worker with max_parallelism 2
      # that was given a second shard): outside the premise of the property
      ctx.inconclusive_case('iterate_abort: the small retry budget was used up by retries that are not the application error', case)
      return
    ctx.violation('app_error_reported_as_too_many_timeouts', case, dict(rerun, error=text[:300]),
                  mechanism=K_CODE4 if code4 else
                  'iterate_abort:app-error-reported-as-timeouts:' + c06lib.app_error_key(exc_spec))
  elif not any(m in text for m in marks):
    ctx.violation('app_error_wrong_exception', case, {'error': text[:400]},
                  mechanism=f'iterate_abort:app-error-other-exception:{type(exc).__name__}')
  ctx.count('release_checks')
  want = set(repr(list(b)) for b in res['ref_outs'])
  phantom = [repr(list(b)) for b in res['outs'] if repr(list(b)) not in want]
  if phantom:
    ctx.violation('output_batch_lost_or_phantom', case, {'phantom': phantom[:5]},
                  mechanism='iterate_abort:phantom-batches')
  if res['acquired'] or res['locked']:
    ctx.violation('workers_not_released', case,
                  {'acquired_by_pool': res['acquired'], 'locked': res['locked']},
                  mechanism='iterate_abort:workers-not-released:after-raise')
  ctx.count('iterate_abort_capacity_checks', len(res['workers']))
  blocked = [w for w in res['workers'] if w['pending_states_without_transport_call']]
  if blocked:
    # Classified by the scenario: the driver aborted on an application error and a
    # client keeps a pending state that no transport call backs.
    aborted = isinstance(exc, RuntimeError) and 'Failed at' in str(exc)
    ctx.violation('worker_capacity_not_restored', case,
                  {'workers': res['workers'],
                   'idle_workers_seen_by_a_new_pool_over_each_blocked_worker':
                       [p['idle_workers'] for p in res['phase2']
                        if res['workers'][p['worker']]['pending_states_without_transport_call']],
                   'error': text[:160]},
                  mechanism=K_ITER_ABORT if aborted else 'iterate_abort:pending-state-left')
  for p2 in res['phase2']:
    if not p2.get('ran'):
      continue
    ctx.count('iterate_abort_phase2_runs')
    if not p2['finished']:
      ctx.inconclusive_case('iterate_abort: phase 2 watchdog', case)
      continue
    if p2['exc'] is not None:
      e = p2['exc']
      t2 = f'{type(e).__name__}: {e}'
      if 'All workers timeout' in t2:
        ctx.inconclusive_case('library saw no alive worker (load)', case)
      else:
        ctx.violation('driver_raised', case, {'error': t2[:300], 'phase': 2, 'worker': p2['worker']},
                      mechanism=f'iterate_abort:second-run-raises:{type(e).__name__}')
      continue
    want2 = sorted(repr(list(b)) for b in p2['ref_outs'])
    got2 = sorted(repr(list(b)) for b in p2['outs'])
    finals = [a for a in p2['aggs'] if isinstance(a, transform.AggregateResult)]
    # The property promises every output batch AT LEAST once (a shard that is retried
    # - e.g. after a real-time deadline under load - delivers its batches again) and
    # the aggregate exactly once: repeated batches are not a difference.
    if (set(got2) != set(want2) or len(finals) != 1
        or finals[0].agg_result != p2['ref_agg']):
      ctx.violation('second_run_differs', case,
                    {'worker': p2['worker'], 'n_got': len(got2), 'n_want': len(want2),
                     'aggs': repr(p2['aggs'])[:200], 'want_agg': repr(p2['ref_agg'])},
                    mechanism='iterate_abort:second-run-differs')
  if len(ctx.samples) < 6 and blocked:
    ctx.sample({'case': case, 'workers_after_abort': res['workers']})


def run_interleaved(ctx, runner, case):
  """run_pipeline_interleaved: in-process source -> remote stage -> in-process stage."""
  from vlib import c06lib
  from ml_metrics._src.chainables import courier_server, orchestrate
  W = case['W']
  servers, addrs, raw, pool = runner.make_pool(W, case['par'], 1, call_timeout=0)
  master = courier_server.CourierServer(runner.cwork.unique('c06master'))
  try:
    pool.wait_until_alive(deadline_secs=HB_THRESHOLD, minimum_num_workers=W)
    pipeline = c06lib.interleaved_pipeline(case['n'], case.get('fail_at'), case.get('delay', 0.0))
    consumed, box = [], {}

    def go():
      with orchestrate.run_pipeline_interleaved(
          pipeline, master_server=master,
          resources={'apply': orchestrate.RunnerResource(worker_pool=pool)}) as state:
        box['runner'] = state
        try:
          for b in state.result_queue:
            consumed.append(b)
        except Exception as e:  # pylint: disable=broad-exception-caught
          box['consumer_exc'] = e
          # observed when the failure reaches the consumer, before the runner winds down
          box['remote_busy_at_failure'] = not state.stages[1].state.done()

    finished, _, exc = runner.cwork.run_with_watchdog(go, 90)
    res = {'finished': finished, 'exc': exc, 'consumed': list(consumed),
           'consumer_exc': box.get('consumer_exc'), 'released': False, 'stuck': None,
           'remote_busy_at_raise': False}
    state = box.get('runner')
    if not finished or state is None:
      return res
    remote = state.stages[1]
    res['remote_busy_at_raise'] = bool(box.get('remote_busy_at_failure'))

    def snapshot():
      frames = c06lib.frames_named(list(state.thread_pool._threads),  # pylint: disable=protected-access
                                   'iterate_with_worker_pool')
      iterating = {}
      for fr in frames:
        iterating.update(fr.f_locals.get('iterating') or {})
      return {'acquired': sorted(w.address for w in pool.acquired_workers),
              'locked': sorted(w.address for w in pool.all_workers if w.is_locked()),
              'event_loop_running': state.event_loop.is_running(),
              'remote_stage_done': remote.state.done(),
              'stage_frame_found': bool(frames),
              'unfinished_remote_iterations': sorted(
                  w.address for w, st in iterating.items() if not st.done()),
              '_futures': [st for st in iterating.values() if not st.done()]}

    def is_stuck(snap):
      # The remote stage waits for coroutine futures of an event loop that was stopped.
      return bool(snap['acquired'] and not snap['event_loop_running']
                  and not snap['remote_stage_done'] and snap['stage_frame_found']
                  and snap['unfinished_remote_iterations']
                  and set(snap['acquired']) <= set(snap['unfinished_remote_iterations']))

    t0 = time.time()
    snap = snapshot()
    while time.time() - t0 < 20:
      snap = snapshot()
      if not snap['acquired'] and not snap['locked']:
        res['released'] = True
        break
      if is_stuck(snap):
        time.sleep(0.3)
        again = snapshot()
        if is_stuck(again) and again['unfinished_remote_iterations'] == snap['unfinished_remote_iterations']:
          res['stuck'] = {k: v for k, v in again.items() if k != '_futures'}
          # unblock the stage thread (it would spin for the rest of the chunk)
          for f in again['_futures']:
            f.cancel()
          break
      time.sleep(0.02)
    res['last'] = {k: v for k, v in snap.items() if k != '_futures'}
    return res
  finally:
    runner.cwork.stop_servers(servers + [master], join_s=0.5)


def judge_interleaved(ctx, case, res):
  from vlib import c06lib
  fail_at = case.get('fail_at')
  ctx.count('interleaved_cases')
  ctx.count('interleaved_failure_cases' if fail_at is not None else 'interleaved_fault_free_cases')
  if fail_at is None:
    ctx.count('fault_free_cases')
  if res.get('remote_busy_at_raise') and fail_at is not None:
    ctx.count('interleaved_failure_remote_stage_busy')
  ctx.case(('interleaved_failure', dict(case)), fail_at is not None and res.get('remote_busy_at_raise'))
  if not res['finished']:
    ctx.inconclusive_case('interleaved: watchdog', case)
    return
  exc = res['exc']
  text = c06lib.error_chain_text(exc) if exc is not None else ''
  ref = c06lib.interleaved_reference(case['n'])
  got = sorted(res['consumed'])
  ctx.count('tasks_delivered', len(got))
  if fail_at is None:
    if exc is not None or res['consumer_exc'] is not None:
      ctx.violation('driver_raised', case, {'error': (text or repr(res['consumer_exc']))[:300]},
                    mechanism=f'interleaved:fault-free-raises:{type(exc or res["consumer_exc"]).__name__}')
    elif got != ref:
      ctx.violation('results_differ', case, {'n_got': len(got), 'n_want': len(ref)},
                    mechanism='interleaved:fault-free-results-differ')
  else:
    if exc is None:
      ctx.violation('app_error_swallowed', case, {'n_consumed': len(got)},
                    mechanism='interleaved_failure:app-error-swallowed')
    elif not any(m in text for m in (c06lib.APP_ERROR_MARK, 'post_fn')):
      ctx.violation('app_error_wrong_exception', case, {'error': text[:400]},
                    mechanism=f'interleaved_failure:app-error-other-exception:{type(exc).__name__}')
    if len(set(got)) != len(got) or not set(got) <= set(ref):
      ctx.violation('duplicate_or_phantom_result', case, {'n_got': len(got)},
                    mechanism='interleaved_failure:duplicates-or-phantoms')
  ctx.count('release_checks')
  if res['released']:
    return
  if res['stuck']:
    audited = (fail_at is not None and exc is not None and 'stage' in str(exc)
               and 'failed' in str(exc))
    ctx.violation('workers_not_released', case,
                  {'state': res['stuck'], 'error': text[:200]},
                  mechanism=K_INTERLEAVED if audited
                  else 'interleaved:workers-not-released:after-' + ('raise' if exc else 'return'))
    if len(ctx.samples) < 6:
      ctx.sample({'case': case, 'state_after_raise': res['stuck']})
    return
  ctx.inconclusive_case('interleaved: workers still acquired at the watchdog, the runner is still active', case)


def run_sharded_ignore_error(ctx, runner, case):
  """Workers skip application errors (ignore_error=True); one record raises."""
  from vlib import c06lib, c16lib
  from ml_metrics._src.chainables import courier_worker, orchestrate
  W = case['W']
  servers = runner.cwork.start_servers(W, 'c06ie', ignore_error=True)
  try:
    pool = courier_worker.WorkerPool(
        [s.address for s in servers], call_timeout=CALL_TIMEOUT, max_parallelism=1,
        heartbeat_threshold_secs=HB_THRESHOLD, iterate_batch_size=case['ibs'])
    pool.wait_until_alive(deadline_secs=HB_THRESHOLD, minimum_num_workers=W)
    recs = c16lib.records(case['n'], case['rec'])
    bad = recs[case['bad_record']]
    kw = {'value': 3 * bad[0] + 1}
    run_kwargs = {}
    if case.get('exc') is not None:
      kw['exc'] = case['exc']
      # (no small retry budget here: the exception of an operator never travels as
      # an object - the library replaces it by ValueError('Failed to call ...') - and
      # the recorded finding of this driver retries legitimately)
      if case.get('retry_threshold') is not None:
        run_kwargs['retry_threshold'] = case['retry_threshold']
    ops = [['affine', {'a': 3, 'b': 1}], ['failing', kw]]
    spec = {'n': case['n'], 'rec': case['rec'], 'ops': ops, 'agg': 'sum', 'fused': True,
            'num_threads': 0}
    rq, outs = queue.SimpleQueue(), []

    def go():
      for b in orchestrate.sharded_pipelines_as_iterator(
          pool, c06lib.define_pipeline, spec, num_shards=case['K'], result_queue=rq, **run_kwargs):
        outs.append(b)

    finished, _, exc = runner.cwork.run_with_watchdog(go, 60)
    ref_all, _ = c16lib.reference(dict(spec, ops=ops[:1]))
    keep = [o for i, o in enumerate(ref_all) if i != case['bad_record']]
    agg = c16lib.SumCount()
    st = agg.create_state()
    for o in keep:
      st = agg.update_state(st, o)
    return {'finished': finished, 'exc': exc, 'outs': list(outs),
            'aggs': _collect_aggs(rq, finished, exc), 'ref_all': ref_all, 'ref_keep': keep,
            'ref_agg': {'agg': agg.get_result(st)},
            'acquired': len(pool.acquired_workers),
            'locked': sum(1 for w in pool.all_workers if w.is_locked())}
  finally:
    runner.cwork.stop_servers(servers, join_s=0.5)


def judge_sharded_ignore_error(ctx, case, res):
  from vlib import c06lib
  from ml_metrics._src.chainables import transform
  ctx.count('ignore_error_cases')
  ctx.count('app_error_cases')
  ctx.case(('sharded_ignore_error', dict(case)), True)
  if not res['finished']:
    ctx.inconclusive_case('sharded_ignore_error: watchdog', case)
    return
  exc = res['exc']
  ctx.count('release_checks')
  if res['acquired'] or res['locked']:
    ctx.violation('workers_not_released', case, {'acquired_by_pool': res['acquired'], 'locked': res['locked']},
                  mechanism='sharded_ignore_error:workers-not-released')
  if case.get('exc') is not None:
    ctx.count('app_error_family_cases')
  if exc is not None:
    text = c06lib.error_chain_text(exc)
    if 'All workers timeout' in text:
      ctx.inconclusive_case('library saw no alive worker (load)', case)
    elif isinstance(exc, TimeoutError) and 'Too many Timeouts' in str(exc) and case.get('exc') is not None:
      # the budget of these cases is small; which retries used it up is not observed here
      ctx.inconclusive_case('sharded_ignore_error: the small retry budget was used up', case)
    elif not any(m in text for m in (c06lib.APP_ERROR_MARK, 'op_failing', 'ParseError')):
      ctx.violation('driver_raised', case, {'error': text[:300]},
                    mechanism=f'sharded_ignore_error:raises:{type(exc).__name__}')
    return   # the application error surfaced: nothing is silently missing
  order = {repr(list(o)): i for i, o in enumerate(res['ref_all'])}
  got = [repr(list(b)) for b in res['outs']]
  ctx.count('tasks_delivered', len(got))
  missing = sorted(order[repr(list(o))] for o in res['ref_keep'] if repr(list(o)) not in set(got))
  phantom = [g for g in set(got) if g not in order or order[g] == case['bad_record']]
  finals = [a for a in res['aggs'] if isinstance(a, transform.AggregateResult)]
  agg_ok = len(finals) == 1 and finals[0].agg_result == res['ref_agg']
  if missing or phantom or not agg_ok:
    f = case['bad_record']
    # audited signature: exactly the records that directly follow the failing one
    # (the rest of its contiguous shard) are gone, nothing else
    tail = bool(missing) and missing == list(range(f + 1, f + 1 + len(missing))) and not phantom
    ctx.violation('records_after_ignored_error_silently_dropped' if tail else 'output_batch_lost_or_phantom',
                  case, {'failing_record': f, 'missing_records': missing[:12], 'phantom': phantom[:5],
                         'aggregate': repr([a.agg_result for a in finals])[:160],
                         'want_aggregate': repr(res['ref_agg'])},
                  mechanism=K_IGNORE_TRUNC if tail else 'sharded_ignore_error:batches-differ')


def judge_phase2(ctx, case, res):
  p2 = res.get('phase2')
  if not p2:
    return
  ctx.count('rejoin_phase2_cases')
  if not p2['rejoined']:
    ctx.inconclusive_case('the restarted worker was not seen alive again', case)
    return
  from ml_metrics._src.chainables import transform
  if not p2['finished']:
    ctx.violation('hang_with_rejoined_worker_usable', case,
                  {'victim_pendings': p2['victim_pendings'],
                   'victim_has_capacity': p2['victim_capacity'], 'hits': res['hits']},
                  mechanism='rejoin:second-run-hangs-although-rejoined-worker-alive')
    return
  if p2['exc'] is not None:
    e = p2['exc']
    text = f'{type(e).__name__}: {e}'
    mech = f'rejoin:second-run-raises:{type(e).__name__}'
    if 'All workers timeout' in text or isinstance(e, _invalid_state()):
      mech = 'healthy-idle-worker-heartbeat-transiently-stale'
    ctx.violation('driver_raised', case, {'error': text[:300], 'phase': 2}, mechanism=mech)
    return
  want = sorted(repr(list(b)) for b in p2['ref_outs'])
  got = sorted(set(repr(list(b)) for b in p2['outs']))
  finals = [a for a in p2['aggs'] if isinstance(a, transform.AggregateResult)]
  if got != sorted(set(want)) or len(finals) != 1 or finals[0].agg_result != p2['ref_agg']:
    ctx.violation('second_run_differs', case,
                  {'missing': [w for w in want if w not in got][:5],
                   'aggs': repr(p2['aggs'])[:200], 'want_agg': repr(p2['ref_agg'])},
                  mechanism='rejoin:second-run-differs')


def _invalid_state():
  import concurrent.futures as cf
  return cf.InvalidStateError


def _fault_sig(case):
  if case['driver'] == 'sharded_late_death':
    return 'late_death'
  if case['driver'] == 'sharded_rejoin':
    return 'rejoin'
  if case['driver'] == 'sharded_final_reply_death':
    return 'final_reply_' + case['death']
  return '+'.join(sorted({f[2] for f in case['faults']})) or 'none'


def judge(ctx, case, res):
  driver = case['driver']
  ctx.count({'as_completed': 'as_completed_cases', 'run': 'run_cases',
             'sharded': 'sharded_cases', 'sharded_rejoin': 'rejoin_cases',
             'sharded_late_death': 'late_death_cases',
             'sharded_final_reply_death': 'final_reply_death_cases'}[driver])
  hit = len(res['hits'])
  ctx.count('faults_hit', hit)
  if driver == 'sharded_final_reply_death' and hit:
    ctx.count('final_reply_deaths_hit')
  if case.get('no_deadline'):
    ctx.count('no_deadline_cases')
  if not case.get('faults') and case.get('app_error') is None and driver not in ('sharded_late_death', 'sharded_rejoin',
                                                                              'sharded_final_reply_death'):
    ctx.count('fault_free_cases')
  ctx.case((driver, {k: v for k, v in case.items()}), hit >= 1)
  sig = _fault_sig(case)
  if not res['finished']:
    # The case thread is still running: with the last worker healthy this is a hang.
    if res['last_healthy']:
      ctx.violation('no_completion_within_watchdog', case, {'hits': res['hits']},
                    mechanism=f'{driver}:hang:{sig}')
    else:
      ctx.inconclusive_case('watchdog with no healthy worker', case)
    return
  exc = res['exc']
  exc_text = f'{type(exc).__name__}: {exc}' if exc is not None else None
  if exc is not None and exc.__cause__ is not None:
    # e.g. 'Failed at k/n task.' raised from the exception of the failed task
    exc_text += f' <- {type(exc.__cause__).__name__}: {str(exc.__cause__)[:160]}'
  STALE = 'healthy-idle-worker-heartbeat-transiently-stale'
  if exc is not None and res['last_healthy'] and (
      (isinstance(exc, TimeoutError) and 'All workers timeout' in str(exc))
      or type(exc).__name__ == 'InvalidStateError'):
    if case.get('no_deadline'):
      # Known finding: heartbeats are only probed lazily once stale, so an idle
      # healthy worker looks dead for an instant exactly when the heartbeat of
      # the really dead worker expires (both were last refreshed together).
      ctx.violation('driver_raised', case, {'error': exc_text[:300], 'hits': res['hits']},
                    mechanism=STALE)
    else:
      ctx.inconclusive_case('library saw no alive worker although the unfaulted one was healthy (load)', case)
    return
  ctx.count('release_checks')
  if driver in ('as_completed', 'run'):
    T = case['T']
    ids = sorted(r[1] for r in res['delivered'] if isinstance(r, tuple) and r and r[0] == 'done')
    ctx.count('tasks_delivered', len(ids))
    app = case.get('app_error')
    if app is not None:
      ctx.count('app_error_cases')
      if case.get('exc') is not None:
        ctx.count('app_error_family_cases')
      if driver == 'run':
        ctx.count('run_app_error_cases')
    expected = [i for i in range(T) if i != app]
    if (exc is not None and driver == 'run' and not hit and not case.get('faults')
        and getattr(exc, 'code', 0) == 4):
      # WorkerPool.run() has no retry: a call that runs into the (real-time) deadline of
      # the transport although no fault was injected is machine load, not a verdict.
      ctx.inconclusive_case('run(): call deadline exceeded without an injected fault (load)', case)
    elif exc is not None and app is None:
      ctx.violation('driver_raised', case, {'error': exc_text[:300], 'hits': res['hits']},
                    mechanism=f'{driver}:raises:{type(exc).__name__}:{sig}')
    elif app is not None and not case.get('ignore_failures'):
      # the application error must surface (never silently missing)
      if exc is None:
        ctx.violation('app_error_swallowed', case, {'delivered': ids},
                      mechanism=f'{driver}:app-error-swallowed')
      elif case.get('exc') is not None:
        # any member of the family: the error names / chains the original exception
        from vlib import c06lib
        chain = c06lib.error_chain_text(exc)
        if not any(m in chain for m in c06lib.app_error_marks(case['exc'], f'task {app} failed')):
          ctx.violation('app_error_wrong_exception', case, {'error': exc_text[:300]},
                        mechanism=f'{driver}:app-error-other-exception:{type(exc).__name__}:'
                        + c06lib.app_error_key(case['exc']))
      elif f'task {app} failed' not in str(exc) and f'task {app} failed' not in str(getattr(exc, 'message', '')):
        ctx.violation('app_error_wrong_exception', case, {'error': exc_text[:300]},
                      mechanism=f'{driver}:app-error-other-exception:{type(exc).__name__}')
      if len(set(ids)) != len(ids) or not set(ids) <= set(expected):
        ctx.violation('duplicate_or_phantom_result', case, {'delivered': ids},
                      mechanism=f'{driver}:duplicates:{sig}')
    else:
      if ids != expected:
        kind = 'duplicate_result' if len(set(ids)) != len(ids) else 'lost_result'
        ctx.violation(kind, case, {'delivered': ids, 'expected': expected,
                                   'hits': res['hits'], 'error': exc_text},
                      mechanism=f'{driver}:{kind}:{sig}')
  else:
    if exc is not None:
      ctx.violation('driver_raised', case, {'error': exc_text[:300], 'hits': res['hits']},
                    mechanism=f'{driver}:raises:{type(exc).__name__}:{sig}')
    else:
      want = sorted(repr(list(b)) for b in res['ref_outs'])
      got = [repr(list(b)) for b in res['outs']]
      ctx.count('tasks_delivered', len(got))
      missing = [w for w in set(want) if w not in set(got)]
      phantom = [g for g in set(got) if g not in set(want)]
      # Known finding: an init_generator handler that runs after its deadline
      # (fault kind 'slow') replaces the generator of the shard the worker was
      # given meanwhile: that shard loses its remaining batches and the old shard
      # (re-run elsewhere) is delivered / aggregated twice.
      zombie_init = any(h[1] == 'init_generator' and h[3] == 'slow' for h in res['hits'])
      K_ZINIT = 'zombie-init-generator-replaces-running-generator'
      if missing or phantom:
        mech = f'sharded:batches:{sig}'
        if zombie_init:
          mech = K_ZINIT
        # Known finding: a next-batch handler that runs after its deadline
        # (fault kind 'slow') can dequeue from the generator that the retried
        # shard re-initialised on the same worker; that batch is never delivered.
        if missing and not phantom and any(
            h[1] == 'next_batch_from_generator' and h[3] == 'slow' for h in res['hits']):
          mech = 'zombie-next-batch-steals-from-reinitialised-generator'
        ctx.violation('output_batch_lost_or_phantom', case,
                      {'missing': missing[:5], 'phantom': phantom[:5], 'hits': res['hits']},
                      mechanism=mech)
      if hit == 0 and sorted(got) != want:
        if res.get('transport_deadlines'):
          # No fault was injected, yet the stand-in transport ended a call with
          # DEADLINE_EXCEEDED: its deadline is real time, the machine was too slow. The
          # retry that follows may deliver batches again (allowed: 'at least once').
          ctx.inconclusive_case('fault-free run hit a real-time deadline of the stand-in transport (load)', case)
        else:
          ctx.violation('fault_free_duplicates', case, {'n_got': len(got), 'n_want': len(want)},
                        mechanism='sharded:fault-free-duplicates')
      if driver == 'sharded_late_death' and sorted(got) != want:
        # every shard had completed before the death: nothing may be re-run
        ctx.violation('completed_shard_rerun', case, {'n_got': len(got), 'n_want': len(want)},
                      mechanism='sharded:completed-shard-rerun-after-late-death')
      from ml_metrics._src.chainables import transform
      finals = [a for a in res['aggs'] if isinstance(a, transform.AggregateResult)]
      if len(finals) != 1:
        ctx.violation('not_exactly_one_final_aggregate', case,
                      {'count': len(finals), 'hits': res['hits']},
                      mechanism=f'sharded:final-aggregate-count:{sig}')
      elif finals[0].agg_result != res['ref_agg']:
        mech = K_ZINIT if zombie_init else f'sharded:aggregate-differs:{sig}'
        detail = {'got': repr(finals[0].agg_result), 'want': repr(res['ref_agg']),
                  'hits': res['hits']}
        if driver == 'sharded_final_reply_death' and hit:
          # Classified by the input class: the death was placed right after the final
          # reply of a shard of that worker (and did hit), no other fault in the case;
          # and something was aggregated more than once (a lost state is another defect).
          try:
            detail['elements_aggregated'] = finals[0].agg_result['agg'][1]
            detail['elements_of_the_dataset'] = res['ref_agg']['agg'][1]
            if detail['elements_aggregated'] > detail['elements_of_the_dataset']:
              mech = K_LAST_REPLY
          except Exception:  # pylint: disable=broad-exception-caught
            pass
          detail['error_raised'] = None
          detail['batches_delivered'] = len(got)
          detail['batches_of_the_dataset'] = len(want)
        ctx.violation('aggregate_differs_from_fault_free', case, detail, mechanism=mech)
  if res['acquired'] or res['locked']:
    ctx.violation('workers_not_released', case,
                  {'acquired_by_pool': res['acquired'], 'locked': res['locked'],
                   'error': exc_text and exc_text[:200]},
                  mechanism=f'{driver}:workers-not-released:' + ('after-raise' if exc is not None else 'after-return'))
  if len(ctx.samples) < 4 and hit:
    ctx.sample({'case': case, 'faults_hit': res['hits'][:4],
                'delivered': (res.get('delivered') or res.get('outs') or [])[:6]})


def run_one(ctx, runner, case):
  if case['driver'] == 'iterate_abort':
    judge_iterate_abort(ctx, case, run_iterate_abort(ctx, runner, case))
    return
  if case['driver'] == 'interleaved_failure':
    judge_interleaved(ctx, case, run_interleaved(ctx, runner, case))
    return
  if case['driver'] == 'sharded_ignore_error':
    judge_sharded_ignore_error(ctx, case, run_sharded_ignore_error(ctx, runner, case))
    return
  if case['driver'] == 'as_completed':
    res = run_as_completed(ctx, runner, case)
  elif case['driver'] == 'run':
    res = run_pool_run(ctx, runner, case)
  elif case['driver'] == 'sharded_late_death':
    res = run_sharded_late_death(ctx, runner, case)
  elif case['driver'] == 'sharded_rejoin':
    res = run_sharded_rejoin(ctx, runner, case)
  elif case['driver'] == 'sharded_final_reply_death':
    res = run_sharded_final_reply_death(ctx, runner, case)
  else:
    res = run_sharded(ctx, runner, case)
  judge(ctx, case, res)
  if case['driver'] == 'sharded_rejoin':
    judge_phase2(ctx, case, res)


def run_chunk(ctx, spec):
  runner = Runner()
  rng = random.Random(spec['rseed'] * 1000003 + spec['chunk'] * 31 + 7)
  cases = enumerated_cases(spec['chunk'], spec['chunks'])
  if spec['tier'] == 'quick':
    # the enumerated sub-space is spread over seeds in the quick tier
    cases = [c for i, c in enumerate(cases) if (i + spec['rseed']) % 3 == 0]
  # (own generator for the exceptions of the application errors)
  rng_exc = random.Random(spec['rseed'] * 1000003 + spec['chunk'] * 31 + 23)
  cases += gen_cases(rng, spec['per_chunk'], rng_exc)
  for _ in range(2 if spec['tier'] == 'quick' else 10):
    # No call deadline: a worker that dies while holding a task is only noticed
    # through its stale heartbeat (the "worker disconnected" branch).
    W = rng.randint(2, 3)
    cases.append({'driver': 'as_completed', 'W': W, 'par': 1, 'no_deadline': True,
                  'faults': [[rng.randrange(W - 1), rng.randint(0, 2),
                              rng.choice(['die_before', 'die_after', 'exit_notice', 'exit_notice'])]],
                  'T': rng.randint(3, 8), 'app_error': None, 'ignore_failures': False})
  for _ in range(1 if spec['tier'] == 'quick' else 6):
    W = rng.randint(2, 3)
    cases.append({'driver': 'sharded_late_death', 'W': W, 'par': 1, 'faults': [],
                  'victim': rng.randrange(W - 1), 'n': rng.choice([6, 12, 20]),
                  'rec': rng.randint(1, 3), 'ibs': rng.randint(1, 3)})
  if spec['tier'] != 'quick' or spec['chunk'] % 2 == 0:
    W = rng.randint(2, 3)
    cases.append({'driver': 'sharded_rejoin', 'W': W, 'par': 1, 'faults': [],
                  'no_deadline': True, 'victim': rng.randrange(W - 1),
                  'idx': rng.randint(1, 3), 'K': W + rng.randint(0, 2),
                  'n': rng.choice([12, 20, 30]), 'n2': rng.choice([4, 9]),
                  'rec': rng.randint(1, 2), 'ibs': rng.randint(1, 2)})
  # (own generator: the cases above and below stay what they were)
  rng3 = random.Random(spec['rseed'] * 1000003 + spec['chunk'] * 31 + 19)
  for _ in range(1 if spec['tier'] == 'quick' else 8):
    cases.append(gen_final_reply_death_case(rng3))
  # -- abort scenarios -----------------------------------------------------------
  for _ in range(1 if spec['tier'] == 'quick' else 8):
    W = rng.randint(2, 3)
    K = W + rng.randint(0, 1)
    rec = rng.randint(1, 2)
    n = rec * K * rng.randint(8, 14)
    if rng.random() < 0.7:
      fail = {'kind': 'op', 'value': rng.randrange(n)}
    else:
      fail = {'kind': 'transport', 'worker': rng.randrange(W), 'idx': rng.randint(0, 2)}
    cases.append({'driver': 'iterate_abort', 'W': W, 'par': rng.choice([1, 1, 1, 2]),
                  'ibs': rng.randint(1, 2), 'K': K, 'n': n, 'rec': rec, 'fail': fail,
                  'delay': rng.choice([0.004, 0.008]), 'n2': rng.choice([4, 9]), 'faults': []})
    if fail['kind'] == 'op':
      fail['exc'] = draw_exc(rng_exc)
      fail['site'] = rng_exc.choice(['op', 'source'])
      cases[-1]['retry_threshold'] = rng_exc.randint(1, 5)
  # One failing record per chunk whose exception is the member (chunk + seed) of the family:
  # every member (and every value of its attribute `code`) occurs in every run.
  from vlib import c06lib as _c06lib
  for j in range(1 if spec['tier'] == 'quick' else 4):
    W = 2
    K = W + rng_exc.randint(0, 1)
    rec = rng_exc.randint(1, 2)
    n = rec * K * rng_exc.randint(3, 6)
    member = _c06lib.EXC_FAMILY[(spec['chunk'] + spec['rseed'] + j * 3) % len(_c06lib.EXC_FAMILY)]
    cases.append({'driver': 'iterate_abort', 'W': W, 'par': 1, 'ibs': rng_exc.randint(1, 3),
                  'K': K, 'n': n, 'rec': rec,
                  'fail': {'kind': 'op', 'site': 'source', 'value': rng_exc.randrange(n),
                           'exc': dict(member)},
                  'retry_threshold': rng_exc.randint(1, 4),
                  'delay': 0.002, 'n2': 4, 'faults': []})
  for _ in range(1 if spec['tier'] == 'quick' else 8):
    n = rng.choice([40, 80, 150, 300])
    cases.append({'driver': 'interleaved_failure', 'W': rng.randint(1, 3), 'par': 1, 'n': n,
                  'fail_at': None if rng.random() < 0.25 else rng.randrange(n),
                  'delay': rng.choice([0.0, 0.0, 0.001]), 'faults': []})
  if spec['tier'] != 'quick' or spec['chunk'] % 2 == 1:
    W = rng.randint(1, 3)
    K = W + rng.randint(0, 2)
    rec = rng.randint(1, 3)
    n_rec = K * rng.randint(2, 6)
    cases.append({'driver': 'sharded_ignore_error', 'W': W, 'K': K, 'rec': rec, 'n': rec * n_rec,
                  'bad_record': rng.randrange(n_rec), 'ibs': rng.randint(1, 3), 'faults': []})
  for case in cases:
    run_one(ctx, runner, case)
  ctx.notes['scale'] = SCALE


def run_case(ctx, case):
  runner = Runner()
  run_one(ctx, runner, case)
