"""C06 - distributed runs survive worker timeouts and deaths: no lost or doubled work.

Engine E4 + E3 with fault enumeration: the real orchestrate.as_completed /
WorkerPool.run / sharded_pipelines_as_iterator drive real
PrefetchedCourierServer workers over the simulated transport; a fault plan
assigns {lost request, lost reply, slow, death before/after, app error} to the
i-th data-plane call of each worker.  Time is dilated (library clock runs S
times faster) so that the shipped heartbeat/threshold/deadline logic decides.
"""

from __future__ import annotations

import itertools
import queue
import random
import time

ID = 'C06'
LEVEL = 'fault_enumeration'
EXTRA_PATH = ('vlib/fakecourier',)
SCALE = 60.0
CALL_TIMEOUT = 15.0      # library seconds  (0.25 s real)
HB_THRESHOLD = 150.0     # library seconds  (2.5 s real)
RULE = (
    'a case is (driver in {as_completed, WorkerPool.run, sharded_pipelines_as_iterator}, W=1-4 '
    'workers, max_parallelism 1-2, T=1-8 uniquely numbered tasks or K=1-6 shards, fault plan). '
    'Fault plans: every single fault kind at every one of the first 4 data-plane calls of every '
    'faultable worker (enumerated), pairs of faults sampled, application errors on chosen tasks; '
    'the last worker is never faulted (side condition: one worker stays usable). Non-trivial = '
    'the plan has >= 1 fault that actually hit an executed call; distinct = hash of (driver, sizes, '
    'plan)')
ASSUMPTIONS = [
    'transport stand-in semantics (see C14): a deadline completes the client future with code 4 while the handler may still run and take effect (at-most-once is not provided)',
    f'the library clock is dilated by S={SCALE:g} (time.time x S, sleep / S, transport deadlines / S); call_timeout={CALL_TIMEOUT:g}s and heartbeat_threshold={HB_THRESHOLD:g}s library time keep the shipped ordering interval < deadline < threshold',
    'a dead worker stays dead for the rest of the case, except for the `restart` fault: the worker is unreachable for 0.4 s real time and then answers again under the same address with its generator state lost',
    'the last worker of the pool is never faulted and the retry budget is not exhausted; if the library nevertheless reports all workers timed out although the transport saw that worker healthy, the case is inconclusive (load), never a violation',
    'non-retriable application errors must surface as an exception whose text names the failing task',
]
REQUIRED = ['as_completed_cases', 'run_cases', 'sharded_cases', 'late_death_cases', 'no_deadline_cases', 'faults_hit', 'rejoin_cases', 'rejoin_phase2_cases',
            'tasks_delivered', 'fault_free_cases', 'app_error_cases', 'release_checks']
CHUNK_TIMEOUT_S = {'quick': 500, 'thorough': 3400}
FAULT_KINDS = ['lost_request', 'lost_reply', 'slow', 'die_before', 'die_after', 'restart']


def plan(tier, seed):
  chunks = 32 if tier == 'quick' else 64
  return [{'chunk': i, 'chunks': chunks, 'rseed': seed,
           'per_chunk': 30 if tier == 'quick' else 300} for i in range(chunks)]


def all_single_faults(W):
  out = []
  for w in range(W - 1):
    for idx in range(4):
      for kind in FAULT_KINDS:
        out.append([[w, idx, kind]])
  return out


def gen_cases(rng, n):
  """Deterministic case list for one chunk index (strided over the space)."""
  cases = []
  for _ in range(n):
    driver = rng.choice(['as_completed', 'as_completed', 'sharded', 'run'])
    W = rng.randint(1, 4)
    par = rng.choice([1, 1, 2])
    kind = rng.random()
    faults = []
    if W > 1 and kind < 0.75:
      singles = all_single_faults(W)
      faults = list(rng.choice(singles))
      if rng.random() < 0.35:
        extra = rng.choice(singles)[0]
        if extra[:2] != faults[0][:2]:
          faults.append(extra)
    case = {'driver': driver, 'W': W, 'par': par, 'faults': faults}
    if driver == 'as_completed':
      case['T'] = rng.randint(1, 8)
      case['app_error'] = rng.choice([None, None, None, rng.randrange(case['T'])])
      case['ignore_failures'] = bool(case['app_error'] is not None and rng.random() < 0.3)
    elif driver == 'run':
      case['T'] = rng.randint(1, 3)
      case['faults'] = [f for f in faults if f[2] in ('slow',)][:1]
    else:
      case['K'] = rng.randint(1, 6)
      case['n'] = rng.choice([0, 3, 9, 17, 30])
      case['rec'] = rng.randint(1, 4)
      case['ibs'] = rng.randint(1, 3)
    cases.append(case)
  return cases


def enumerated_cases(chunk, chunks):
  """The enumerated single-fault sub-space, strided over the chunks."""
  out = []
  for W in (2, 3):
    for f in all_single_faults(W):
      for driver in ('as_completed', 'sharded'):
        case = {'driver': driver, 'W': W, 'par': 1, 'faults': f}
        if driver == 'as_completed':
          case.update(T=4, app_error=None, ignore_failures=False)
        else:
          case.update(K=3, n=12, rec=2, ibs=2)
        out.append(case)
  return [c for i, c in enumerate(out) if i % chunks == chunk]


class Runner:
  """Holds the per-child environment."""

  def __init__(self):
    from vlib import cwork
    import courier
    self.cwork = cwork
    self.courier = courier
    cwork.setup(scale=SCALE)

  def make_pool(self, W, par, ibs=1, call_timeout=CALL_TIMEOUT):
    from ml_metrics._src.chainables import courier_worker
    servers = self.cwork.start_servers(W, 'c06w')
    addrs = [s.address for s in servers]
    raw = {s.address: s._server.address for s in servers}  # pylint: disable=protected-access
    pool = courier_worker.WorkerPool(
        addrs, call_timeout=call_timeout, max_parallelism=par,
        heartbeat_threshold_secs=HB_THRESHOLD, iterate_batch_size=ibs)
    return servers, addrs, raw, pool

  def install_plan(self, raw_addrs, faults, servers=None):
    """raw_addrs: worker index -> transport address."""
    import threading
    sim = self.courier.sim
    by_raw = {s._server.address: s for s in (servers or [])}  # pylint: disable=protected-access

    def restart(addr):
      # The worker process is replaced: unreachable for a while, then back under
      # the same address with its generator state lost.
      sim.kill(addr)

      def back():
        time.sleep(0.4)
        srv = by_raw.get(addr)
        if srv is not None:
          srv._generator = None  # pylint: disable=protected-access
          srv._enqueue_thread = None  # pylint: disable=protected-access
        sim.revive(addr)

      threading.Thread(target=back, daemon=True).start()
    table = {}
    for w, idx, kind in faults:
      table[(raw_addrs[w], idx)] = kind
    hits = []

    def plan(addr, method, idx):
      kind = table.get((addr, idx))
      if kind is None or method == 'heartbeat':
        return None
      hits.append((addr, method, idx, kind))
      if kind == 'slow':
        return {'kind': 'ok', 'delay': (CALL_TIMEOUT * 1.6) / SCALE}
      if kind == 'restart':
        restart(addr)
        return {'kind': 'lost_request'}
      if kind == 'exit_notice':
        # The worker process exits while holding this call: the call is never
        # answered, its port refuses new connections, and its death notice
        # (heartbeat(is_alive=False) to the master) unregisters it at once.
        from ml_metrics._src.utils import courier_utils
        sim.kill(addr)
        sim.refusing.add(addr)
        for name, srv in list(by_raw.items()):
          if name == addr:
            sim.refusing.add(srv.address)
            courier_utils.worker_registry().unregister(srv.address)
        return {'kind': 'lost_request'}
      return {'kind': kind}

    sim.fault_plan = plan
    with sim.lock:
      sim.call_counts = {}
    return hits

  def clear_plan(self):
    self.courier.sim.fault_plan = None


def _healthy_last_worker(runner, raw_last):
  return runner.courier.sim.lookup(raw_last) is not None


def run_as_completed(ctx, runner, case):
  from vlib import c16lib
  from ml_metrics._src.chainables import lazy_fns, orchestrate
  servers, addrs, raw, pool = runner.make_pool(
      case['W'], case['par'], call_timeout=0 if case.get('no_deadline') else CALL_TIMEOUT)
  raw_list = [raw[a] for a in addrs]
  try:
    pool.wait_until_alive(deadline_secs=HB_THRESHOLD, minimum_num_workers=case['W'])
    hits = runner.install_plan(raw_list, case['faults'], servers)
    T = case['T']
    tasks = [lazy_fns.trace(c16lib.task_fn)(
        i, fail='value' if case.get('app_error') == i else None) for i in range(T)]
    delivered, error = [], None

    def go():
      for r in orchestrate.as_completed(pool, iter(tasks),
                                        ignore_failures=case.get('ignore_failures', False)):
        delivered.append(r)

    finished, _, exc = runner.cwork.run_with_watchdog(go, 90)
    runner.clear_plan()
    return {'finished': finished, 'exc': exc, 'delivered': delivered, 'hits': hits,
            'acquired': len(pool.acquired_workers),
            'locked': sum(1 for w in pool.all_workers if w.is_locked()),
            'last_healthy': _healthy_last_worker(runner, raw_list[-1])}
  finally:
    runner.clear_plan()
    runner.cwork.stop_servers(servers, join_s=0.5)


def run_pool_run(ctx, runner, case):
  from vlib import c16lib
  from ml_metrics._src.chainables import lazy_fns
  servers, addrs, raw, pool = runner.make_pool(case['W'], case['par'])
  raw_list = [raw[a] for a in addrs]
  try:
    pool.wait_until_alive(deadline_secs=HB_THRESHOLD, minimum_num_workers=case['W'])
    hits = runner.install_plan(raw_list, [])
    delivered = []

    def go():
      for i in range(case['T']):
        delivered.append(pool.run(lazy_fns.trace(c16lib.task_fn)(i)))

    finished, _, exc = runner.cwork.run_with_watchdog(go, 60)
    return {'finished': finished, 'exc': exc, 'delivered': delivered, 'hits': hits,
            'acquired': len(pool.acquired_workers),
            'locked': sum(1 for w in pool.all_workers if w.is_locked()),
            'last_healthy': True}
  finally:
    runner.clear_plan()
    runner.cwork.stop_servers(servers, join_s=0.5)


def run_sharded(ctx, runner, case):
  from vlib import c16lib
  from ml_metrics._src.chainables import orchestrate
  servers, addrs, raw, pool = runner.make_pool(case['W'], case['par'], case['ibs'])
  raw_list = [raw[a] for a in addrs]
  spec = {'n': case['n'], 'rec': case['rec'], 'ops': [['affine', {'a': 3, 'b': 1}]],
          'agg': 'sum', 'fused': True, 'num_threads': 0}
  try:
    pool.wait_until_alive(deadline_secs=HB_THRESHOLD, minimum_num_workers=case['W'])
    hits = runner.install_plan(raw_list, case['faults'], servers)
    rq = queue.SimpleQueue()
    outs = []

    def go():
      for b in orchestrate.sharded_pipelines_as_iterator(
          pool, c16lib.define_pipeline, spec, num_shards=case['K'], result_queue=rq):
        outs.append(b)

    finished, _, exc = runner.cwork.run_with_watchdog(go, 120)
    runner.clear_plan()
    aggs = []
    if finished and exc is None:
      try:
        aggs.append(rq.get(timeout=20))
      except queue.Empty:
        pass
      time.sleep(0.02)
      while not rq.empty():
        aggs.append(rq.get_nowait())
    ref_outs, ref_agg = c16lib.reference(spec)
    return {'finished': finished, 'exc': exc, 'outs': outs, 'aggs': aggs,
            'ref_outs': ref_outs, 'ref_agg': ref_agg, 'hits': hits,
            'acquired': len(pool.acquired_workers),
            'locked': sum(1 for w in pool.all_workers if w.is_locked()),
            'last_healthy': _healthy_last_worker(runner, raw_list[-1])}
  finally:
    runner.clear_plan()
    runner.cwork.stop_servers(servers, join_s=0.5)


def run_sharded_late_death(ctx, runner, case):
  """A worker dies after it completed its shard but before the (suspended)
  driver loop collects the finished task: the consumer pauses longer than the
  heartbeat threshold after the first batch, the worker is killed meanwhile."""
  import threading
  from vlib import c16lib
  from ml_metrics._src.chainables import orchestrate
  W = case['W']
  servers, addrs, raw, pool = runner.make_pool(W, 1, case['ibs'])
  raw_list = [raw[a] for a in addrs]
  spec = {'n': case['n'], 'rec': case['rec'], 'ops': [['affine', {'a': 3, 'b': 1}]],
          'agg': 'sum', 'fused': True, 'num_threads': 0}
  try:
    pool.wait_until_alive(deadline_secs=HB_THRESHOLD, minimum_num_workers=W)
    rq = queue.SimpleQueue()
    outs = []
    killed = []

    def killer():
      time.sleep(0.6)   # every shard has long finished (they run ahead of the consumer)
      runner.courier.sim.kill(raw_list[case['victim']])
      killed.append(time.time())

    def go():
      it = orchestrate.sharded_pipelines_as_iterator(
          pool, c16lib.define_pipeline, spec, num_shards=W, result_queue=rq)
      first = True
      for b in it:
        outs.append(b)
        if first:
          first = False
          threading.Thread(target=killer, daemon=True).start()
          time.sleep(HB_THRESHOLD / SCALE * 1.4)   # the victim's heartbeat goes stale

    finished, _, exc = runner.cwork.run_with_watchdog(go, 120)
    aggs = []
    if finished and exc is None:
      try:
        aggs.append(rq.get(timeout=20))
      except queue.Empty:
        pass
      time.sleep(0.02)
      while not rq.empty():
        aggs.append(rq.get_nowait())
    ref_outs, ref_agg = c16lib.reference(spec)
    return {'finished': finished, 'exc': exc, 'outs': outs, 'aggs': aggs,
            'ref_outs': ref_outs, 'ref_agg': ref_agg,
            'hits': [(raw_list[case['victim']], 'killed-after-shard-done', -1, 'late_death')] if killed else [],
            'acquired': len(pool.acquired_workers),
            'locked': sum(1 for w in pool.all_workers if w.is_locked()),
            'last_healthy': True}
  finally:
    runner.cwork.stop_servers(servers, join_s=0.5)


def run_sharded_rejoin(ctx, runner, case):
  """A worker dies while its shard is in flight, with no call deadline: it is only
  noticed through its stale heartbeat and its task is cancelled.  It rejoins
  later.  Afterwards every other worker is taken away and a second pipeline runs
  through the same pool: the rejoined worker is the one usable worker."""
  import threading
  from vlib import c16lib
  from ml_metrics._src.chainables import orchestrate
  W = case['W']
  servers, addrs, raw, pool = runner.make_pool(W, 1, case['ibs'], call_timeout=0)
  raw_list = [raw[a] for a in addrs]
  sim = runner.courier.sim
  spec = {'n': case['n'], 'rec': case['rec'], 'ops': [['affine', {'a': 3, 'b': 1}]],
          'agg': 'sum', 'fused': True, 'num_threads': 0}
  spec2 = dict(spec, n=case['n2'])
  victim = raw_list[case['victim']]
  try:
    pool.wait_until_alive(deadline_secs=HB_THRESHOLD, minimum_num_workers=W)
    hits = runner.install_plan(raw_list, [[case['victim'], case['idx'], 'die_before']], servers)
    rq, outs = queue.SimpleQueue(), []

    def go():
      for b in orchestrate.sharded_pipelines_as_iterator(
          pool, c16lib.define_pipeline, spec, num_shards=case['K'], result_queue=rq):
        outs.append(b)

    finished, _, exc = runner.cwork.run_with_watchdog(go, 120)
    runner.clear_plan()
    aggs = []
    if finished and exc is None:
      try:
        aggs.append(rq.get(timeout=20))
      except queue.Empty:
        pass
      while not rq.empty():
        aggs.append(rq.get_nowait())
    ref_outs, ref_agg = c16lib.reference(spec)
    res = {'finished': finished, 'exc': exc, 'outs': outs, 'aggs': aggs,
           'ref_outs': ref_outs, 'ref_agg': ref_agg, 'hits': hits,
           'acquired': len(pool.acquired_workers),
           'locked': sum(1 for w in pool.all_workers if w.is_locked()),
           'last_healthy': True, 'phase2': None}
    if not (finished and exc is None and hits):
      return res
    # The victim's process comes back under the same address (state lost).
    by_raw = {s._server.address: s for s in servers}  # pylint: disable=protected-access
    srv = by_raw.get(victim)
    if srv is not None:
      srv._generator = None  # pylint: disable=protected-access
      srv._enqueue_thread = None  # pylint: disable=protected-access
    sim.revive(victim)
    vw = [w for w in pool.all_workers if raw.get(w.address) == victim][0]
    t0 = time.time()
    while time.time() - t0 < 3 * HB_THRESHOLD / SCALE and not vw.is_alive:
      time.sleep(0.02)
    if not vw.is_alive:
      res['phase2'] = {'rejoined': False}
      return res
    for a in raw_list:
      if a != victim:
        sim.kill(a)
    rq2, outs2 = queue.SimpleQueue(), []

    def go2():
      for b in orchestrate.sharded_pipelines_as_iterator(
          pool, c16lib.define_pipeline, spec2, num_shards=2, result_queue=rq2):
        outs2.append(b)

    fin2, _, exc2 = runner.cwork.run_with_watchdog(go2, 6 * HB_THRESHOLD / SCALE + 10)
    aggs2 = []
    if fin2 and exc2 is None:
      try:
        aggs2.append(rq2.get(timeout=20))
      except queue.Empty:
        pass
    ro2, ra2 = c16lib.reference(spec2)
    res['phase2'] = {'rejoined': True, 'finished': fin2, 'exc': exc2, 'outs': outs2,
                     'aggs': aggs2, 'ref_outs': ro2, 'ref_agg': ra2,
                     'victim_pendings': len(vw.pendings), 'victim_capacity': vw.has_capacity}
    return res
  finally:
    runner.clear_plan()
    runner.cwork.stop_servers(servers, join_s=0.5)


def judge_phase2(ctx, case, res):
  p2 = res.get('phase2')
  if not p2:
    return
  ctx.count('rejoin_phase2_cases')
  if not p2['rejoined']:
    ctx.inconclusive_case('the restarted worker was not seen alive again', case)
    return
  from ml_metrics._src.chainables import transform
  if not p2['finished']:
    ctx.violation('hang_with_rejoined_worker_usable', case,
                  {'victim_pendings': p2['victim_pendings'],
                   'victim_has_capacity': p2['victim_capacity'], 'hits': res['hits']},
                  mechanism='rejoin:second-run-hangs-although-rejoined-worker-alive')
    return
  if p2['exc'] is not None:
    e = p2['exc']
    text = f'{type(e).__name__}: {e}'
    mech = f'rejoin:second-run-raises:{type(e).__name__}'
    if 'All workers timeout' in text or isinstance(e, _invalid_state()):
      mech = 'healthy-idle-worker-heartbeat-transiently-stale'
    ctx.violation('driver_raised', case, {'error': text[:300], 'phase': 2}, mechanism=mech)
    return
  want = sorted(repr(list(b)) for b in p2['ref_outs'])
  got = sorted(set(repr(list(b)) for b in p2['outs']))
  finals = [a for a in p2['aggs'] if isinstance(a, transform.AggregateResult)]
  if got != sorted(set(want)) or len(finals) != 1 or finals[0].agg_result != p2['ref_agg']:
    ctx.violation('second_run_differs', case,
                  {'missing': [w for w in want if w not in got][:5],
                   'aggs': repr(p2['aggs'])[:200], 'want_agg': repr(p2['ref_agg'])},
                  mechanism='rejoin:second-run-differs')


def _invalid_state():
  import concurrent.futures as cf
  return cf.InvalidStateError


def _fault_sig(case):
  if case['driver'] == 'sharded_late_death':
    return 'late_death'
  if case['driver'] == 'sharded_rejoin':
    return 'rejoin'
  return '+'.join(sorted({f[2] for f in case['faults']})) or 'none'


def judge(ctx, case, res):
  driver = case['driver']
  ctx.count({'as_completed': 'as_completed_cases', 'run': 'run_cases',
             'sharded': 'sharded_cases', 'sharded_rejoin': 'rejoin_cases',
             'sharded_late_death': 'late_death_cases'}[driver])
  hit = len(res['hits'])
  ctx.count('faults_hit', hit)
  if case.get('no_deadline'):
    ctx.count('no_deadline_cases')
  if not case.get('faults') and case.get('app_error') is None and driver not in ('sharded_late_death', 'sharded_rejoin'):
    ctx.count('fault_free_cases')
  ctx.case((driver, {k: v for k, v in case.items()}), hit >= 1)
  sig = _fault_sig(case)
  if not res['finished']:
    # The case thread is still running: with the last worker healthy this is a hang.
    if res['last_healthy']:
      ctx.violation('no_completion_within_watchdog', case, {'hits': res['hits']},
                    mechanism=f'{driver}:hang:{sig}')
    else:
      ctx.inconclusive_case('watchdog with no healthy worker', case)
    return
  exc = res['exc']
  exc_text = f'{type(exc).__name__}: {exc}' if exc is not None else None
  STALE = 'healthy-idle-worker-heartbeat-transiently-stale'
  if exc is not None and res['last_healthy'] and (
      (isinstance(exc, TimeoutError) and 'All workers timeout' in str(exc))
      or type(exc).__name__ == 'InvalidStateError'):
    if case.get('no_deadline'):
      # Known finding: heartbeats are only probed lazily once stale, so an idle
      # healthy worker looks dead for an instant exactly when the heartbeat of
      # the really dead worker expires (both were last refreshed together).
      ctx.violation('driver_raised', case, {'error': exc_text[:300], 'hits': res['hits']},
                    mechanism=STALE)
    else:
      ctx.inconclusive_case('library saw no alive worker although the unfaulted one was healthy (load)', case)
    return
  ctx.count('release_checks')
  if driver in ('as_completed', 'run'):
    T = case['T']
    ids = sorted(r[1] for r in res['delivered'] if isinstance(r, tuple) and r and r[0] == 'done')
    ctx.count('tasks_delivered', len(ids))
    app = case.get('app_error')
    if app is not None:
      ctx.count('app_error_cases')
    expected = [i for i in range(T) if i != app]
    if exc is not None and app is None:
      ctx.violation('driver_raised', case, {'error': exc_text[:300], 'hits': res['hits']},
                    mechanism=f'{driver}:raises:{type(exc).__name__}:{sig}')
    elif app is not None and not case.get('ignore_failures'):
      # the application error must surface (never silently missing)
      if exc is None:
        ctx.violation('app_error_swallowed', case, {'delivered': ids},
                      mechanism=f'{driver}:app-error-swallowed')
      elif f'task {app} failed' not in str(exc) and f'task {app} failed' not in str(getattr(exc, 'message', '')):
        ctx.violation('app_error_wrong_exception', case, {'error': exc_text[:300]},
                      mechanism=f'{driver}:app-error-other-exception:{type(exc).__name__}')
      if len(set(ids)) != len(ids) or not set(ids) <= set(expected):
        ctx.violation('duplicate_or_phantom_result', case, {'delivered': ids},
                      mechanism=f'{driver}:duplicates:{sig}')
    else:
      if ids != expected:
        kind = 'duplicate_result' if len(set(ids)) != len(ids) else 'lost_result'
        ctx.violation(kind, case, {'delivered': ids, 'expected': expected,
                                   'hits': res['hits'], 'error': exc_text},
                      mechanism=f'{driver}:{kind}:{sig}')
  else:
    if exc is not None:
      ctx.violation('driver_raised', case, {'error': exc_text[:300], 'hits': res['hits']},
                    mechanism=f'{driver}:raises:{type(exc).__name__}:{sig}')
    else:
      want = sorted(repr(list(b)) for b in res['ref_outs'])
      got = [repr(list(b)) for b in res['outs']]
      ctx.count('tasks_delivered', len(got))
      missing = [w for w in set(want) if w not in set(got)]
      phantom = [g for g in set(got) if g not in set(want)]
      # Known finding: an init_generator handler that runs after its deadline
      # (fault kind 'slow') replaces the generator of the shard the worker was
      # given meanwhile: that shard loses its remaining batches and the old shard
      # (re-run elsewhere) is delivered / aggregated twice.
      zombie_init = any(h[1] == 'init_generator' and h[3] == 'slow' for h in res['hits'])
      K_ZINIT = 'zombie-init-generator-replaces-running-generator'
      if missing or phantom:
        mech = f'sharded:batches:{sig}'
        if zombie_init:
          mech = K_ZINIT
        # Known finding: a next-batch handler that runs after its deadline
        # (fault kind 'slow') can dequeue from the generator that the retried
        # shard re-initialised on the same worker; that batch is never delivered.
        if missing and not phantom and any(
            h[1] == 'next_batch_from_generator' and h[3] == 'slow' for h in res['hits']):
          mech = 'zombie-next-batch-steals-from-reinitialised-generator'
        ctx.violation('output_batch_lost_or_phantom', case,
                      {'missing': missing[:5], 'phantom': phantom[:5], 'hits': res['hits']},
                      mechanism=mech)
      if hit == 0 and sorted(got) != want:
        ctx.violation('fault_free_duplicates', case, {'n_got': len(got), 'n_want': len(want)},
                      mechanism='sharded:fault-free-duplicates')
      if driver == 'sharded_late_death' and sorted(got) != want:
        # every shard had completed before the death: nothing may be re-run
        ctx.violation('completed_shard_rerun', case, {'n_got': len(got), 'n_want': len(want)},
                      mechanism='sharded:completed-shard-rerun-after-late-death')
      from ml_metrics._src.chainables import transform
      finals = [a for a in res['aggs'] if isinstance(a, transform.AggregateResult)]
      if len(finals) != 1:
        ctx.violation('not_exactly_one_final_aggregate', case,
                      {'count': len(finals), 'hits': res['hits']},
                      mechanism=f'sharded:final-aggregate-count:{sig}')
      elif finals[0].agg_result != res['ref_agg']:
        ctx.violation('aggregate_differs_from_fault_free', case,
                      {'got': repr(finals[0].agg_result), 'want': repr(res['ref_agg']),
                       'hits': res['hits']},
                      mechanism=K_ZINIT if zombie_init else f'sharded:aggregate-differs:{sig}')
  if res['acquired'] or res['locked']:
    ctx.violation('workers_not_released', case,
                  {'acquired_by_pool': res['acquired'], 'locked': res['locked'],
                   'error': exc_text and exc_text[:200]},
                  mechanism=f'{driver}:workers-not-released:' + ('after-raise' if exc is not None else 'after-return'))
  if len(ctx.samples) < 4 and hit:
    ctx.sample({'case': case, 'faults_hit': res['hits'][:4],
                'delivered': (res.get('delivered') or res.get('outs') or [])[:6]})


def run_one(ctx, runner, case):
  if case['driver'] == 'as_completed':
    res = run_as_completed(ctx, runner, case)
  elif case['driver'] == 'run':
    res = run_pool_run(ctx, runner, case)
  elif case['driver'] == 'sharded_late_death':
    res = run_sharded_late_death(ctx, runner, case)
  elif case['driver'] == 'sharded_rejoin':
    res = run_sharded_rejoin(ctx, runner, case)
  else:
    res = run_sharded(ctx, runner, case)
  judge(ctx, case, res)
  if case['driver'] == 'sharded_rejoin':
    judge_phase2(ctx, case, res)


def run_chunk(ctx, spec):
  runner = Runner()
  rng = random.Random(spec['rseed'] * 1000003 + spec['chunk'] * 31 + 7)
  cases = enumerated_cases(spec['chunk'], spec['chunks'])
  if spec['tier'] == 'quick':
    # the enumerated sub-space is spread over seeds in the quick tier
    cases = [c for i, c in enumerate(cases) if (i + spec['rseed']) % 3 == 0]
  cases += gen_cases(rng, spec['per_chunk'])
  for _ in range(2 if spec['tier'] == 'quick' else 10):
    # No call deadline: a worker that dies while holding a task is only noticed
    # through its stale heartbeat (the "worker disconnected" branch).
    W = rng.randint(2, 3)
    cases.append({'driver': 'as_completed', 'W': W, 'par': 1, 'no_deadline': True,
                  'faults': [[rng.randrange(W - 1), rng.randint(0, 2),
                              rng.choice(['die_before', 'die_after', 'exit_notice', 'exit_notice'])]],
                  'T': rng.randint(3, 8), 'app_error': None, 'ignore_failures': False})
  for _ in range(1 if spec['tier'] == 'quick' else 6):
    W = rng.randint(2, 3)
    cases.append({'driver': 'sharded_late_death', 'W': W, 'par': 1, 'faults': [],
                  'victim': rng.randrange(W - 1), 'n': rng.choice([6, 12, 20]),
                  'rec': rng.randint(1, 3), 'ibs': rng.randint(1, 3)})
  if spec['tier'] != 'quick' or spec['chunk'] % 2 == 0:
    W = rng.randint(2, 3)
    cases.append({'driver': 'sharded_rejoin', 'W': W, 'par': 1, 'faults': [],
                  'no_deadline': True, 'victim': rng.randrange(W - 1),
                  'idx': rng.randint(1, 3), 'K': W + rng.randint(0, 2),
                  'n': rng.choice([12, 20, 30]), 'n2': rng.choice([4, 9]),
                  'rec': rng.randint(1, 2), 'ibs': rng.randint(1, 2)})
  for case in cases:
    run_one(ctx, runner, case)
  ctx.notes['scale'] = SCALE


def run_case(ctx, case):
  runner = Runner()
  run_one(ctx, runner, case)
