"""C16 workloads: concurrent sharded runs over shared workers, merge-failing aggregates.

Everything shipped to a "remote" worker is importable here (cloudpickle ships it
by reference).  The observation hooks never change what the library does:

  * CallLog     - which thread issued which generator call on which worker
                  (every WorkerPool.iterate() drives its calls from its own
                  event-loop thread, so the thread identifies the run);
  * InitWatch   - init_generator requests that reached a worker whose installed
                  generator was not exhausted yet (two users at the same time);
  * ThreadWatch - the threads orchestrate creates (the unsupervised merge thread
                  of sharded_pipelines_as_iterator) and the exceptions that end
                  them.
"""

from __future__ import annotations

import queue
import threading
import time

from ml_metrics._src.aggregates import base

from vlib import c16lib

OFFSET = 10 ** 12   # values of the second run start here; no run of the grammar reaches it


class TotalNoMerge(base.AggregateFn):
  """A legal aggregate for in-process runs: merge_states is not overridden."""

  def create_state(self):
    return [0, 0]

  def update_state(self, state, xs):
    return [state[0] + sum(xs), state[1] + len(xs)]

  def get_result(self, state):
    return list(state)


class TotalMergeRaises(TotalNoMerge):
  """merge_states fails with an application error."""

  def merge_states(self, states):
    for _ in states:
      pass
    raise RuntimeError('these states cannot be merged')


class TotalMergedResultRaises(TotalNoMerge):
  """States merge, but the result of a merged state cannot be computed."""

  def merge_states(self, states):
    s = c = 0
    for st in states:
      s += st[0]
      c += st[1]
    return [s, c, 'merged']

  def get_result(self, state):
    if len(state) > 2:
      raise ValueError('no result for a merged state')
    return list(state)


XAGGS = {'no_merge': TotalNoMerge, 'merge_raises': TotalMergeRaises,
         'merged_result_raises': TotalMergedResultRaises}


def define_pipeline_x(spec, shard_index=0, num_shards=1):
  """c16lib.define_pipeline with the aggregate spec['xagg'] (fused or as its own stage)."""
  from ml_metrics._src.chainables import transform
  plain = {k: v for k, v in spec.items() if k not in ('agg', 'agg2', 'xagg')}
  plain['agg'] = None
  p = c16lib.define_pipeline(plain, shard_index, num_shards)
  fn = XAGGS[spec['xagg']]()
  if spec.get('fused', True):
    return p.aggregate(fn=fn, output_keys='agg')
  return p.chain(transform.TreeTransform.new(name='agg').aggregate(fn=fn, output_keys='agg'))


def reference_x(spec):
  """Independent evaluation (plain Python) of define_pipeline_x."""
  plain = {k: v for k, v in spec.items() if k not in ('agg', 'agg2', 'xagg')}
  outs, _ = c16lib.reference(plain)
  return outs, {'agg': [sum(sum(o) for o in outs), sum(len(o) for o in outs)]}


# ---------------------------------------------------------------------------
# observation hooks
# ---------------------------------------------------------------------------


class CallLog:
  """Logs (address, method, issuing thread) of the generator calls of CourierClient."""

  METHODS = ('init_generator', 'next_batch_from_generator')

  def __init__(self):
    self.events = []
    self._lock = threading.Lock()
    self._orig = None

  def __enter__(self):
    from ml_metrics._src.utils import courier_utils
    self._orig = orig = courier_utils.CourierClient.call
    log = self

    def call(self, *args, courier_method='maybe_make', **kwargs):
      if courier_method in CallLog.METHODS:
        with log._lock:
          log.events.append((self.address, courier_method, threading.current_thread()))
      return orig(self, *args, courier_method=courier_method, **kwargs)

    courier_utils.CourierClient.call = call
    return self

  def __exit__(self, *a):
    from ml_metrics._src.utils import courier_utils
    courier_utils.CourierClient.call = self._orig

  def clear(self):
    with self._lock:
      self.events = []

  def replaced_while_in_use(self):
    """Sessions (address, reader thread, intruder thread): the reader initialised a

    generator on the worker, another thread initialised one on the same worker,
    and the reader then asked that worker for the next batch again without
    having initialised a new generator itself.
    """
    out = []
    with self._lock:
      events = list(self.events)
    current = {}     # address -> thread of the latest init
    opened = {}      # (address, thread) -> True while its own generator is the installed one
    for addr, method, th in events:
      if method == 'init_generator':
        current[addr] = th
      elif current.get(addr) is not None and current[addr] is not th:
        key = (addr, th.name, current[addr].name)
        if key not in opened:
          opened[key] = True
          out.append(key)
    return out

  def interleaved(self):
    """True if calls of >= 2 threads alternate (the runs really overlapped in time)."""
    with self._lock:
      ths = [th for _, _, th in self.events]
    seq = [t for i, t in enumerate(ths) if i == 0 or ths[i - 1] is not t]
    return len(seq) > len({id(t) for t in seq})


class InitWatch:
  """Server side: init_generator requests that found an unexhausted generator installed.

  In a fault-free run nothing is retried, so this only happens when two users
  have a generator open on the same worker at the same time.  Enter it BEFORE the
  servers are built (the handler is bound at construction).
  """

  def __init__(self):
    self.preempted = []      # addresses
    self._orig = None

  def __enter__(self):
    from ml_metrics._src.chainables import courier_server
    self._orig = orig = courier_server.PrefetchedCourierServer._init_iterator  # pylint: disable=protected-access
    watch = self

    def _init_iterator(self, maybe_lazy):
      g = self._generator  # pylint: disable=protected-access
      if g is not None and not g.exhausted:
        watch.preempted.append(self.address)
      return orig(self, maybe_lazy)

    courier_server.PrefetchedCourierServer._init_iterator = _init_iterator  # pylint: disable=protected-access
    return self

  def __exit__(self, *a):
    from ml_metrics._src.chainables import courier_server
    courier_server.PrefetchedCourierServer._init_iterator = self._orig  # pylint: disable=protected-access

  def clear(self):
    self.preempted = []


class ThreadWatch:
  """Records the threads orchestrate starts and the exceptions that end threads."""

  def __init__(self):
    self.created = []      # (creating thread, target name, thread)
    self.lost = []         # (thread, exception)
    self._saved = None

  def __enter__(self):
    from ml_metrics._src.chainables import orchestrate
    from vlib.sched import shims
    watch = self

    class Thread(threading.Thread):

      def __init__(self, *a, **k):
        super().__init__(*a, **k)
        watch.created.append((threading.current_thread(),
                              getattr(k.get('target'), '__name__', None), self))

    self._saved = (orchestrate.threading, threading.excepthook)
    orchestrate.threading = shims._Namespace(threading, {'Thread': Thread})  # pylint: disable=protected-access
    prev_hook = threading.excepthook

    def hook(args):
      if any(t is args.thread for _, _, t in watch.created):
        watch.lost.append((args.thread, args.exc_value))
        return
      prev_hook(args)

    threading.excepthook = hook
    return self

  def __exit__(self, *a):
    from ml_metrics._src.chainables import orchestrate
    orchestrate.threading, threading.excepthook = self._saved

  def merge_thread_of(self, creator):
    # the latest thread `creator` started through orchestrate (the merge thread is the
    # only one sharded_pipelines_as_iterator starts there, whatever its target is called)
    for c, _, t in reversed(self.created):
      if c is creator:
        return t
    return None

  def lost_in(self, thread):
    return [e for t, e in self.lost if t is thread]


# ---------------------------------------------------------------------------
# one sharded run, observed up to its final state
# ---------------------------------------------------------------------------


def sharded_run(pool, define, spec, K, watch, agg_wait_s=40.0, **run_kwargs):
  """Runs sharded_pipelines_as_iterator in the calling thread.

  Returns a dict: outs, error (exception of the iterator or None), aggs (everything
  the result queue delivered), and the state the run was left in: merge thread
  alive / exception that ended it.  The aggregate is awaited until it arrives or
  the merge thread has ended (state), `agg_wait_s` only bounds the observation.
  """
  from ml_metrics._src.chainables import orchestrate
  rq = queue.SimpleQueue()
  out = {'outs': [], 'error': None, 'aggs': [], 'merge_thread': None,
         'merge_thread_alive': None, 'merge_thread_error': None, 'gave_up_waiting': False}
  try:
    for b in orchestrate.sharded_pipelines_as_iterator(
        pool, define, spec, num_shards=K, result_queue=rq, **run_kwargs):
      out['outs'].append(b)
  except Exception as e:  # pylint: disable=broad-exception-caught
    out['error'] = e
  t = watch.merge_thread_of(threading.current_thread())
  out['merge_thread'] = t is not None
  deadline = time.monotonic() + agg_wait_s
  while True:
    alive = t.is_alive() if t is not None else False
    try:
      out['aggs'].append(rq.get_nowait())
      break
    except queue.Empty:
      pass
    if not alive:
      break                      # ended without (another look at the queue below)
    if time.monotonic() > deadline:
      out['gave_up_waiting'] = True
      break
    time.sleep(0.002)
  if t is not None and not out['gave_up_waiting']:
    t.join(5)
  time.sleep(0.02)
  while True:
    try:
      out['aggs'].append(rq.get_nowait())
    except queue.Empty:
      break
  if t is not None:
    out['merge_thread_alive'] = t.is_alive()
    lost = watch.lost_in(t)
    out['merge_thread_error'] = lost[0] if lost else None
  return out
