"""C19, fourth widening (audit round 4, area trees / re-batching).

One case family, literal case dicts (exact replay):

`litsel` - select(inputs, output_keys, batch_size=b) whose inputs mix 1-2 flat data
columns with 1-2 Key.Literal constants (scalar / list / tuple / array, any length) at
any position. A SELECTED literal is a constant by construction (the Select copies its
inputs to its outputs), so with batch_size the data columns are re-batched as usual and
every emitted batch carries the constant, exactly as without batch_size (b = 0 is the
control class). A refusal when the transform is BUILT (select() / make() raise) is
accepted; an error during iteration is not a refusal of the input.

apply(fn, ...) with a function that returns a literal input unchanged is NOT generated:
what a function returns is data (see the `literal` family of C19.py for fn_batch_size).

Oracles are plain Python over unique cell ids (value = M * column + global row).
"""

from __future__ import annotations

import random
import re

MECH_LITSEL = 'literal-in-output-rebatcher-rebatched-as-column'

RULE = (
    ' Fourth widening: (litsel) select(inputs, names, batch_size=b) with inputs = 1-2 '
    'flat columns and 1-2 Key.Literal constants (scalar, list, tuple, array; length 0-5) '
    'at any position, explicit output names, over all size sequences of length <= 3 over '
    'sizes 0..3 x 7 literals x b in {0, 1, 2, 3, 4} plus random longer streams of which '
    '35% have every input batch as long as the literal (the class in which a re-sliced '
    'constant does not even raise); b = 0 is the control. Mechanism key: by input class '
    '(a Select with batch_size > 0 and a literal input) AND symptom family (the data '
    'columns are right and a literal column is a cyclic re-slice of the constant / the '
    'iteration raises the re-batcher\'s "Non sequence type" or "Hetroegeneous columns" '
    'error); every other failure gets a key of its own (literal-select-*).')

ASSUMPTIONS = [
    'litsel: only Select (no function) is judged - a selected Key.Literal is a constant '
    'by construction; at least one input is a data column (a Select of literals only has '
    'no rows to re-batch and is not generated); output_keys are explicit flat names, one '
    'per input; no masks, no ignore_error, no fn_batch_size (Select has none); the '
    'emitted constant is compared by container type and elements, not by identity; a '
    'transform that refuses the combination when it is built (select() or make() '
    'raises) is accepted, an exception raised while iterating is a violation',
]

REQUIRED = [
    'w4_litsel_checks', 'w4_litsel_batch_size_checks', 'w4_litsel_control_checks',
    'w4_litsel_scalar_checks', 'w4_litsel_sequence_checks',
    'w4_litsel_batch_length_checks', 'w4_litsel_constant_checks',
]


def _base():
  from vlib.props import C19   # pylint: disable=g-import-not-at-top
  return C19


def check_litsel(ctx, cnt, case):
  """select((cols..., Key.Literal(v)...), names, batch_size=b).

  case: sizes, cols (data columns), kind, lits [{'type', 'len'}...], pos [position of
  each literal among the inputs, ascending insertion], b.
  """
  B = _base()
  from ml_metrics._src.chainables import transform
  from ml_metrics._src.chainables import tree as tl
  sizes, cols, kind = list(case['sizes']), case['cols'], case['kind']
  lits, poss, b = case['lits'], case['pos'], case['b']
  n = sum(sizes)
  values = [B._mk_literal(l) for l in lits]
  batch_len = any(l['type'] != 'scalar' and sizes and all(s == l['len'] for s in sizes)
                  for l in lits)
  ctx.case(('litsel', tuple(sizes), cols, kind,
            tuple((l['type'], l.get('len')) for l in lits), tuple(poss), b),
           len(sizes) >= 2 and bool(b))
  cnt.add('w4_litsel_checks')
  if b:
    cnt.add('w4_litsel_batch_size_checks')
    if any(l['type'] == 'scalar' for l in lits):
      cnt.add('w4_litsel_scalar_checks')
    if any(l['type'] != 'scalar' for l in lits):
      cnt.add('w4_litsel_sequence_checks')
    if batch_len:
      cnt.add('w4_litsel_batch_length_checks')
  else:
    cnt.add('w4_litsel_control_checks')
  in_class = bool(b)
  cls = 'batch-size' if b else 'no-batch-size'
  batches = B._mk_batches(sizes, cols, kind)
  in_keys = [f'k{c}' for c in range(cols)]
  stream = [dict(zip(in_keys, bt), zz=list(range(len(bt[0])))) for bt in batches]
  # Inputs / output names: data column c -> 'o<c>', literal j -> 'c<j>'.
  inputs = list(in_keys)
  names = [f'o{c}' for c in range(cols)]
  for j, (v, p) in enumerate(zip(values, poss)):
    inputs.insert(p, tl.Key.Literal(v))
    names.insert(p, f'c{j}')
  data_names = [f'o{c}' for c in range(cols)]
  lit_names = [f'c{j}' for j in range(len(values))]

  def report(symptom, detail, audited):
    mech = MECH_LITSEL if (in_class and audited) else f'literal-select-{cls}:{symptom}'
    # Counted per mechanism like B._violation; witnesses are kept per mechanism AND
    # symptom, so that the silent re-slice is not crowded out by the raising cases.
    ctx.count('viol:' + mech)
    seen = ctx.counters.get(f'w4_litsel_symptom:{symptom}', 0)
    ctx.count(f'w4_litsel_symptom:{symptom}')
    if seen < 2:
      ctx.violation('literal_select', case,
                    dict(detail, symptom=symptom,
                         literals=[B._lit_desc(v) for v in values]), mechanism=mech)

  try:
    runner = transform.TreeTransform().select(tuple(inputs), tuple(names),
                                              batch_size=b).make()
  except Exception as e:  # pylint: disable=broad-exception-caught
    if b:
      # A clear refusal of the combination when built.
      cnt.add('w4_litsel_refused_when_built')
      ctx.observe('litsel_refused_when_built', f'{type(e).__name__}: {e}'[:160])
      return
    report(f'build_raised_{type(e).__name__}', {'error': B._error_chain(e)[:3]}, False)
    return
  try:
    out = list(runner.iterate(iter(stream)))
  except Exception as e:  # pylint: disable=broad-exception-caught
    # The OUTPUT re-batcher measured / concatenated a constant as if it were a
    # column: it cannot take the length of a scalar, or finds columns of unequal
    # length among which the data columns agree.
    msg = ' | '.join(str(x) for x in B._error_chain(e))
    audited = False
    if 'Non sequence type' in msg:
      audited = any(l['type'] == 'scalar' for l in lits)
    elif 'Hetroegeneous columns' in msg:
      found = re.search(r'batch_sizes=array\(\[([^\]]*)\]\)', msg)
      nums = [int(x) for x in re.findall(r'-?\d+', found.group(1))] if found else []
      lit_slots = set()
      for j, p in enumerate(poss):
        # final position of literal j after the later insertions
        lit_slots.add(names.index(f'c{j}'))
      others = [x for i, x in enumerate(nums) if i not in lit_slots]
      audited = (len(nums) == len(names) and len(set(others)) == 1
                 and any(nums[i] != others[0] for i in lit_slots))
    report('rebatcher_rejects_literal' if audited else f'raised_{type(e).__name__}',
           {'error': B._error_chain(e)[:3]}, audited)
    return
  sizes_out = B._chunks(n, b) if b else sizes
  try:
    for o in out:
      if not isinstance(o, dict) or sorted(o.keys()) != sorted(names):
        report('output_keys', {'got': repr(o)[:200]}, False)
        return
    got = [[B._tolist(o[k]) for k in data_names] for o in out]
  except Exception as e:  # pylint: disable=broad-exception-caught
    report('bad_output_container', {'error': repr(e)[:200]}, False)
    return
  cnt.add('alignment_checks')
  cnt.add('size_checks')
  data_ok = got == B._expected(sizes_out, cols, kind, None, b)
  cnt.add('w4_litsel_constant_checks')
  wrong = [(k, o[k]) for o in out for k, v in zip(lit_names, values)
           if B._lit_desc(o[k]) != B._lit_desc(v)]
  if wrong:
    by_name = dict(zip(lit_names, values))
    resliced = all(B._is_resliced(w, by_name[k]) for k, w in wrong)
    report('literal_resliced_per_batch' if (resliced and data_ok)
           else 'literal_not_constant',
           {'emitted': [[k, B._lit_desc(w)] for k, w in wrong[:4]],
            'batches': len(out), 'data_columns_ok': data_ok}, resliced and data_ok)
    return
  if not data_ok:
    if b:
      symptom, detail = B._diagnose(got, sizes_out, cols, kind, None, b)
    else:
      symptom, detail = 'passthrough_differs', {
          'got_sizes': [[len(c) for c in bb] for bb in got][:20], 'want': sizes_out}
    report(symptom, detail, False)


_LITERALS = ({'type': 'scalar'}, {'type': 'list', 'len': 2}, {'type': 'list', 'len': 3},
             {'type': 'tuple', 'len': 2}, {'type': 'array', 'len': 2},
             {'type': 'array', 'len': 1}, {'type': 'list', 'len': 0})
_BS = (0, 1, 2, 3, 4)


def _positions(rng_or_n, cols, nlits):
  """Insertion positions (each literal is inserted into the list built so far)."""
  out = []
  for j in range(nlits):
    width = cols + j + 1
    out.append(rng_or_n.randrange(width) if hasattr(rng_or_n, 'randrange')
               else (rng_or_n // (j + 1)) % width)
  return out


def _run_litsel_sweep(ctx, cnt, spec):
  B = _base()
  n = 0
  for sizes in B._seqs(spec['prefix'], spec['smax'], spec['maxlen']):
    for lit in _LITERALS:
      for b in _BS:
        n += 1
        cols = 1 + n % 2
        lits = [lit]
        if n % 7 == 0:
          lits = [lit, _LITERALS[(n // 7) % len(_LITERALS)]]
        check_litsel(ctx, cnt, {
            'api': 'litsel', 'sizes': sizes, 'cols': cols, 'kind': B.KINDS[n % 3],
            'lits': lits, 'pos': _positions(n // 2, cols, len(lits)), 'b': b})


def _run_litsel_random(ctx, cnt, spec):
  rng = random.Random(spec['rseed'] * 32452867 + spec['index'] * 982451653 + 41)
  for _ in range(spec['count']):
    r = rng.random()
    ltype = rng.choice(['scalar', 'list', 'list', 'tuple', 'array'])
    if r < 0.35 and ltype != 'scalar':
      # every input batch is exactly as long as the literal
      ln = rng.randint(1, 4)
      sizes = [ln] * rng.randint(1, 8)
    else:
      ln = rng.randint(0, 5)
      sizes = [rng.randint(0, 6) for _ in range(rng.randint(0, 10))]
    lits = [{'type': ltype} if ltype == 'scalar' else {'type': ltype, 'len': ln}]
    if rng.random() < 0.2:
      t2 = rng.choice(['scalar', 'list', 'tuple', 'array'])
      lits.append({'type': t2} if t2 == 'scalar'
                  else {'type': t2, 'len': rng.choice([ln, rng.randint(0, 5)])})
    cols = rng.randint(1, 2)
    check_litsel(ctx, cnt, {
        'api': 'litsel', 'sizes': sizes, 'cols': cols,
        'kind': rng.choice(['list', 'tuple', 'array', 'mixed']), 'lits': lits,
        'pos': _positions(rng, cols, len(lits)),
        'b': rng.choice([0, 1, 2, 3, 4, 7, 16])})


# ---------------------------------------------------------------------------
# plan / dispatch (called from vlib/props/C19.py)
# ---------------------------------------------------------------------------


def plan(tier, seed):
  thorough = tier == 'thorough'
  smax, maxlen = (4, 4) if thorough else (3, 3)
  specs = [{'mode': 'w4_litsel', 'prefix': None, 'smax': smax, 'maxlen': maxlen}]
  for p in range(smax + 1):
    specs.append({'mode': 'w4_litsel', 'prefix': [p], 'smax': smax, 'maxlen': maxlen})
  for i in range(8 if thorough else 1):
    specs.append({'mode': 'w4_litsel_random', 'rseed': seed, 'index': i,
                  'count': 4000 if thorough else 500})
  return specs


def run_chunk(ctx, cnt, spec):
  mode = spec['mode']
  if mode == 'w4_litsel':
    _run_litsel_sweep(ctx, cnt, spec)
  elif mode == 'w4_litsel_random':
    _run_litsel_random(ctx, cnt, spec)
  else:
    raise ValueError(mode)


def run_case(ctx, cnt, case):
  if case['api'] == 'litsel':
    check_litsel(ctx, cnt, case)
  else:
    raise ValueError(case['api'])
