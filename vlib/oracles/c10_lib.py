"""C10 helpers: source builders, independent stream model, exact aggregators.

Nothing in here imports helpers of the repository to compute an expected value:
the stream model is plain list slicing, the aggregate model is integer arithmetic.
The repository is only imported to *build* the objects under test.
"""

from __future__ import annotations

import copy
import pickle
import threading
import time

BASE = 100  # element value = BASE + global index (unique ints)

SEQ_CONTAINERS = ('list', 'tuple', 'range', 'array', 'ra', 'ranoslice')
ITER_CONTAINERS = ('list', 'range', 'dictkeys', 'reiter')


# ---------------------------------------------------------------------------
# Containers
# ---------------------------------------------------------------------------


class RA:
  """User random-access sequence with slice support (not a list subclass)."""

  def __init__(self, data):
    self._d = list(data)

  def __len__(self):
    return len(self._d)

  def __getitem__(self, i):
    return self._d[i]


class RANoSlice(RA):
  """Random access without slice support: forces the read-ahead fallback."""

  def __getitem__(self, i):
    if isinstance(i, slice):
      raise TypeError('no slicing')
    return self._d[i]


class FailSeq:
  """Random-access sequence raising ValueError at chosen local indices."""

  def __init__(self, data, fail, sliceable=True):
    self._d = list(data)
    self._fail = frozenset(fail)
    self._sliceable = sliceable

  def __len__(self):
    return len(self._d)

  def __getitem__(self, i):
    if isinstance(i, slice):
      if not self._sliceable:
        raise TypeError('no slicing')
      return [self[j] for j in range(*i.indices(len(self._d)))]
    if i < 0:
      i += len(self._d)
    if i in self._fail:
      raise ValueError(f'FailSeq: bad index {i}')
    return self._d[i]


class ReIter:
  """Re-iterable that is neither a sequence nor an iterator."""

  def __init__(self, data):
    self._d = list(data)

  def __iter__(self):
    for x in self._d:
      yield x


def _seq_container(kind, values, fail_local):
  if fail_local or kind in ('fail', 'failnoslice'):
    return FailSeq(values, fail_local, sliceable=(kind != 'failnoslice'))
  if kind == 'list':
    return list(values)
  if kind == 'tuple':
    return tuple(values)
  if kind == 'range':
    return range(values[0], values[-1] + 1) if values else range(0)
  if kind == 'array':
    import numpy as np
    return np.asarray(list(values), dtype=np.int64)
  if kind == 'ra':
    return RA(values)
  if kind == 'ranoslice':
    return RANoSlice(values)
  raise ValueError(kind)


def _iter_container(kind, values):
  if kind == 'list':
    return list(values)
  if kind == 'range':
    return range(values[0], values[-1] + 1) if values else range(0)
  if kind == 'dictkeys':
    return {v: None for v in values}
  if kind == 'reiter':
    return ReIter(values)
  raise ValueError(kind)


# ---------------------------------------------------------------------------
# Source configs:  {'kind': 'seq'|'seqs'|'iter', 'n', 'cont', 'split', 'path',
#                   'fail': [global indices], 'ignore_error': bool}
# ---------------------------------------------------------------------------


def build_source(cfg):
  """Returns (root data source, data source after applying the shard path)."""
  from ml_metrics._src.chainables import io
  n = cfg['n']
  base = cfg.get('base', BASE)
  values = [base + g for g in range(n)]
  fail = sorted(cfg.get('fail') or ())
  ie = bool(cfg.get('ignore_error') or fail)
  kind = cfg['kind']
  cont = cfg.get('cont', 'list')
  if kind == 'seq':
    root = io.SequenceDataSource(_seq_container(cont, values, fail),
                                 ignore_error=ie)
  elif kind == 'seqs':
    parts, pos = [], 0
    for sz in cfg['split']:
      local_fail = [g - pos for g in fail if pos <= g < pos + sz]
      parts.append(_seq_container(cont, values[pos:pos + sz], local_fail))
      pos += sz
    assert pos == n, (pos, n)
    root = io.SequenceDataSource.from_sequences(parts, ignore_error=ie)
  elif kind == 'iter':
    assert not fail
    root = io.ShardedIterable(_iter_container(cont, values))
  else:
    raise ValueError(kind)
  cur = root
  for step in cfg.get('path') or ():
    # [i, k] or [i, k, offset]: the offset is a resumed position inside that level
    # (what from_state passes); [0, 1, K] is an unsharded source restored after K
    # elements, sharded further afterwards
    cur = cur.shard(*step)
  return root, cur


def _contiguous(idxs, i, k, off=0):
  n = len(idxs)
  q, r = divmod(n, k)
  sizes = [q + 1 if j < r else q for j in range(k)]
  start = sum(sizes[:i])
  return idxs[start:start + sizes[i]][off:]


def model_positions(cfg, make_shard=None):
  """Global indices the configured source walks over (failing ones included)."""
  idxs = list(range(cfg['n']))
  path = [tuple(p) for p in (cfg.get('path') or ())]
  if make_shard is not None:
    path = path + [tuple(make_shard)]
  if cfg['kind'] == 'iter':
    assert len(path) <= 1
    for (i, k) in path:
      idxs = idxs[i::k]
    return idxs
  for step in path:
    idxs = _contiguous(idxs, *step)
  return idxs


def model_stream(cfg, make_shard=None):
  """Independent model of `list(data source)`: values actually delivered."""
  fail = set(cfg.get('fail') or ())
  base = cfg.get('base', BASE)
  return [base + g for g in model_positions(cfg, make_shard) if g not in fail]


def source_class(cfg):
  depth = len(cfg.get('path') or ())
  name = cfg['kind']
  if depth >= 2:
    name += '-nested-shard'
  elif depth == 1:
    name += '-shard'
  return name


def cfg_desc(cfg):
  return (cfg['kind'], cfg['n'], cfg.get('base', BASE), cfg.get('cont', 'list'),
          tuple(cfg.get('split') or ()),
          tuple(tuple(p) for p in (cfg.get('path') or ())),
          tuple(cfg.get('fail') or ()))


def norm(xs):
  """Normalises delivered elements (ints, or batch records of a sliced shape)."""
  return [norm_out(x) for x in xs]


def transport(state, how):
  """Passes a captured state through the chosen transport."""
  if how == 'deepcopy':
    return copy.deepcopy(state)
  if how == 'pickle':
    return pickle.loads(pickle.dumps(state))
  return state


# ---------------------------------------------------------------------------
# Exact aggregators (Aggregatable protocol): result [sum, count, xor-hash]
# ---------------------------------------------------------------------------


def _h(v):
  return (int(v) * 2654435761) & 0xFFFFFFFF


class ExactAggInplace:
  """Mutates a container nested inside its state in place (like the library's
  MergeableMetric adapters around a Counter / ndarray / reservoir)."""

  def create_state(self):
    return {'acc': [0, 0, 0]}

  def update_state(self, state, x):
    acc = state['acc']
    acc[0] += int(x)
    acc[1] += 1
    acc[2] ^= _h(x)
    return state

  def merge_states(self, states):
    out = [0, 0, 0]
    for st in states:
      out[0] += st['acc'][0]
      out[1] += st['acc'][1]
      out[2] ^= st['acc'][2]
    return {'acc': out}

  def get_result(self, state):
    return list(state['acc'])


class ExactAggFunctional(ExactAggInplace):
  """Returns a fresh state object on every update."""

  def update_state(self, state, x):
    a = state['acc']
    return {'acc': [a[0] + int(x), a[1] + 1, a[2] ^ _h(x)]}


def agg_of(values):
  s = c = x = 0
  for v in values:
    s += int(v)
    c += 1
    x ^= _h(v)
  return [s, c, x]


# ---------------------------------------------------------------------------
# Pipelines
# ---------------------------------------------------------------------------


def f1(x):
  return 3 * x + 1


def f2(x):
  return x * x + 7


def f3(x):
  return 2 * x + 5


def to_batch(v):
  """Source value -> one record = a batch of 1..3 rows with feature columns.

  f is constant inside a batch and changes every two records, so slice values
  first appear at different points of the stream; g alternates inside a batch.
  """
  v = int(v)
  rows = 1 + v % 3
  return {'x': [7 * v + j for j in range(rows)],
          'f': [(v // 2) % 3] * rows,
          'g': [j % 2 for j in range(rows)]}


def relabel(r):
  return {'x': [2 * x + 1 for x in r['x']], 'f': list(r['f']),
          'g': list(r['g'])}


def to_batch_nested(v):
  """to_batch with the columns one level down: {'x': {'v': .., 'f': .., 'g': ..}}."""
  r = to_batch(v)
  return {'x': {'v': r['x'], 'f': r['f'], 'g': r['g']}}


def relabel_nested(r):
  r = relabel({'x': r['x']['v'], 'f': r['x']['f'], 'g': r['x']['g']})
  return {'x': {'v': r['x'], 'f': r['f'], 'g': r['g']}}


class KeyPath(tuple):
  """A key path of the model; built as tree.Key.new(*parts) or Key().at(..).at(..)."""

  def name(self):
    return '.'.join(str(p) for p in self)


def key_name(key):
  return key.name() if isinstance(key, KeyPath) else key


def lib_key(key, use_at=False):
  """The library key for a model key (str stays str, KeyPath -> tree.Key)."""
  if not isinstance(key, KeyPath):
    return key
  from ml_metrics._src.chainables import tree
  if use_at:
    k = tree.Key()
    for part in key:
      k = k.at(part)
    return k
  return tree.Key.new(*key)


class BatchAggInplace:
  """Exact aggregator over a column (batch of rows); mutates its state."""

  def create_state(self):
    return {'acc': [0, 0, 0]}

  def update_state(self, state, xs):
    acc = state['acc']
    for x in xs:
      acc[0] += int(x)
      acc[1] += 1
      acc[2] ^= _h(x)
    return state

  def merge_states(self, states):
    out = [0, 0, 0]
    for st in states:
      out[0] += st['acc'][0]
      out[1] += st['acc'][1]
      out[2] ^= st['acc'][2]
    return {'acc': out}

  def get_result(self, state):
    return list(state['acc'])


class BatchAggFunctional(BatchAggInplace):

  def update_state(self, state, xs):
    out = {'acc': list(state['acc'])}
    return BatchAggInplace.update_state(self, out, xs)


# shape -> list of (stage name, fn, aggregate output key or None, sliced?)
SHAPES = {
    'single': [('', f1, 'agg', False)],
    'named': [('a', f1, 'agg', False)],
    'noagg': [('', f1, None, False)],
    'chain_last': [('a', f1, None, False), ('b', f2, 'agg', False)],
    'chain_first': [('a', f1, 'agg', False), ('b', f2, None, False)],
    'chain_both': [('a', f1, 'agga', False), ('b', f2, 'aggb', False)],
    'chain3': [('a', f1, None, False), ('b', f2, 'aggb', False),
               ('c', f3, 'aggc', False)],
    # records are batches (dict of columns); aggregate over column x with the
    # slicers add_slice('f') and add_slice(('f', 'g'))
    'sliced': [('', to_batch, 'agg', True)],
    'sliced_chain': [('a', to_batch, None, False), ('b', relabel, 'agg', True)],
    'sliced_both': [('a', to_batch, 'agga', True), ('b', relabel, 'aggb', True)],
}
SLICED_SHAPES = ('sliced', 'sliced_chain', 'sliced_both')
SLICERS = (('f',), ('f', 'g'))

# Shapes whose aggregate output key and / or slicer features are Key PATHS
# (tree.Key.new('out', 'agg'), Key().at('x').at('g')). `sliced` == 'keypath': the
# records are nested batches {'x': {'v', 'f', 'g'}}, the aggregate reads
# Key.new('x', 'v') and the slicers are KP_SLICERS.
_KP_OUT = KeyPath(('out', 'agg'))
SHAPES.update({
    'keyed': [('', f1, _KP_OUT, False)],
    'keyed_chain': [('a', f1, None, False), ('b', f2, KeyPath(('o', 'agg')), False)],
    'keyed_slicers': [('', to_batch_nested, 'agg', 'keypath')],
    'keyed_sliced': [('', to_batch_nested, _KP_OUT, 'keypath')],
    'keyed_sliced_chain': [('a', to_batch_nested, None, False),
                           ('b', relabel_nested, _KP_OUT, 'keypath')],
})
KEYPATH_SHAPES = ('keyed', 'keyed_chain', 'keyed_slicers', 'keyed_sliced',
                  'keyed_sliced_chain')
KEYPATH_SLICED_SHAPES = ('keyed_slicers', 'keyed_sliced', 'keyed_sliced_chain')
KP_SLICERS = ((KeyPath(('x', 'f')),), (KeyPath(('x', 'f')), KeyPath(('x', 'g'))))


class Sleepy:
  """Wraps a stage fn with seeded sleeps (real threads, part C)."""

  def __init__(self, fn, delays):
    self._fn = fn
    self._delays = delays

  def __call__(self, x):
    d = self._delays[int(x) % len(self._delays)]
    if d:
      time.sleep(d)
    return self._fn(x)


def build_pipeline(shape, ds, aggmode='inplace', threads=0, delays=None):
  from ml_metrics._src.chainables import transform
  T = transform.TreeTransform
  p = None
  for si, (name, fn, key, sliced) in enumerate(SHAPES[shape]):
    if si == 0:
      if delays:
        fn = Sleepy(fn, delays)
      t = T.new(name=name, num_threads=threads).data_source(ds).apply(fn)
    else:
      t = T.new(name=name).apply(fn)
    if key is not None and not sliced:
      cls = ExactAggInplace if aggmode == 'inplace' else ExactAggFunctional
      t = t.aggregate(fn=cls(), output_keys=lib_key(key))
    elif key is not None and sliced == 'keypath':
      cls = BatchAggInplace if aggmode == 'inplace' else BatchAggFunctional
      t = t.aggregate(fn=cls(), input_keys=lib_key(KeyPath(('x', 'v'))),
                      output_keys=lib_key(key))
      for feats in KP_SLICERS:
        # Both construction forms: Key.new('x', 'f') and Key().at('x').at('g').
        ks = tuple(lib_key(f, use_at=(j == 1)) for j, f in enumerate(feats))
        t = t.add_slice(ks[0] if len(ks) == 1 else ks)
    elif key is not None:
      cls = BatchAggInplace if aggmode == 'inplace' else BatchAggFunctional
      t = t.aggregate(fn=cls(), input_keys='x', output_keys=key)
      for feats in SLICERS:
        t = t.add_slice(feats[0] if len(feats) == 1 else feats)
    p = t if p is None else p.chain(t)
  return p


def slice_key(key, feats, vals):
  return '%s|%s|%s' % (key, ','.join(feats), ','.join(str(v) for v in vals))


def _sliced_aggs(key, records, nested=False):
  groups = {key: []}
  for r in records:
    if nested:
      r = {'x': r['x']['v'], 'f': r['x']['f'], 'g': r['x']['g']}
    for j, x in enumerate(r['x']):
      groups[key].append(x)
      for feats in SLICERS:
        vals = tuple(r[f][j] for f in feats)
        names = tuple('x.' + f for f in feats) if nested else feats
        groups.setdefault(slice_key(key, names, vals), []).append(x)
  return {k: agg_of(v) for k, v in groups.items()}


def norm_out(o):
  if isinstance(o, dict) and isinstance(o.get('x'), dict):
    o = {'x': o['x']['v'], 'f': o['x']['f'], 'g': o['x']['g']}
  if isinstance(o, dict):
    return ('rec', tuple(int(x) for x in o['x']), tuple(int(x) for x in o['f']),
            tuple(int(x) for x in o['g']))
  return int(o)


def norm_outs(outs):
  return [norm_out(o) for o in outs]


def model_pipeline(shape, xs):
  """(normalised outputs, {normalised agg key: [sum, count, xor]} or None)."""
  cur = list(xs)
  aggs = {}
  for (_, fn, key, sliced) in SHAPES[shape]:
    cur = [fn(x) for x in cur]
    if key is not None and sliced:
      aggs.update(_sliced_aggs(key_name(key), cur, nested=(sliced == 'keypath')))
    elif key is not None:
      aggs[key_name(key)] = agg_of(cur)
  return norm_outs(cur), (aggs or None)


def upstream_agg_keys(shape):
  stages = SHAPES[shape]
  return [key_name(key) for (_, _, key, _s) in stages[:-1] if key is not None]


def base_key(k):
  return k.split('|', 1)[0]


_INVERSE = {}


def source_value_of_output(shape):
  """Inverse of the stage composition on the value domain used here."""
  if shape not in _INVERSE:
    def fwd(x):
      for (_, fn, _k, _s) in SHAPES[shape]:
        x = fn(x)
      return norm_out(x)

    _INVERSE[shape] = {fwd(BASE + g): BASE + g for g in range(0, 400)}
  return _INVERSE[shape]


def _name(x):
  """str -> itself, a key path (tree.Key) -> 'a.b', a tuple of those -> 'p,q'."""
  if isinstance(x, str):
    return x
  if type(x).__name__ == 'Key':
    return '.'.join(str(p) for p in x)
  return ','.join(_name(e) for e in x)


def norm_key(k):
  if isinstance(k, str):
    return k
  if type(k).__name__ == 'Key':
    return _name(k)
  sl = k.slice
  metrics = _name(k.metrics)
  if not sl.features:
    return metrics
  return slice_key(metrics, tuple(_name(f) for f in sl.features), tuple(sl.values))


def _flat_results(prefix, vals):
  """A result stored under a key PATH is a nested dict: {'out': {'agg': [..]}}."""
  if isinstance(vals, dict):
    for k, v in vals.items():
      yield from _flat_results(f'{prefix}.{k}', v)
  else:
    yield prefix, vals


def norm_agg(res):
  if res is None:
    return None
  out = {}
  for k, vals in dict(res).items():
    for name, v in _flat_results(norm_key(k), vals):
      out[name] = [int(x) for x in v]
  return out


def drain(it):
  """Consumes an iterator by next(); returns (elements, StopIteration.value)."""
  out = []
  while True:
    try:
      out.append(next(it))
    except StopIteration as e:
      return out, e.value


def take(it, c):
  return [next(it) for _ in range(c)]


# ---------------------------------------------------------------------------
# State model (classification only): what a list of ShardConfig implies
# ---------------------------------------------------------------------------


def _chain_of(shard_cfg):
  chain = []
  node = shard_cfg
  while node is not None:
    chain.append((node.shard_index, node.num_shards, node.start_index))
    node = node.parent
  return chain[::-1]


def implied_remaining(cfg, input_states):
  """Source values a faithful restore of `input_states` would deliver."""
  fail = set(cfg.get('fail') or ())
  base = cfg.get('base', BASE)
  out = []
  for sc in input_states:
    if cfg['kind'] == 'iter':
      i, k, start = sc.shard_index, sc.num_shards, sc.start_index
      idxs = [g for g in range(cfg['n']) if g >= start and g % k == i]
    else:
      idxs = list(range(cfg['n']))
      for (i, k, off) in _chain_of(sc):
        idxs = _contiguous(idxs, i, k, off)
    out.extend(base + g for g in idxs if g not in fail)
  return out


DEFAULT_LEVEL = (0, 1, 0)


def state_shape(state, strip_default_root_levels=False):
  """Plain structure of a captured state (a ShardConfig, an _IteratorState, the
  dict / list of those that a chained / multiplexed iterator returns).

  With strip_default_root_levels the ShardConfig(0, 1, 0) levels at the ROOT end of
  every recorded parent chain are dropped (all but the last level): two states that
  only differ in how many of those levels they carry get the same shape.
  """
  if type(state).__name__ == 'ShardConfig':
    chain = _chain_of(state)
    if strip_default_root_levels:
      while len(chain) > 1 and chain[0] == DEFAULT_LEVEL:
        chain = chain[1:]
    return ('pos', tuple(chain))
  if hasattr(state, 'input_states'):
    agg = state.agg_state
    agg = None if agg is None else sorted((repr(k), repr(v)) for k, v in dict(agg).items())
    return ('it', [state_shape(s, strip_default_root_levels) for s in state.input_states], agg)
  if isinstance(state, dict):
    return ('dict', [(str(k), state_shape(v, strip_default_root_levels))
                     for k, v in state.items()])
  if isinstance(state, (list, tuple)):
    return ('list', [state_shape(v, strip_default_root_levels) for v in state])
  return ('other', repr(state))


def strip_shape(shape):
  """state_shape(state, True) computed from state_shape(state)."""
  tag = shape[0]
  if tag == 'pos':
    chain = shape[1]
    while len(chain) > 1 and chain[0] == DEFAULT_LEVEL:
      chain = chain[1:]
    return ('pos', chain)
  if tag == 'it':
    return ('it', [strip_shape(x) for x in shape[1]], shape[2])
  if tag == 'dict':
    return ('dict', [(k, strip_shape(v)) for k, v in shape[1]])
  if tag == 'list':
    return ('list', [strip_shape(v) for v in shape[1]])
  return shape


def state_depth(state):
  """Longest recorded parent chain among the source positions of a state."""
  shape = state_shape(state)
  best = 0

  def walk(node):
    nonlocal best
    if isinstance(node, tuple) and node and node[0] == 'pos':
      best = max(best, len(node[1]))
    elif isinstance(node, (tuple, list)):
      for x in node:
        walk(x)

  walk(shape)
  return best


def first_stage_input_states(state):
  """Source positions that the restore of the LAST stage will really use.

  A chained state is {stage name: _IteratorState}; the last stage's state nests
  the states of its upstream stages (captured a little later than the top-level
  entries of the upstream stages when worker threads are running).
  """
  if isinstance(state, dict):
    state = state[list(state)[-1]]
  while True:
    ins = list(state.input_states)
    if ins and hasattr(ins[0], 'input_states'):
      state = ins[0]
    else:
      return ins


# ---------------------------------------------------------------------------
# Watchdog
# ---------------------------------------------------------------------------


def run_with_watchdog(fn, timeout_s):
  """Runs fn() in a daemon thread; returns (finished, result, exception)."""
  box = {}

  def target():
    try:
      box['result'] = fn()
    except BaseException as e:  # pylint: disable=broad-exception-caught
      box['exc'] = e

  t = threading.Thread(target=target, daemon=True, name='verif-c10-case')
  t.start()
  t.join(timeout_s)
  return (not t.is_alive()), box.get('result'), box.get('exc')
