"""C07 oracles: rolling statistics, histograms, calibration, text frequencies,
math helpers and signals. Plain loops, exact Fractions (floats are exact
binary rationals), 60-digit Decimal for sqrt / ln. No repository helpers.
"""

from __future__ import annotations

import math

from vlib.oracles import c07_common as cm

Fraction = cm.Fraction
NAN = float('nan')


def _isnan(v):
  return isinstance(v, float) and math.isnan(v)


# ---------------------------------------------------------------------------
# NaN-skipping count / mean / variance / total
# ---------------------------------------------------------------------------


def column_stats(values):
  """Stats of one column, NaNs skipped. All-NaN/empty: count 0, mean/var NaN, total 0."""
  vals = [v for v in values if not _isnan(v)]
  if any(isinstance(v, float) and math.isinf(v) for v in vals):
    # Extended reals: +inf / -inf are values (they are counted). The sum is +inf
    # (-inf) when only that sign occurs and undefined (NaN) when both occur; the
    # mean follows the sum; a deviation from an infinite / undefined mean is
    # undefined, so variance and stddev are NaN.
    pos = any(v == math.inf for v in vals)
    neg = any(v == -math.inf for v in vals)
    tot = NAN if (pos and neg) else (math.inf if pos else -math.inf)
    return {'count': len(vals), 'mean': tot, 'var': NAN, 'stddev': NAN, 'total': tot}
  xs = [cm.frac(v) for v in vals]
  n = len(xs)
  if n == 0:
    return {'count': 0, 'mean': NAN, 'var': NAN, 'stddev': NAN,
            'total': Fraction(0)}
  total = sum(xs, Fraction(0))
  mean = total / n
  var = sum(((x - mean) ** 2 for x in xs), Fraction(0)) / n  # population var
  return {'count': n, 'mean': mean, 'var': var, 'stddev': cm.dsqrt(var),
          'total': total}


def nan_stats(rows):
  """rows: flat list (1 column) or list of equal-length rows (column-wise)."""
  rows = list(rows)
  if rows and isinstance(rows[0], (list, tuple)):
    ncol = len(rows[0])
    cols = [column_stats([r[j] for r in rows]) for j in range(ncol)]
    return {k: [c[k] for c in cols] for k in cols[0]} if cols else {}
  return column_stats(rows)


# ---------------------------------------------------------------------------
# Min / max / count
# ---------------------------------------------------------------------------


def _flat(x):
  if isinstance(x, (list, tuple)):
    for v in x:
      yield from _flat(v)
  else:
    yield x


def min_max_count(batches, axis=None, score=None):
  """count = number of scalars seen; min / max = the smallest / largest value
  that occurred (textbook: nothing but the data enters, whatever its sign).

  score None: min/max over the values (axis None: all values; axis 0 / -1 on
  1-D batches: all values; axis 0 on 2-D batches: column-wise over all rows of
  all batches). score 'len' / 'sum': min/max over one score per batch.
  """
  count = sum(1 for b in batches for _ in _flat(b))
  if score is not None:
    if score == 'len':
      scores = [len(b) for b in batches]
    elif score == 'sum':
      scores = [sum((cm.frac(v) for v in _flat(b)), Fraction(0)) for b in batches]
    else:
      raise ValueError(score)
    return {'count': count, 'min': min(scores), 'max': max(scores)}
  two_d = bool(batches) and bool(batches[0]) and isinstance(batches[0][0], (list, tuple))
  if axis is None or not two_d:
    if axis not in (None, 0, -1):
      raise ValueError(axis)
    vals = [cm.frac(v) for b in batches for v in _flat(b)]
    return {'count': count, 'min': min(vals), 'max': max(vals)}
  if axis == 0:
    rows = [r for b in batches for r in b]
    ncol = len(rows[0])
    return {
        'count': count,
        'min': [min(cm.frac(r[j]) for r in rows) for j in range(ncol)],
        'max': [max(cm.frac(r[j]) for r in rows) for j in range(ncol)],
    }
  raise ValueError(axis)


# ---------------------------------------------------------------------------
# Histograms
# ---------------------------------------------------------------------------


def uniform_edges(lo, hi, bins):
  lo, hi = cm.frac(lo), cm.frac(hi)
  return [lo + (hi - lo) * i / bins for i in range(bins + 1)]


def bin_index(x, edges):
  """Half-open bins [e_i, e_{i+1}), the last one closed; None when outside."""
  x = cm.frac(x)
  if x < edges[0] or x > edges[-1]:
    return None
  if x == edges[-1]:
    return len(edges) - 2
  for i in range(len(edges) - 1):
    if edges[i] <= x < edges[i + 1]:
      return i
  return None


def histogram(values, edges, weights=None):
  hist = [Fraction(0)] * (len(edges) - 1)
  for i, v in enumerate(values):
    b = bin_index(v, edges)
    if b is not None:
      hist[b] += cm.frac(weights[i]) if weights is not None else 1
  return hist


def calibration(labels, predictions, lo, hi, bins):
  edges = uniform_edges(lo, hi, bins)
  return {
      'num_examples_hist': histogram(list(labels) + list(predictions), edges),
      'labels_hist': histogram(labels, edges, labels),
      'predictions_hist': histogram(predictions, edges, predictions),
      'bin_edges': edges,
  }


def counter(items):
  out = {}
  for it in items:
    out[it] = out.get(it, 0) + 1
  return out


# ---------------------------------------------------------------------------
# Tjur R^2, correlation, symmetric prediction difference
# ---------------------------------------------------------------------------


def r2_tjur(y_true, y_pred):
  """mean(pred | y=1) - mean(pred | y=0); NaN without positives or negatives."""
  pos = [cm.frac(p) for t, p in zip(y_true, y_pred) if t == 1]
  neg = [cm.frac(p) for t, p in zip(y_true, y_pred) if t == 0]
  if not pos or not neg:
    return NAN
  return sum(pos, Fraction(0)) / len(pos) - sum(neg, Fraction(0)) / len(neg)


def r2_tjur_relative(y_true, y_pred):
  """mean(pred | y=1) / mean(pred | y=0); NaN if undefined."""
  pos = [cm.frac(p) for t, p in zip(y_true, y_pred) if t == 1]
  neg = [cm.frac(p) for t, p in zip(y_true, y_pred) if t == 0]
  if not pos or not neg or sum(neg, Fraction(0)) == 0:
    return NAN
  return (sum(pos, Fraction(0)) / len(pos)) / (sum(neg, Fraction(0)) / len(neg))


def _corr(xs, ys, center):
  n = len(xs)
  xs = [cm.frac(v) for v in xs]
  ys = [cm.frac(v) for v in ys]
  if n == 0:
    return NAN
  if center:
    mx, my = sum(xs, Fraction(0)) / n, sum(ys, Fraction(0)) / n
    xs = [x - mx for x in xs]
    ys = [y - my for y in ys]
  sxy = sum((x * y for x, y in zip(xs, ys)), Fraction(0))
  sxx = sum((x * x for x in xs), Fraction(0))
  syy = sum((y * y for y in ys), Fraction(0))
  if sxx == 0 or syy == 0:
    return NAN
  return cm.CTX.divide(cm.to_dec(sxy), cm.dsqrt(sxx * syy))


def r_regression(x, y, center=True):
  """Pearson (center) / reflective (not center) correlation of each x column with y."""
  x = list(x)
  if x and isinstance(x[0], (list, tuple)):
    return [_corr([r[j] for r in x], y, center) for j in range(len(x[0]))]
  return _corr(x, y, center)


def spd(xs, ys):
  """mean of 2|x-y|/|x+y|, a term with x + y == 0 contributes 0; NaN when empty."""
  xs, ys = list(_flat(xs)), list(_flat(ys))
  if not xs:
    return NAN
  tot = Fraction(0)
  for a, b in zip(xs, ys):
    a, b = cm.frac(a), cm.frac(b)
    if a + b != 0:
      tot += 2 * abs(a - b) / abs(a + b)
  return tot / len(xs)


# ---------------------------------------------------------------------------
# Text frequencies
# ---------------------------------------------------------------------------


def clean_words(text):
  kept = []
  for ch in text:
    if ('a' <= ch <= 'z') or ('A' <= ch <= 'Z') or ch == ' ':
      kept.append(ch.lower())
  return [w for w in ''.join(kept).split(' ') if w]


def topk_word_ngrams(texts, k, n, use_first_ngram_only=False,
                     count_duplicate=True):
  counts = {}
  for text in texts:
    words = clean_words(text)
    if len(words) < n:
      continue
    if use_first_ngram_only:
      grams = [' '.join(words[:n])]
    else:
      grams = [' '.join(words[i:i + n]) for i in range(len(words) - n + 1)]
      if not count_duplicate:
        grams = sorted(set(grams))
    for g in grams:
      counts[g] = counts.get(g, 0) + 1
  items = sorted(counts.items(), key=lambda kv: (-kv[1], kv[0]))[:k]
  total = len(texts)
  return [(g, Fraction(c, total) if total else Fraction(0)) for g, c in items]


def count_overlapping(text, pattern):
  cnt = 0
  for i in range(len(text) - len(pattern) + 1):
    if text[i:i + len(pattern)] == pattern:
      cnt += 1
  return cnt


def pattern_frequency(texts, patterns, count_duplicate=True):
  total = len(texts)
  items = []
  for pat in patterns:
    c = 0
    for text in texts:
      occ = count_overlapping(text, pat)
      c += occ if count_duplicate else (1 if occ else 0)
    items.append((pat, c))
  items.sort(key=lambda kv: (-kv[1], kv[0]))
  return [(p, Fraction(c, total) if total else Fraction(0)) for p, c in items]


# ---------------------------------------------------------------------------
# math_utils
# ---------------------------------------------------------------------------


def safe_divide(a, b):
  a, b = cm.frac(a), cm.frac(b)
  return Fraction(0) if b == 0 else a / b


def nanadd(a, b):
  if _isnan(a) and _isnan(b):
    return NAN
  if _isnan(a):
    return cm.frac(b)
  if _isnan(b):
    return cm.frac(a)
  return cm.frac(a) + cm.frac(b)


# ---------------------------------------------------------------------------
# Signals
# ---------------------------------------------------------------------------


def flip_masks(base, model, threshold):
  """-> (binary, neg_to_pos, pos_to_neg) as 0/1 for one pair."""
  if threshold is None:
    b, m = bool(base), bool(model)
  else:
    b, m = base > threshold, model > threshold
  return int(b != m), int((not b) and m), int(b and (not m))


def binary_cross_entropy(y_true, y_pred):
  tot = cm.Decimal(0)
  for t, p in zip(y_true, y_pred):
    p = cm.to_dec(p)
    term = cm.dln(p) if t == 1 else cm.dln(cm.CTX.subtract(cm.Decimal(1), p))
    tot = cm.add(tot, term)
  return -cm.CTX.divide(tot, cm.Decimal(len(y_true)))


def categorical_cross_entropy(y_true, y_pred):
  """-sum_i t_i * ln(p_i / sum(p)) with the convention 0 * ln(0) = 0: a class
  that is not true contributes nothing whatever its probability; a true class
  with probability 0 makes the loss +inf. sum(p) > 0 required."""
  s = sum((cm.frac(p) for p in y_pred), Fraction(0))
  tot = cm.Decimal(0)
  for t, p in zip(y_true, y_pred):
    if t == 1:
      if cm.frac(p) == 0:
        return float('inf')
      tot = cm.add(tot, cm.dln(cm.frac(p) / s))
  return -tot


def topk_accurate(y_pred, label, weights, k):
  """label among the k highest weighted scores (scores distinct)."""
  if isinstance(weights, (list, tuple)):
    scored = [cm.frac(p) * cm.frac(w) for p, w in zip(y_pred, weights)]
  else:
    scored = [cm.frac(p) * cm.frac(weights) for p in y_pred]
  order = sorted(range(len(scored)), key=lambda i: scored[i], reverse=True)
  return label in order[:k]
