"""C17 workload library: module-level callables/classes used inside traced expressions.

Everything here is importable in the child as `vlib.oracles.c17_lib`, so cloudpickle
serialises the callables by reference. Every callable ticks a per-world call counter:
the real (lazy) materialisation runs with WORLD[0] == 'lazy', the eager twin / reference
model with WORLD[0] == 'eager'. Stateful callables return their own call number, so the
number of evaluations is visible in the value itself.
"""

from __future__ import annotations

import dataclasses
from typing import Any

COUNTS = {'lazy': {}, 'eager': {}}
WORLD = ['lazy']


def tick(tag):
  d = COUNTS[WORLD[0]]
  d[tag] = d.get(tag, 0) + 1
  return d[tag]


def reset_counts():
  COUNTS['lazy'].clear()
  COUNTS['eager'].clear()


# ---- pure callables ------------------------------------------------------------


def f(*args, **kwargs):
  tick('f')
  return ('f', args, tuple(kwargs.items()))


def g(*args, **kwargs):
  tick('g')
  return ('g',) + tuple(args) + tuple(sorted(kwargs.items()))


def pick(x=None, i=0):
  tick('pick')
  if isinstance(x, tuple) and isinstance(i, int) and 0 <= i < len(x):
    return x[i]
  return ('pick', x, i)


def const7():
  tick('const7')
  return 7


# ---- stateful callables ----------------------------------------------------------


def bump(tag='t', *rest, **kwargs):
  n = tick('bump:' + repr(tag))
  return ('bump', tag, n, rest, tuple(kwargs.items()))


def tagged(x=None, tag='u'):
  n = tick('tagged')
  return ('tagged', x, tag, n)


# ---- classes with attribute / item / call chains -----------------------------------


@dataclasses.dataclass(eq=True)
class Box:
  w: Any = None
  scale: int = 1

  def __post_init__(self):
    tick('Box.new')

  def get(self):
    tick('Box.get')
    return self.w

  def times(self, k=2):
    tick('Box.times')
    return Box(self.w, self.scale * k)

  def __call__(self, x=0, **kwargs):
    tick('Box.call')
    return ('boxcall', self.w, self.scale, x, tuple(kwargs.items()))

  def __getitem__(self, key):
    tick('Box.item')
    return ('boxitem', key, self.w)

  __hash__ = None


class Acc:
  """Stateful instance: every add mutates it and returns the running total."""

  def __init__(self, start=0):
    tick('Acc.new')
    self.total = start
    self.n = 0

  def add(self, k=1):
    tick('Acc.add')
    self.total += k
    self.n += 1
    return self.total

  def __call__(self, k=1):
    tick('Acc.call')
    return ('acc', self.add(k), self.n)

  def __getitem__(self, i):
    tick('Acc.item')
    return ('accitem', self.total, self.n, i)

  def __eq__(self, other):
    return isinstance(other, Acc) and (self.total, self.n) == (other.total, other.n)

  __hash__ = None

  def __repr__(self):
    return f'Acc(total={self.total}, n={self.n})'


LIB = {'f': f, 'g': g, 'pick': pick, 'const7': const7, 'bump': bump, 'tagged': tagged,
       'Box': Box, 'Acc': Acc}


# ---- callables / arguments that hash by identity ("ident" histories) --------------------
#
# cloudpickle ships a lambda, a closure, a local function and a functools.partial BY VALUE:
# every unpickle creates a new object whose hash is its identity. `Cfg` is an importable
# class without __eq__/__hash__: its instances are pickled by value, too. One object per
# (history, name) so that the eager twin and the real expression share the very callable.

_LOCALS = {}


def reset_locals():
  _LOCALS.clear()


def use_cfg(cfg=None, *rest, **kwargs):
  """Stateful: returns its own call number; the config object itself is not returned."""
  n = tick('use_cfg')
  cfg = cfg if cfg is not None else kwargs.pop('cfg')
  return ('use_cfg', cfg.tag, n, rest, tuple(kwargs.items()))


class Cfg:
  """A plain config object (default identity hash and eq)."""

  def __init__(self, tag):
    self.tag = tag

  def __repr__(self):
    return f'Cfg({self.tag!r})'


def _make_local(name):
  kind, base = name.split(':', 1)
  target = LIB[base]
  if kind == 'lam':
    fn = lambda *a, **k: target(*a, **k)
  elif kind == 'clo':
    def fn(*a, **k):
      return target(*a, **k)
  elif kind == 'par':
    import functools
    return functools.partial(target)
  else:
    raise ValueError(name)
  fn.__name__ = name      # __qualname__ keeps '<locals>': still pickled by value
  return fn


def callee(name):
  """The callable behind a 'call' node: importable (LIB) or by-value ('lam:f', 'clo:Acc', ...)."""
  if name in LIB:
    return LIB[name]
  if name not in _LOCALS:
    _LOCALS[name] = _make_local(name)
  return _LOCALS[name]


LIB['use_cfg'] = use_cfg


# ---- callables for the concurrent scenarios (vlib/c17conc.py) --------------------------------


def _yield_point():
  from vlib.sched import core
  s = core.ACTIVE
  if s is not None and s.controlled():
    s.yield_point('user')


class SlowAcc(Acc):
  """An Acc whose construction can be pre-empted (model loading)."""

  def __init__(self, start=0):
    _yield_point()
    super().__init__(start)
    _yield_point()


def slow_tagged(x=None, tag='u'):
  _yield_point()
  n = tick('slow_tagged')
  _yield_point()
  return ('slow_tagged', x, tag, n)


class HCfg:
  """Hashable config argument whose __hash__ is Python code (can be pre-empted)."""

  def __init__(self, n):
    self.n = n

  def __hash__(self):
    _yield_point()
    return hash(('HCfg', self.n))

  def __eq__(self, other):
    return isinstance(other, HCfg) and other.n == self.n

  def __repr__(self):
    return f'HCfg({self.n})'


def built(cfg, extra=0):
  tick('built')
  return ('built', getattr(cfg, 'n', cfg), extra)


LIB.update({'SlowAcc': SlowAcc, 'slow_tagged': slow_tagged, 'built': built})


def local_name(obj):
  """Name of a by-value callable created for this history (by identity), else None."""
  import functools
  for k, v in _LOCALS.items():
    if v is obj:
      return k
    # an unpickled copy of a partial has no __name__: recognise it by what it wraps
    if isinstance(obj, functools.partial) and isinstance(v, functools.partial) and \
       (obj.func, obj.args, obj.keywords) == (v.func, v.args, v.keywords):
      return k
  return None
