"""C17 workload library: module-level callables/classes used inside traced expressions.

Everything here is importable in the child as `vlib.oracles.c17_lib`, so cloudpickle
serialises the callables by reference. Every callable ticks a per-world call counter:
the real (lazy) materialisation runs with WORLD[0] == 'lazy', the eager twin / reference
model with WORLD[0] == 'eager'. Stateful callables return their own call number, so the
number of evaluations is visible in the value itself.
"""

from __future__ import annotations

import dataclasses
from typing import Any

COUNTS = {'lazy': {}, 'eager': {}}
WORLD = ['lazy']


def tick(tag):
  d = COUNTS[WORLD[0]]
  d[tag] = d.get(tag, 0) + 1
  return d[tag]


def reset_counts():
  COUNTS['lazy'].clear()
  COUNTS['eager'].clear()


# ---- pure callables ------------------------------------------------------------


def f(*args, **kwargs):
  tick('f')
  return ('f', args, tuple(kwargs.items()))


def g(*args, **kwargs):
  tick('g')
  return ('g',) + tuple(args) + tuple(sorted(kwargs.items()))


def pick(x=None, i=0):
  tick('pick')
  if isinstance(x, tuple) and isinstance(i, int) and 0 <= i < len(x):
    return x[i]
  return ('pick', x, i)


def const7():
  tick('const7')
  return 7


# ---- stateful callables ----------------------------------------------------------


def bump(tag='t', *rest, **kwargs):
  n = tick('bump:' + repr(tag))
  return ('bump', tag, n, rest, tuple(kwargs.items()))


def tagged(x=None, tag='u'):
  n = tick('tagged')
  return ('tagged', x, tag, n)


# ---- classes with attribute / item / call chains -----------------------------------


@dataclasses.dataclass(eq=True)
class Box:
  w: Any = None
  scale: int = 1

  def __post_init__(self):
    tick('Box.new')

  def get(self):
    tick('Box.get')
    return self.w

  def times(self, k=2):
    tick('Box.times')
    return Box(self.w, self.scale * k)

  def __call__(self, x=0, **kwargs):
    tick('Box.call')
    return ('boxcall', self.w, self.scale, x, tuple(kwargs.items()))

  def __getitem__(self, key):
    tick('Box.item')
    return ('boxitem', key, self.w)

  __hash__ = None


class Acc:
  """Stateful instance: every add mutates it and returns the running total."""

  def __init__(self, start=0):
    tick('Acc.new')
    self.total = start
    self.n = 0

  def add(self, k=1):
    tick('Acc.add')
    self.total += k
    self.n += 1
    return self.total

  def __call__(self, k=1):
    tick('Acc.call')
    return ('acc', self.add(k), self.n)

  def __getitem__(self, i):
    tick('Acc.item')
    return ('accitem', self.total, self.n, i)

  def __eq__(self, other):
    return isinstance(other, Acc) and (self.total, self.n) == (other.total, other.n)

  __hash__ = None

  def __repr__(self):
    return f'Acc(total={self.total}, n={self.n})'


LIB = {'f': f, 'g': g, 'pick': pick, 'const7': const7, 'bump': bump, 'tagged': tagged,
       'Box': Box, 'Acc': Acc}
