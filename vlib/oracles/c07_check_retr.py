"""C07: retrieval family - TopKRetrieval, metrics.retrieval, ThresholdedRetrieval.

case = {'family': 'retr', 'config': {'k_list', 'input_type', 'split'},
        'input': {'y_true', 'y_pred'}}
       k_list: any order, duplicates allowed; rows may be empty (config
       'empty_rows' marks the cases generated for that input class); y_pred rows
       may repeat an id (config 'repeated_ids'; the input class itself is always
       recomputed from the literal rows)
case = {'family': 'thr', 'config': {'thresholds', 'split', 'prob_dtype', 'mode'},
        'input': {'y_true', 'y_pred', 'y_prob' | None}}
       prob_dtype: 'list' (python floats) | 'float64' | 'float32' (one array per row)
"""

from __future__ import annotations

from vlib.oracles import c07_common as cm
from vlib.oracles import c07_retrieval as orc

KLIST_ORDER = 'retrieval-klist-result-order'
EMPTY_NAN = 'retrieval-empty-row-nan'
EMPTY_ALONE = 'retrieval-empty-row-alone-raises'
THR_TIE = 'thresholded-retrieval-float32-threshold-equality'
# Input class "a ranking repeats a relevant id within the evaluated top-k":
# REPEAT_HITS when the RANGE law is broken (a rate outside [0, 1]), REPEAT_VALUE
# when the value stays in range and only differs from the set-based definition.
REPEAT_HITS = 'retrieval-repeated-prediction-counted-as-several-hits'
REPEAT_VALUE = 'retrieval-repeated-prediction-value-convention'
# Thresholded retrieval, input class "a ranking repeats a RELEVANT id":
# THR_LAST_WINS where the probability of the LAST occurrence decides instead of
# the highest one (recall / f1 at a threshold that the last occurrence misses and
# another one passes; results that change with the order of the (id, prob) pairs);
# THR_REPEAT_VALUE where a relevant id sits at several positions above the
# threshold (precision / f1: one hit or several - a convention, order-independent).
THR_LAST_WINS = 'thresholded-retrieval-repeated-prediction-last-probability-wins'
THR_REPEAT_VALUE = 'thresholded-retrieval-repeated-prediction-value-convention'

# Row formulas that divide by the number of predictions / of true labels.
_PRED_DEN = ('precision', 'ppv', 'positive_predictive_value', 'f1_score',
             'false_discovery_rate', 'fowlkes_mallows_index')
_TRUE_DEN = ('recall', 'sensitivity', 'tpr', 'miss_rate', 'f1_score',
             'fowlkes_mallows_index', 'mean_average_precision', 'ndcg_score')


def _displaced(k_list, j):
  """The library answers in ascending k order: position j holds another k."""
  return bool(k_list) and j is not None and j < len(k_list) and (
      k_list[j] != sorted(k_list)[j])


def _outside_unit_range(metric, got):
  """A finite reported rate outside [0, 1] (dcg_score has no upper bound)."""
  if metric == 'dcg_score' or got is None:
    return False
  try:
    g = float(got)
  except Exception:  # pylint: disable=broad-exception-caught
    return False
  return g == g and not -1e-12 <= g <= 1 + 1e-12


def _mechanism(config, metric, rows_t, rows_p, k_index, ks, got=None):
  """Input-class key of a value mismatch (never data dependent beyond shape;
  for the repeated-id class `got` only tells which law is broken: range / value)."""
  if config.get('odd_labels'):
    return 'retrieval-multiclass-labels-iterated'
  empty = ((metric in _PRED_DEN and any(len(p) == 0 for p in rows_p)) or
           (metric in _TRUE_DEN and any(len(set(t)) == 0 for t in rows_t)))
  if k_index is None:
    # 0 / 0 on the row of a query that retrieved nothing / has no true label
    return EMPTY_NAN if empty else None
  max_len = max(len(r) for r in rows_p)
  # The recorded per-k defects apply to whichever k the library evaluated at
  # this position (the requested one, or the one of the sorted request).
  cands = [ks[k_index]]
  if ks[0] is not None and _displaced(ks, k_index):
    cands.append(sorted(ks)[k_index])
  for k in cands:
    k = k if k is not None else float('inf')
    if (metric in ('mean_average_precision', 'ndcg_score') and k > max_len and
        any(len(set(t)) > max_len for t in rows_t)):
      # k exceeds every ranking of the batch and some row has more true labels
      # than that: the library evaluates at k' = longest ranking of the batch.
      return 'retrieval-k-truncated-to-batch-max-len'
    if metric == 'threat_score' and any(len(p) < min(k, max_len) for p in rows_p):
      # a ranking shorter than k: the library counts k - len(y_pred) phantom
      # false positives.
      return 'retrieval-threat-score-uses-k'
  if any(orc.repeated_hit_within(rows_t, rows_p, k) for k in cands):
    # some ranking repeats a relevant id within the top-k this position was
    # evaluated at (rows without such a repetition cannot be affected)
    return REPEAT_HITS if _outside_unit_range(metric, got) else REPEAT_VALUE
  if empty:
    return EMPTY_NAN
  if ks[0] is not None and _displaced(ks, k_index):
    return KLIST_ORDER
  return None


def check_topk(ctx, case):
  from ml_metrics._src.aggregates import retrieval as agg
  from ml_metrics._src.metrics import retrieval as mr

  config, inp = case['config'], case['input']
  it = config.get('input_type', 'multiclass-multioutput')
  y_true, y_pred = inp['y_true'], inp['y_pred']
  k_list = list(config['k_list']) if config.get('k_list') else None
  rows_t, rows_p = orc.as_rows(y_true, it), orc.as_rows(y_pred, it)
  exp = orc.oracle(rows_t, rows_p, k_list)
  alt = exp['_alt']
  ks = list(k_list) if k_list else [None]
  mis = cm.Mis()
  has_empty = any(len(r) == 0 for r in rows_p) or any(len(r) == 0 for r in rows_t)
  nontrivial = len(rows_t) >= 2 and any(len(r) >= 2 for r in rows_p)
  ctx.case(('retr', config, inp), nontrivial)
  ctx.count('retr_cases')
  if has_empty:
    ctx.count('retr_empty_row_cases')
  if orc.has_repeated_id(rows_p):
    ctx.count('retr_repeated_id_cases')
    if orc.repeated_hit_within(rows_t, rows_p, None):
      ctx.count('retr_repeated_relevant_id_cases')
    else:
      ctx.count('retr_repeated_irrelevant_id_cases')
  if k_list and k_list != sorted(set(k_list)):
    ctx.count('retr_unordered_klist_cases')
  metrics = list(orc.METRICS)

  def compare(res, path):
    for name in metrics:
      if name not in res:
        mis.add('missing_metric', None, {'metric': name, 'path': path})
        continue
      got = list(res[name]) if hasattr(res[name], '__len__') else [res[name]]
      want = exp[name]
      if len(got) != len(want):
        mis.add('value_mismatch', _mechanism(config, name, rows_t, rows_p, None, ks),
                {'metric': name, 'path': path, 'got': got, 'want': want})
        continue
      for j, (g, w) in enumerate(zip(got, want)):
        ctx.count('retr_value_checks')
        ok = cm.close(g, w)
        if not ok and has_empty and name in alt:
          ok = cm.close(g, alt[name][j])  # 1 - rate reading of an empty row
        if not ok:
          mis.add('value_mismatch',
                  _mechanism(config, name, rows_t, rows_p, j, ks, got=g),
                  {'metric': name, 'k': ks[j], 'k_list': k_list, 'path': path,
                   'got': g, 'want': w})
    for group in orc.ALIASES:
      for other in group[1:]:
        if group[0] in res and other in res:
          ctx.count('retr_alias_checks')
          if not cm.bitwise_equal(res[group[0]], res[other]):
            mech = None
            if 'threat_score' in (group[0], other):
              mech = 'retrieval-threat-score-uses-k'
            if config.get('odd_labels'):
              mech = 'retrieval-multiclass-labels-iterated'
            mis.add('alias_mismatch', mech,
                    {'a': group[0], 'b': other, 'path': path,
                     'got': [res[group[0]], res[other]]})
    import numpy as np
    for name in orc.UNIT_RANGE:
      if name in res:
        ctx.count('retr_range_checks')
        a = np.asarray(res[name], dtype=float)
        if not bool(np.all((a >= -1e-12) & (a <= 1 + 1e-12))):
          mech = _mechanism(config, name, rows_t, rows_p, None, [None])
          if (not config.get('odd_labels')
              and any(_outside_unit_range(name, v) for v in a.ravel().tolist())
              and orc.repeated_hit_within(rows_t, rows_p, None)):
            # a finite rate outside [0, 1] on rankings that repeat a relevant id
            # (NaN of an empty row keeps its own key)
            mech = REPEAT_HITS
          mis.add('out_of_range', mech, {'metric': name, 'path': path, 'got': res[name]})

  def all_empty_pred(rows):
    return len(rows) > 0 and all(len(r) == 0 for r in rows)

  def guarded(path, fn, batches_p=None):
    try:
      with cm.observed_warnings(ctx, 'retr'):
        return True, fn()
    except Exception as e:  # pylint: disable=broad-exception-caught
      mech = None
      if any(all_empty_pred(b) for b in (batches_p or [rows_p])):
        # a batch in which no query retrieved anything
        mech = EMPTY_ALONE
      if config.get('odd_labels'):
        mech = 'retrieval-multiclass-labels-iterated'
      mis.add('raised', mech, {'path': path, 'error': repr(e)[:300]})
      return False, None

  ok, res_call = guarded('as_agg_fn.__call__', lambda: cm.norm_keys(
      agg.TopKRetrieval(metrics=metrics, k_list=k_list, input_type=it)
      .as_agg_fn()(y_true, y_pred)))
  if ok:
    compare(res_call, 'agg_call')

  def accumulate(batches):
    m = agg.TopKRetrieval(metrics=metrics, k_list=k_list, input_type=it)
    for yt, yp in batches:
      m.add(yt, yp)
    return cm.norm_keys(m.result())

  ok2, res_acc = guarded('accumulator', lambda: accumulate([(y_true, y_pred)]))
  if ok2:
    ctx.count('retr_accumulator_checks')
    compare(res_acc, 'accumulator')
  split = config.get('split')
  if split and 0 < split < len(y_true) and (k_list or has_empty):
    # Only when every batch contains a ranking of at least max(k) items: the
    # per-batch k_list truncation (recorded under C01) is then inactive. A
    # batch in which every ranking is empty is admitted as well (no k applies).
    kmax = max(k_list) if k_list else 0
    parts = [rows_p[:split], rows_p[split:]]
    if all(all_empty_pred(b) or max(len(r) for r in b) >= kmax for b in parts) and (
        k_list or any(all_empty_pred(b) for b in parts)):
      ok3, res_multi = guarded('accumulator_2_batches', lambda: accumulate(
          [(y_true[:split], y_pred[:split]), (y_true[split:], y_pred[split:])]),
                               parts)
      if any(all_empty_pred(b) for b in parts):
        ctx.count('retr_empty_batch_checks')
      if ok3:
        ctx.count('retr_multibatch_checks')
        compare(res_multi, 'accumulator_2_batches')

  if ok:
    for name in metrics:
      ctx.count('retr_function_api_checks')
      okf, got = guarded('fn:' + name, lambda name=name: getattr(mr, name)(
          y_true, y_pred, k_list=k_list, input_type=it))
      if okf and not cm.same_value(got, res_call[name]):
        mis.add('api_paths_differ', None,
                {'metric': name, 'function': got, 'agg': res_call[name]})
    okm, res_fn = guarded('topk_retrieval_metrics', lambda: cm.norm_keys(
        mr.topk_retrieval_metrics(metrics, y_true=y_true, y_pred=y_pred,
                                  k_list=k_list, input_type=it)))
    if okm:
      for name in metrics:
        if not cm.same_value(res_fn.get(name), res_call[name]):
          mis.add('api_paths_differ', None,
                  {'metric': name, 'topk_retrieval_metrics': res_fn.get(name),
                   'agg': res_call[name]})

  if not mis.flush(ctx, case) and len(ctx.samples) < 2:
    ctx.sample({'family': 'retr', 'config': config, 'input': inp,
                'recall': cm.jsonable(exp['recall'])})


def _mixed_precision_tie(y_prob, thresholds, prob_dtype):
  """Input class of THR_TIE: a probability handed over in double precision
  (python float / float64 array) that rounds to the same float32 as a
  threshold while being larger than that float32. Compared as a double against
  the float32 threshold it is 'above', compared after its own rounding to
  float32 it is 'not above'."""
  if y_prob is None or prob_dtype == 'float32':
    return False
  t32 = [orc.to_float32(t) for t in thresholds]
  for row in y_prob:
    for p in row:
      p32 = orc.to_float32(p)
      if any(p32 == t and p > t for t in t32):
        return True
  return False


def check_thresholded(ctx, case):
  import numpy as np
  from ml_metrics._src.aggregates import retrieval as agg

  config, inp = case['config'], case['input']
  y_true, y_pred, y_prob = inp['y_true'], inp['y_pred'], inp.get('y_prob')
  thresholds = list(config['thresholds'])
  prob_dtype = config.get('prob_dtype', 'list')
  ths = sorted(thresholds)
  if prob_dtype == 'float32' and y_prob is not None:
    # the values the library is handed are the float32 roundings
    given = [[orc.to_float32(p) for p in row] for row in y_prob]
  else:
    given = y_prob
  # Two admissible readings of "probability > threshold": exact comparison of
  # the given numbers, or comparison in single precision (the thresholds are
  # documented to be kept as float32). Either way one comparison per item.
  # Repeated ids: set semantics (the highest probability of an id counts, an id
  # is one hit); the precision denominator may count distinct ids or positions.
  exps = [orc.thresholded_oracle(y_true, y_pred, given, thresholds, quantize=qz,
                                 repeats=rp)
          for qz in (None, orc.to_float32) for rp in ('set', 'positions')]
  exp = exps[0]
  exp32 = exps[2]
  rc = orc.thresholded_repeat_classes(y_true, y_pred, given, thresholds)
  rc32 = orc.thresholded_repeat_classes(y_true, y_pred, given, thresholds,
                                        quantize=orc.to_float32)
  for key in ('last_differs', 'several_above', 'straddle'):
    rc[key] = [a or b for a, b in zip(rc[key], rc32[key])]
  exact32 = all(orc.to_float32(t) == t for t in ths)
  tie = _mixed_precision_tie(y_prob, ths, prob_dtype)
  mis = cm.Mis()
  ctx.case(('thr', config, inp), len(y_true) >= 2)
  ctx.count('thr_cases')
  if tie:
    ctx.count('thr_tie_cases')
  if rc['repeated']:
    ctx.count('thr_repeated_id_cases')
    ctx.count('thr_repeated_relevant_id_cases' if rc['repeated_relevant']
              else 'thr_repeated_irrelevant_id_cases')
    if any(rc['straddle']):
      ctx.count('thr_repeated_straddling_threshold_cases')
  names = ['precision', 'recall', 'f1_score']
  at = [f'{n}@{t}' for n in names for t in ths]

  def wrap(rows):
    if rows is None or prob_dtype == 'list':
      return rows
    dt = np.float32 if prob_dtype == 'float32' else np.float64
    return [np.asarray(r, dtype=dt) for r in rows]

  def run(batches):
    m = agg.ThresholdedRetrieval(thresholds=thresholds, metrics=names + at)
    for yt, yp, ypr in batches:
      m.add(yt, yp, wrap(ypr))
    return {str(k): v for k, v in m.result().items()}

  def value_ok(g, n, j, atol=cm.ATOL):
    return any(cm.close(g, e[n][j], atol=atol) for e in exps)

  def mech_of(n, j):
    """Input-class key of a mismatch of metric n at threshold index j."""
    if n != 'precision' and rc['last_differs'][j]:
      return THR_LAST_WINS
    if n != 'recall' and rc['several_above'][j]:
      return THR_REPEAT_VALUE
    return THR_TIE if tie else None

  def compare(res, path):
    # thresholds are reported in float32
    if not cm.seq_close(res['thresholds'], ths, rtol=cm.RTOL if exact32 else 1e-7):
      mis.add('value_mismatch', None, {'thresholds': res['thresholds']})
    for n in names:
      got = list(np.asarray(res[n], dtype=float).ravel())
      for j, g in enumerate(got[:len(ths)]):
        ctx.count('thr_value_checks')
        if not value_ok(g, n, j):
          mis.add('value_mismatch', mech_of(n, j),
                  {'metric': n, 'threshold': ths[j], 'path': path, 'got': g,
                   'want': exp[n][j], 'want_float32_semantics': exp32[n][j]})
        if not -1e-12 <= g <= 1 + 1e-12:
          mis.add('out_of_range', mech_of(n, j), {'metric': n, 'got': g})
      if len(got) != len(ths):
        mis.add('value_mismatch', None, {'metric': n, 'got': got})
      for j, t in enumerate(ths):
        ctx.count('thr_value_checks')
        # metric@t is interpolated on the float32 threshold axis: exact at a
        # threshold that is a float32, else within the float32 resolution of t
        # relative to the gap to the neighbouring threshold.
        if not value_ok(res[f'{n}@{t}'], n, j, atol=cm.ATOL if exact32 else 2e-6):
          mis.add('value_mismatch', mech_of(n, j),
                  {'metric': f'{n}@{t}', 'path': path,
                   'got': res[f'{n}@{t}'], 'want': exp[n][j]})

  def order_twin(res):
    """The same multiset of (id, probability) pairs per row in another order
    (every row reversed; rows of >= 3 items also rotated by one): the result may
    not change."""
    twins = {'reversed': lambda r: list(r)[::-1]}
    if any(len(r) >= 3 for r in y_pred):
      twins['rotated'] = lambda r: list(r)[1:] + list(r)[:1]
    for label, f in twins.items():
      with cm.observed_warnings(ctx, 'thr'):
        res2 = run([(y_true, [f(r) for r in y_pred],
                     [f(r) for r in y_prob] if y_prob is not None else None)])
      ctx.count('thr_order_twin_checks')
      for n in names:
        a = list(np.asarray(res[n], dtype=float).ravel())
        b = list(np.asarray(res2[n], dtype=float).ravel())
        bad = [j for j in range(min(len(a), len(b), len(ths)))
               if not cm.close(a[j], b[j])]
        if bad or len(a) != len(b):
          mech = THR_LAST_WINS if any(rc['straddle'][j] for j in bad) else None
          mis.add('order_dependence', mech,
                  {'metric': n, 'twin': label, 'thresholds': ths, 'as_given': a,
                   'reordered': b})

  try:
    with cm.observed_warnings(ctx, 'thr'):
      res = run([(y_true, y_pred, y_prob)])
    compare(res, 'add_result')
    order_twin(res)
    split = config.get('split')
    if split and 0 < split < len(y_true):
      with cm.observed_warnings(ctx, 'thr'):
        res2 = run([(y_true[:split], y_pred[:split],
                     y_prob[:split] if y_prob else None),
                    (y_true[split:], y_pred[split:],
                     y_prob[split:] if y_prob else None)])
      ctx.count('thr_multibatch_checks')
      compare(res2, 'two_batches')
  except Exception as e:  # pylint: disable=broad-exception-caught
    mis.add('raised', None, {'error': repr(e)[:300]})
  if not mis.flush(ctx, case) and len(ctx.samples) < 3:
    ctx.sample({'family': 'thr', 'config': config, 'input': inp})
