"""C07: retrieval family - TopKRetrieval, metrics.retrieval, ThresholdedRetrieval.

case = {'family': 'retr', 'config': {'k_list', 'input_type', 'split'},
        'input': {'y_true', 'y_pred'}}
case = {'family': 'thr', 'config': {'thresholds', 'split'},
        'input': {'y_true', 'y_pred', 'y_prob' | None}}
"""

from __future__ import annotations

from vlib.oracles import c07_common as cm
from vlib.oracles import c07_retrieval as orc


def _mechanism(config, metric, rows_t, rows_p, k_index, ks):
  """Input-class key of a value mismatch (never data dependent beyond shape)."""
  if config.get('odd_labels'):
    return 'retrieval-multiclass-labels-iterated'
  max_len = max(len(r) for r in rows_p)
  k = ks[k_index] if ks[k_index] is not None else float('inf')
  if (metric in ('mean_average_precision', 'ndcg_score') and k > max_len and
      any(len(set(t)) > max_len for t in rows_t)):
    # k exceeds every ranking of the batch and some row has more true labels
    # than that: the library evaluates at k' = longest ranking of the batch.
    return 'retrieval-k-truncated-to-batch-max-len'
  if metric == 'threat_score' and any(len(p) < min(k, max_len) for p in rows_p):
    # a ranking shorter than k: the library counts k - len(y_pred) phantom
    # false positives.
    return 'retrieval-threat-score-uses-k'
  return None


def check_topk(ctx, case):
  from ml_metrics._src.aggregates import retrieval as agg
  from ml_metrics._src.metrics import retrieval as mr

  config, inp = case['config'], case['input']
  it = config.get('input_type', 'multiclass-multioutput')
  y_true, y_pred = inp['y_true'], inp['y_pred']
  k_list = list(config['k_list']) if config.get('k_list') else None
  rows_t, rows_p = orc.as_rows(y_true, it), orc.as_rows(y_pred, it)
  exp = orc.oracle(rows_t, rows_p, k_list)
  ks = sorted(k_list) if k_list else [None]
  mis = cm.Mis()
  nontrivial = len(rows_t) >= 2 and any(len(r) >= 2 for r in rows_p)
  ctx.case(('retr', config, inp), nontrivial)
  ctx.count('retr_cases')
  metrics = list(orc.METRICS)

  def compare(res, path):
    for name in metrics:
      if name not in res:
        mis.add('missing_metric', None, {'metric': name, 'path': path})
        continue
      got = list(res[name]) if hasattr(res[name], '__len__') else [res[name]]
      want = exp[name]
      if len(got) != len(want):
        mis.add('value_mismatch', _mechanism(config, name, rows_t, rows_p, 0, ks),
                {'metric': name, 'path': path, 'got': got, 'want': want})
        continue
      for j, (g, w) in enumerate(zip(got, want)):
        ctx.count('retr_value_checks')
        if not cm.close(g, w):
          mis.add('value_mismatch',
                  _mechanism(config, name, rows_t, rows_p, j, ks),
                  {'metric': name, 'k': ks[j], 'path': path, 'got': g, 'want': w})
    for group in orc.ALIASES:
      for other in group[1:]:
        if group[0] in res and other in res:
          ctx.count('retr_alias_checks')
          if not cm.bitwise_equal(res[group[0]], res[other]):
            mech = None
            if 'threat_score' in (group[0], other):
              mech = 'retrieval-threat-score-uses-k'
            if config.get('odd_labels'):
              mech = 'retrieval-multiclass-labels-iterated'
            mis.add('alias_mismatch', mech,
                    {'a': group[0], 'b': other, 'path': path,
                     'got': [res[group[0]], res[other]]})
    import numpy as np
    for name in orc.UNIT_RANGE:
      if name in res:
        ctx.count('retr_range_checks')
        a = np.asarray(res[name], dtype=float)
        if not bool(np.all((a >= -1e-12) & (a <= 1 + 1e-12))):
          mis.add('out_of_range', None, {'metric': name, 'got': res[name]})

  def guarded(path, fn):
    try:
      with cm.observed_warnings(ctx, 'retr'):
        return True, fn()
    except Exception as e:  # pylint: disable=broad-exception-caught
      mech = 'retrieval-multiclass-labels-iterated' if config.get('odd_labels') else None
      mis.add('raised', mech, {'path': path, 'error': repr(e)[:300]})
      return False, None

  ok, res_call = guarded('as_agg_fn.__call__', lambda: cm.norm_keys(
      agg.TopKRetrieval(metrics=metrics, k_list=k_list, input_type=it)
      .as_agg_fn()(y_true, y_pred)))
  if ok:
    compare(res_call, 'agg_call')

  def accumulate(batches):
    m = agg.TopKRetrieval(metrics=metrics, k_list=k_list, input_type=it)
    for yt, yp in batches:
      m.add(yt, yp)
    return cm.norm_keys(m.result())

  ok2, res_acc = guarded('accumulator', lambda: accumulate([(y_true, y_pred)]))
  if ok2:
    ctx.count('retr_accumulator_checks')
    compare(res_acc, 'accumulator')
  split = config.get('split')
  if split and 0 < split < len(y_true) and k_list:
    # Only when both batches contain a ranking of at least max(k) items: the
    # per-batch k_list truncation (recorded under C01) is then inactive.
    kmax = max(k_list)
    if (max(len(r) for r in rows_p[:split]) >= kmax and
        max(len(r) for r in rows_p[split:]) >= kmax):
      ok3, res_multi = guarded('accumulator_2_batches', lambda: accumulate(
          [(y_true[:split], y_pred[:split]), (y_true[split:], y_pred[split:])]))
      if ok3:
        ctx.count('retr_multibatch_checks')
        compare(res_multi, 'accumulator_2_batches')

  if ok:
    for name in metrics:
      ctx.count('retr_function_api_checks')
      okf, got = guarded('fn:' + name, lambda name=name: getattr(mr, name)(
          y_true, y_pred, k_list=k_list, input_type=it))
      if okf and not cm.same_value(got, res_call[name]):
        mis.add('api_paths_differ', None,
                {'metric': name, 'function': got, 'agg': res_call[name]})
    okm, res_fn = guarded('topk_retrieval_metrics', lambda: cm.norm_keys(
        mr.topk_retrieval_metrics(metrics, y_true=y_true, y_pred=y_pred,
                                  k_list=k_list, input_type=it)))
    if okm:
      for name in metrics:
        if not cm.same_value(res_fn.get(name), res_call[name]):
          mis.add('api_paths_differ', None,
                  {'metric': name, 'topk_retrieval_metrics': res_fn.get(name),
                   'agg': res_call[name]})

  if not mis.flush(ctx, case) and len(ctx.samples) < 2:
    ctx.sample({'family': 'retr', 'config': config, 'input': inp,
                'recall': cm.jsonable(exp['recall'])})


def check_thresholded(ctx, case):
  from ml_metrics._src.aggregates import retrieval as agg

  config, inp = case['config'], case['input']
  y_true, y_pred, y_prob = inp['y_true'], inp['y_pred'], inp.get('y_prob')
  thresholds = list(config['thresholds'])
  exp = orc.thresholded_oracle(y_true, y_pred, y_prob, thresholds)
  ths = sorted(thresholds)
  mis = cm.Mis()
  ctx.case(('thr', config, inp), len(y_true) >= 2)
  ctx.count('thr_cases')
  names = ['precision', 'recall', 'f1_score']
  at = [f'{n}@{t}' for n in names for t in ths]

  def run(batches):
    m = agg.ThresholdedRetrieval(thresholds=thresholds, metrics=names + at)
    for yt, yp, ypr in batches:
      m.add(yt, yp, ypr)
    return {str(k): v for k, v in m.result().items()}

  def compare(res, path):
    import numpy as np
    if not cm.seq_close(res['thresholds'], ths):
      mis.add('value_mismatch', None, {'thresholds': res['thresholds']})
    for n in names:
      got = list(np.asarray(res[n], dtype=float).ravel())
      for j, (g, w) in enumerate(zip(got, exp[n])):
        ctx.count('thr_value_checks')
        if not cm.close(g, w):
          mis.add('value_mismatch', None, {'metric': n, 'threshold': ths[j],
                                           'path': path, 'got': g, 'want': w})
        if not -1e-12 <= g <= 1 + 1e-12:
          mis.add('out_of_range', None, {'metric': n, 'got': g})
      if len(got) != len(ths):
        mis.add('value_mismatch', None, {'metric': n, 'got': got})
      for j, t in enumerate(ths):
        ctx.count('thr_value_checks')
        if not cm.close(res[f'{n}@{t}'], exp[n][j]):
          mis.add('value_mismatch', None,
                  {'metric': f'{n}@{t}', 'path': path,
                   'got': res[f'{n}@{t}'], 'want': exp[n][j]})

  try:
    with cm.observed_warnings(ctx, 'thr'):
      res = run([(y_true, y_pred, y_prob)])
    compare(res, 'add_result')
    split = config.get('split')
    if split and 0 < split < len(y_true):
      with cm.observed_warnings(ctx, 'thr'):
        res2 = run([(y_true[:split], y_pred[:split],
                     y_prob[:split] if y_prob else None),
                    (y_true[split:], y_pred[split:],
                     y_prob[split:] if y_prob else None)])
      ctx.count('thr_multibatch_checks')
      compare(res2, 'two_batches')
  except Exception as e:  # pylint: disable=broad-exception-caught
    mis.add('raised', None, {'error': repr(e)[:300]})
  if not mis.flush(ctx, case) and len(ctx.samples) < 3:
    ctx.sample({'family': 'thr', 'config': config, 'input': inp})
