"""C07 oracle: confusion counts and the derived rates, from the raw examples.

Brute-force loops over (example, class) pairs with int counts and exact
Fraction / 60-digit Decimal arithmetic. No repository helpers.

Conventions implemented (all documented in the library):
  * safe division: x / 0 == 0, applied division by division;
  * `binary` average counts only the positive label, `micro` sums over all
    (example, class) cells, `macro` averages per-class rates over the classes,
    `samples` averages per-example rates over the examples;
  * binary input under micro/macro is a 2-class problem (positive, rest);
  * vocabulary: the given one, else the labels that occur in y_true or y_pred;
  * top-k: the prediction set of an example is set(y_pred[:k]); one value per
    requested k, positionally aligned with k_list (any order, duplicates kept).
"""

from __future__ import annotations

from vlib.oracles import c07_common as cm

Fraction = cm.Fraction

ALIASES = [
    ('precision', 'ppv', 'positive_predictive_value'),
    ('recall', 'sensitivity', 'tpr'),
    ('specificity', 'tnr'),
    ('fall_out', 'fpr'),
    ('miss_rate', 'fnr'),
    ('negative_prediction_value', 'nvp'),
    ('threat_score', 'intersection_over_union'),
]

DERIVED = [
    'precision', 'ppv', 'recall', 'f1_score', 'accuracy', 'binary_accuracy',
    'sensitivity', 'tpr', 'specificity', 'tnr', 'fall_out', 'fpr',
    'miss_rate', 'fnr', 'negative_prediction_value', 'nvp',
    'false_discovery_rate', 'false_omission_rate', 'threat_score',
    'positive_likelihood_ratio', 'negative_likelihood_ratio',
    'diagnostic_odds_ratio', 'positive_predictive_value',
    'intersection_over_union', 'prevalence', 'prevalence_threshold',
    'matthews_correlation_coefficient', 'informedness', 'markedness',
    'balanced_accuracy',
]

UNIT_RANGE = [
    'precision', 'ppv', 'recall', 'f1_score', 'accuracy', 'binary_accuracy',
    'sensitivity', 'tpr', 'specificity', 'tnr', 'fall_out', 'fpr',
    'miss_rate', 'fnr', 'negative_prediction_value', 'nvp',
    'false_discovery_rate', 'false_omission_rate', 'threat_score',
    'positive_predictive_value', 'intersection_over_union', 'prevalence',
    'prevalence_threshold', 'balanced_accuracy',
]
SIGNED_RANGE = ['matthews_correlation_coefficient', 'informedness',
                'markedness']
NONNEG = ['positive_likelihood_ratio', 'negative_likelihood_ratio',
          'diagnostic_odds_ratio']


def encode(input_type, y_true, y_pred, *, pos_label=1, vocab=None,
           average='micro', k=None):
  """-> (classes, true_sets, pred_sets): one set of class keys per example."""
  n = len(y_true)
  if len(y_pred) != n:
    raise ValueError('length mismatch')
  if input_type == 'binary':
    classes = ['P'] if average == 'binary' else ['P', 'N']
    def enc(v):
      return {'P'} if v == pos_label else ({'N'} if 'N' in classes else set())
    return classes, [enc(v) for v in y_true], [enc(v) for v in y_pred]
  if input_type == 'multiclass-indicator':
    ncols = len(y_true[0]) if n else 0
    if average == 'binary':
      if ncols > 2:
        raise ValueError('binary average needs <= 2 columns')
      classes = [0]
    else:
      classes = list(range(ncols))
    def enc_row(row):
      return {j for j in classes if row[j] == pos_label}
    return classes, [enc_row(r) for r in y_true], [enc_row(r) for r in y_pred]
  multioutput = input_type == 'multiclass-multioutput'
  if input_type not in ('multiclass', 'multiclass-multioutput'):
    raise ValueError(input_type)
  if vocab:
    classes = list(vocab)
  else:
    classes = []
    seen = set()
    for rows in (y_true, y_pred):
      for row in rows:
        for lab in (row if multioutput else [row]):
          if lab not in seen:
            seen.add(lab)
            classes.append(lab)
  if multioutput:
    true_sets = [set(r) for r in y_true]
    pred_sets = [set(list(r)[:k]) if k is not None else set(r) for r in y_pred]
  else:
    true_sets = [{v} for v in y_true]
    pred_sets = [{v} for v in y_pred]  # one prediction: any k >= 1 keeps it
  return classes, true_sets, pred_sets


def cell_counts(classes, true_sets, pred_sets):
  """Brute force: matrix[example][class] in {'tp','fp','fn','tn'}."""
  cells = []
  for t, p in zip(true_sets, pred_sets):
    row = []
    for c in classes:
      it, ip = c in t, c in p
      row.append('tp' if it and ip else 'fp' if ip else 'fn' if it else 'tn')
    cells.append(row)
  return cells


def _tally(kinds):
  out = {'tp': 0, 'tn': 0, 'fp': 0, 'fn': 0}
  for kd in kinds:
    out[kd] += 1
  return out


def counts(average, classes, cells):
  """-> a dict of ints (binary/micro) or a list of such dicts (macro/samples)."""
  if average in ('binary', 'micro'):
    return _tally(kd for row in cells for kd in row)
  if average == 'macro':
    return [_tally(row[j] for row in cells) for j in range(len(classes))]
  if average == 'samples':
    return [_tally(row) for row in cells]
  raise ValueError(average)


def rates(tp, tn, fp, fn):
  """All derived rates of one confusion matrix -> ({name: value}, {name: conv})."""
  vals, conv = {}, {}

  def put(names, fn_):
    c = cm.Conv()
    v = fn_(c)
    for nm in names:
      vals[nm] = v
      conv[nm] = c.used

  total = tp + tn + fp + fn
  put(('precision', 'ppv', 'positive_predictive_value'),
      lambda c: c.sdiv(tp, tp + fp))
  put(('recall', 'sensitivity', 'tpr'), lambda c: c.sdiv(tp, tp + fn))
  put(('specificity', 'tnr'), lambda c: c.sdiv(tn, tn + fp))
  put(('fall_out', 'fpr'), lambda c: c.sdiv(fp, fp + tn))
  put(('miss_rate', 'fnr'), lambda c: c.sdiv(fn, fn + tp))
  put(('negative_prediction_value', 'nvp'), lambda c: c.sdiv(tn, tn + fn))
  put(('false_discovery_rate',), lambda c: c.sdiv(fp, fp + tp))
  put(('false_omission_rate',), lambda c: c.sdiv(fn, fn + tn))
  put(('threat_score', 'intersection_over_union'),
      lambda c: c.sdiv(tp, tp + fn + fp))
  put(('binary_accuracy',), lambda c: c.sdiv(tp + tn, total))
  put(('prevalence',), lambda c: c.sdiv(tp + fn, total))
  put(('accuracy',), lambda c: Fraction(1 if tp > 0 else 0))

  def f1(c):
    p, r = c.sdiv(tp, tp + fp), c.sdiv(tp, tp + fn)
    return c.sdiv(2 * p * r, p + r)
  put(('f1_score',), f1)

  def plr(c):
    return c.sdiv(c.sdiv(tp, tp + fn), c.sdiv(fp, fp + tn))

  def nlr(c):
    return c.sdiv(c.sdiv(fn, fn + tp), c.sdiv(tn, tn + fp))
  put(('positive_likelihood_ratio',), plr)
  put(('negative_likelihood_ratio',), nlr)
  put(('diagnostic_odds_ratio',), lambda c: c.sdiv(plr(c), nlr(c)))

  def pt(c):
    tpr, tnr = c.sdiv(tp, tp + fn), c.sdiv(tn, tn + fp)
    num = cm.add(cm.dsqrt(tpr * (1 - tnr)), tnr - 1)
    den = tpr + tnr - 1
    if den == 0:
      c.used = True
      if (tp + fn) and (tn + fp):
        # tpr + tnr == 1 exactly with both rates defined: a floating-point
        # implementation must still recognise the zero denominator.
        conv['_pt_zero_den'] = True
      return Fraction(0)
    return c.sdiv(num, den)
  conv['_pt_zero_den'] = False
  put(('prevalence_threshold',), pt)

  def mcc(c):
    num = tp * tn - fp * fn
    prod = (tp + fp) * (tp + fn) * (tn + fp) * (tn + fn)
    if prod == 0:
      c.used = True
      return Fraction(0)
    return c.sdiv(num, cm.dsqrt(prod))
  put(('matthews_correlation_coefficient',), mcc)
  put(('informedness',),
      lambda c: c.sdiv(tp, tp + fn) + c.sdiv(tn, tn + fp) - 1)
  put(('markedness',),
      lambda c: c.sdiv(tp, tp + fp) + c.sdiv(tn, tn + fn) - 1)
  put(('balanced_accuracy',),
      lambda c: (c.sdiv(tp, tp + fn) + c.sdiv(tn, tn + fp)) / 2)
  return vals, conv


def closed_forms(tp, tn, fp, fn):
  """Textbook closed forms, only defined when every denominator is non-zero."""
  out = {}
  if fp and fn and (tp + fn) and (fp + tn):
    out['diagnostic_odds_ratio'] = Fraction(tp * tn, fp * fn)
  if fp and (tp + fn):
    out['positive_likelihood_ratio'] = Fraction(tp * (fp + tn), fp * (tp + fn))
  if tn and (tp + fn):
    out['negative_likelihood_ratio'] = Fraction(fn * (tn + fp), tn * (fn + tp))
  if 2 * tp + fp + fn and tp:
    out['f1_score'] = Fraction(2 * tp, 2 * tp + fp + fn)
  if (tp + fn) and (tn + fp):
    out['informedness'] = (Fraction(tp, tp + fn) - Fraction(fp, fp + tn))
    out['balanced_accuracy'] = (Fraction(tp, tp + fn) +
                                Fraction(tn, tn + fp)) / 2
  return out


def metric_values(average, cnt):
  """-> ({name: value}, {name: convention used anywhere})."""
  if average in ('binary', 'micro'):
    return rates(cnt['tp'], cnt['tn'], cnt['fp'], cnt['fn'])
  per = [rates(c['tp'], c['tn'], c['fp'], c['fn']) for c in cnt]
  vals, conv = {}, {}
  for name in DERIVED:
    if per:
      vals[name] = cm.mean(v[name] for v, _ in per)
      conv[name] = any(c[name] for _, c in per)
    else:
      vals[name] = Fraction(0)
      conv[name] = True
  conv['_pt_zero_den'] = any(c.get('_pt_zero_den') for _, c in per)
  return vals, conv


def oracle(config, y_true, y_pred):
  """Full expectation for one (config, input).

  config: input_type, average, pos_label, vocab (list | None), k_list
  Returns {'counts': .., 'values': {name: v | [v per k]}, 'conv': {name: bool},
           'classes': int, 'units': int}
  """
  it, av = config['input_type'], config['average']
  k_list = config.get('k_list')
  # One value per REQUESTED k, in the order of the request (duplicates kept):
  # the result is positional, so result[i] must belong to k_list[i].
  ks = list(k_list) if k_list else [None]
  per_k, cache = [], {}
  for k in ks:
    if k not in cache:
      classes, ts, ps = encode(it, y_true, y_pred, pos_label=config.get('pos_label', 1),
                               vocab=config.get('vocab'), average=av, k=k)
      cells = cell_counts(classes, ts, ps)
      cnt = counts(av, classes, cells)
      vals, conv = metric_values(av, cnt)
      cache[k] = (cnt, vals, conv, len(classes))
    per_k.append(cache[k])
  if k_list:
    values = {n: [p[1][n] for p in per_k] for n in DERIVED}
    conv = {n: any(p[2].get(n) for p in per_k)
            for n in DERIVED + ['_pt_zero_den']}
    cnts = [p[0] for p in per_k]
  else:
    cnts, values, conv, _ = per_k[0]
  return {'counts': cnts, 'values': values, 'conv': conv,
          'classes': per_k[0][3], 'units': len(y_true), 'ks': ks}
