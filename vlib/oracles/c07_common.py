"""C07 shared helpers: exact arithmetic, tolerant comparison, warning capture.

Nothing here imports the repository under test.
"""

from __future__ import annotations

import contextlib
import decimal
import fractions
import math
import warnings

Fraction = fractions.Fraction
Decimal = decimal.Decimal
CTX = decimal.Context(prec=60)

RTOL = 1e-9
ATOL = 1e-12


class Conv:
  """Records whether the 'division by zero gives 0' convention was applied."""

  def __init__(self):
    self.used = False

  def sdiv(self, a, b):
    """a / b, or 0 when b == 0 (documented convention), exact."""
    if b == 0:
      self.used = True
      return Fraction(0)
    if isinstance(a, Decimal) or isinstance(b, Decimal):
      return CTX.divide(to_dec(a), to_dec(b))
    return Fraction(a) / Fraction(b)


def to_dec(x) -> Decimal:
  if isinstance(x, Decimal):
    return x
  if isinstance(x, Fraction):
    return CTX.divide(Decimal(x.numerator), Decimal(x.denominator))
  if isinstance(x, float):
    return Decimal(x)  # exact
  return Decimal(int(x))


def dsqrt(x) -> Decimal:
  """sqrt with 60 significant digits (x >= 0, Fraction/int/Decimal)."""
  d = to_dec(x)
  if d < 0:
    raise ValueError('sqrt of negative')
  return CTX.sqrt(d)


def dln(x) -> Decimal:
  return CTX.ln(to_dec(x))


_LN2 = CTX.ln(Decimal(2))


def dlog2(x) -> Decimal:
  return CTX.divide(dln(x), _LN2)


def add(a, b):
  if isinstance(a, Decimal) or isinstance(b, Decimal):
    return CTX.add(to_dec(a), to_dec(b))
  return Fraction(a) + Fraction(b)


def sub(a, b):
  if isinstance(a, Decimal) or isinstance(b, Decimal):
    return CTX.subtract(to_dec(a), to_dec(b))
  return Fraction(a) - Fraction(b)


def mul(a, b):
  if isinstance(a, Decimal) or isinstance(b, Decimal):
    return CTX.multiply(to_dec(a), to_dec(b))
  return Fraction(a) * Fraction(b)


def mean(values):
  """Exact (or 60-digit) arithmetic mean of a non-empty list."""
  values = list(values)
  total = Fraction(0)
  for v in values:
    total = add(total, v)
  if isinstance(total, Decimal):
    return CTX.divide(total, Decimal(len(values)))
  return total / len(values)


def to_float(x) -> float:
  if x is None:
    return float('nan')
  if isinstance(x, float):
    return x
  if isinstance(x, Fraction):
    return x.numerator / x.denominator  # correctly rounded
  if isinstance(x, Decimal):
    return float(x)
  return float(x)


def frac(x) -> Fraction:
  """Exact rational value of a python int/float/bool."""
  if isinstance(x, bool):
    return Fraction(int(x))
  return Fraction(x)


def is_nan(x) -> bool:
  try:
    return x is None or (isinstance(x, float) and math.isnan(x)) or (
        isinstance(x, Decimal) and x.is_nan())
  except Exception:  # pylint: disable=broad-exception-caught
    return False


def close(got, want, scale: float = 1.0, rtol: float = RTOL,
          atol: float = ATOL) -> bool:
  """|got - want| <= atol * scale + rtol * |want|; NaN equals NaN."""
  try:
    g = float(got)
  except Exception:  # pylint: disable=broad-exception-caught
    return False
  w = to_float(want)
  if math.isnan(w) or math.isnan(g):
    return math.isnan(w) and math.isnan(g)
  if math.isinf(w) or math.isinf(g):
    return w == g
  return abs(g - w) <= atol * max(scale, 1e-300) + rtol * abs(w)


def seq_close(got, want, scale: float = 1.0, **kw) -> bool:
  """Element-wise close for flat sequences (length must agree)."""
  try:
    got = list(got)
  except TypeError:
    return False
  want = list(want)
  if len(got) != len(want):
    return False
  return all(close(g, w, scale, **kw) for g, w in zip(got, want))


def jsonable(x):
  """numpy / exotic values -> plain python for violation details."""
  try:
    import numpy as np  # container only
  except Exception:  # pylint: disable=broad-exception-caught
    np = None
  if isinstance(x, (Fraction, Decimal)):
    return to_float(x)
  if np is not None:
    if isinstance(x, np.ndarray):
      return [jsonable(v) for v in x.tolist()]
    if isinstance(x, np.generic):
      return x.item()
  if isinstance(x, dict):
    return {str(k): jsonable(v) for k, v in x.items()}
  if isinstance(x, (list, tuple)):
    return [jsonable(v) for v in x]
  if isinstance(x, (int, float, str, bool)) or x is None:
    return x
  return repr(x)


class Mis:
  """Collects the mismatches of one case; one violation per (kind, mechanism)."""

  def __init__(self):
    self.items = {}

  def add(self, kind, mechanism, detail):
    self.items.setdefault((kind, mechanism), []).append(jsonable(detail))

  def flush(self, ctx, case):
    for (kind, mech), details in self.items.items():
      ctx.violation(kind, case, {'n': len(details), 'first': details[:4]},
                    mechanism=mech)
      ctx.count('viol:' + (mech or kind))
    return bool(self.items)


def norm_keys(d):
  """Result dicts are keyed by StrEnum members; normalise to plain str."""
  return {str(getattr(k, 'value', k)): v for k, v in d.items()}


def same_value(a, b) -> bool:
  """Two library values agree (tolerance; NaN == NaN; shapes must agree)."""
  import numpy as np  # container only
  a, b = np.asarray(a, dtype=float), np.asarray(b, dtype=float)
  if a.shape != b.shape:
    return False
  return all(close(x, y) for x, y in zip(a.ravel().tolist(), b.ravel().tolist()))


def bitwise_equal(a, b) -> bool:
  import numpy as np  # container only
  a, b = np.asarray(a), np.asarray(b)
  return a.shape == b.shape and bool(np.array_equal(a, b, equal_nan=True))


@contextlib.contextmanager
def observed_warnings(ctx, where: str):
  """Runs library code; numpy RuntimeWarnings become observations."""
  with warnings.catch_warnings(record=True) as rec:
    warnings.simplefilter('always')
    yield
  for w in rec:
    if issubclass(w.category, RuntimeWarning):
      ctx.observe('RuntimeWarning@' + where, str(w.message)[:120])
    elif issubclass(w.category, (FutureWarning, DeprecationWarning)):
      ctx.observe(w.category.__name__ + '@' + where, str(w.message)[:120])
