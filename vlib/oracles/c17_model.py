"""C17 reference model: eager twin interpreter + reference LRU + expression generator.

Expression nodes are tuples:

  ('c', value)                                   plain constant
  ('t', value, lazy)                             trace(value[, lazy_result=True])
  ('ref', slot)                                  a LazyObject reference obtained earlier
  ('call', fname, args, kwargs, cache, lazy)     trace(LIB[fname])(*args, **kwargs, flags)
  ('callres', of, args, kwargs, cache, lazy)     <of>(*args, **kwargs, flags)
  ('attr', of, name)                             <of>.name
  ('item', of, key)                              <of>[key]

args is a tuple of nodes, kwargs a tuple of (name, node). `Model` never imports the
repository: it evaluates the same callables eagerly (WORLD 'eager') in Python's own
evaluation order and predicts hit / miss / evict of both bounded caches with `RefLRU`.
"""

from __future__ import annotations

import collections
import operator

from vlib.oracles import c17_lib as lib


class Missing(Exception):
  """Model twin of LazyObjectMissingError."""


class RefTok:
  """Model twin of a LazyObject reference (lazy_result_=True)."""

  def __init__(self, serial):
    self.serial = serial

  def __repr__(self):
    return f'RefTok({self.serial})'


class RefLRU:
  """Reference LRU: the ~15 lines the real LruCache is compared against."""

  def __init__(self, maxsize):
    self.maxsize, self.d = maxsize, collections.OrderedDict()
    self.hits = self.misses = self.evictions = 0

  def get(self, key):
    if key not in self.d:
      self.misses += 1
      raise KeyError(key)
    self.hits += 1
    self.d.move_to_end(key)
    return self.d[key]

  def put(self, key, value):
    self.d[key] = value
    self.d.move_to_end(key)
    if len(self.d) > self.maxsize:
      self.d.popitem(last=False)
      self.evictions += 1

  def clear(self):
    self.d.clear()
    self.hits = self.misses = 0

  def info(self):
    return (self.hits, self.misses, len(self.d), self.maxsize)


# ---------------------------------------------------------------------------
# Structure helpers
# ---------------------------------------------------------------------------


def show(n):
  t = n[0]
  if t == 'c':
    return repr(n[1])
  if t == 't':
    return f'trace({n[1]!r}{", lazy_result=True" if n[2] else ""})'
  if t == 'ref':
    return f'<ref {n[1]}>'
  if t in ('call', 'callres'):
    head = n[1] if t == 'call' else '(' + show(n[1]) + ')'
    parts = [show(a) for a in n[2]] + [f'{k}={show(v)}' for k, v in n[3]]
    if n[4]:
      parts.append('cache_result_=True')
    if n[5]:
      parts.append('lazy_result_=True')
    return f'{head}({", ".join(parts)})'
  if t == 'attr':
    return f'{show(n[1])}.{n[2]}'
  if t == 'item':
    return f'{show(n[1])}[{n[2]!r}]'
  raise ValueError(t)


def depth(n):
  t = n[0]
  if t in ('c', 't', 'ref'):
    return 0
  if t in ('call', 'callres'):
    kids = list(n[2]) + [v for _, v in n[3]]
    if t == 'callres':
      kids.append(n[1])
    return 1 + max([depth(k) for k in kids] or [0])
  return 1 + depth(n[1])


def has_cached(n):
  t = n[0]
  if t in ('c', 't', 'ref'):
    return False
  if t in ('call', 'callres'):
    kids = list(n[2]) + [v for _, v in n[3]] + ([n[1]] if t == 'callres' else [])
    return bool(n[4]) or any(has_cached(k) for k in kids)
  return has_cached(n[1])


def skey(n, serial_of_slot=None):
  """Structural identity of an expression: callable + arguments, flags ignored."""
  t = n[0]
  if t == 'c':
    if isinstance(n[1], lib.Cfg):
      return ('cfg', n[1].tag)     # one Cfg object per tag and history; copies keep the tag
    return ('c', n[1])
  if t == 't':
    return ('t', n[1])
  if t == 'ref':
    return ('ref', serial_of_slot[n[1]])
  if t == 'call':
    head = ('traced', n[1])
  elif t == 'callres':
    head = skey(n[1], serial_of_slot)
  elif t == 'attr':
    return ('call', 'getattr', (skey(n[1], serial_of_slot), ('c', n[2])), ())
  elif t == 'item':
    return ('call', 'getitem', (skey(n[1], serial_of_slot), ('c', n[2])), ())
  else:
    raise ValueError(t)
  return ('call', head, tuple(skey(a, serial_of_slot) for a in n[2]),
          tuple((k, skey(v, serial_of_slot)) for k, v in n[3]))


def real_skey(x, serial_of_id, lazy_fns):
  """The same structural key read off a real LazyFn / LazyObject / constant."""
  if isinstance(x, lazy_fns.LazyFn):
    v = x.value
    if v is getattr:
      head = 'getattr'
    elif v is operator.getitem:
      head = 'getitem'
    elif isinstance(v, lazy_fns.LazyFn):
      head = real_skey(v, serial_of_id, lazy_fns)
    elif isinstance(v, lazy_fns.LazyObject) and v.cache_result:
      head = ('ref', serial_of_id.get(v.id, ('unknown', v.id)))
    elif isinstance(v, lazy_fns.LazyObject):
      head = ('traced', lib.local_name(v.value) or getattr(v.value, '__name__', repr(v.value)))
    else:
      head = ('plain', repr(v))
    return ('call', head,
            tuple(real_skey(a, serial_of_id, lazy_fns) for a in x.args),
            tuple((k, real_skey(a, serial_of_id, lazy_fns)) for k, a in x.kwargs))
  if isinstance(x, lazy_fns.LazyObject):
    if x.cache_result:
      return ('ref', serial_of_id.get(x.id, ('unknown', x.id)))
    return ('t', x.value)
  if isinstance(x, lib.Cfg):
    return ('cfg', x.tag)
  return ('c', x)


# ---------------------------------------------------------------------------
# Real-side builder
# ---------------------------------------------------------------------------


def build(n, lazy_fns, refs=None, explicit_false=False):
  t = n[0]
  if t == 'c':
    return n[1]
  if t == 't':
    return lazy_fns.trace(n[1], lazy_result=True) if n[2] else lazy_fns.trace(n[1])
  if t == 'ref':
    return refs[n[1]]
  if t in ('call', 'callres'):
    head = lazy_fns.trace(lib.callee(n[1])) if t == 'call' else \
        build(n[1], lazy_fns, refs, explicit_false)
    # Structurally equal argument nodes of one call share ONE lazy object (as in
    # `t = trace(counter)(); trace(pair)(t, t)`); every occurrence must still be
    # evaluated on its own, exactly like the eager expression.
    shared = {}

    def b(a):
      key = repr(a)
      if key not in shared:
        shared[key] = build(a, lazy_fns, refs, explicit_false)
      return shared[key]

    args = [b(a) for a in n[2]]
    kwargs = {k: b(v) for k, v in n[3]}
    if n[4] or explicit_false:
      kwargs['cache_result_'] = bool(n[4])
    if n[5] or explicit_false:
      kwargs['lazy_result_'] = bool(n[5])
    return head(*args, **kwargs)
  if t == 'attr':
    return getattr(build(n[1], lazy_fns, refs, explicit_false), n[2])
  if t == 'item':
    return build(n[1], lazy_fns, refs, explicit_false)[n[2]]
  raise ValueError(t)


# ---------------------------------------------------------------------------
# The model
# ---------------------------------------------------------------------------


class Model:
  """Eager twin with the two bounded caches predicted by RefLRU."""

  def __init__(self, fn_max=128, obj_max=1024):
    self.fn = RefLRU(fn_max)
    self.obj = RefLRU(obj_max)
    self.serial = 0
    self.slot_serial = []      # slot -> serial | None
    self.last_root_hit = None  # did the last root-level cached lookup hit?
    self.insertions = 0        # every insertion into the LazyFn cache gets a number
    self.generation = {}       # structural key -> number of its latest insertion

  # -- object cache ------------------------------------------------------------
  def obj_insert(self, value):
    self.serial += 1
    self.obj.put(self.serial, value)
    return self.serial

  def obj_get(self, serial):
    try:
      return self.obj.get(serial)
    except KeyError:
      raise Missing(serial) from None

  # -- evaluation ----------------------------------------------------------------
  def make(self, n):
    """maybe_make(expr) for a root expression."""
    self.last_root_hit = None
    v = self._eval(n, root=True)
    return v

  def _eval(self, n, root=False, chain_parent=False):
    """Value of node n as `_maybe_make(n)` sees it.

    For a lazy-flagged node the value is a RefTok (root) or, under an
    attr/item/call chain parent, the pair handled by `_eval_of`.
    """
    t = n[0]
    if t == 'c':
      return n[1]
    if t == 't':
      if n[2]:
        return RefTok(self.obj_insert(n[1]))
      return n[1]
    if t == 'ref':
      serial = self.slot_serial[n[1]]
      return self.obj_get(serial)
    if t in ('call', 'callres'):
      cached = n[4]
      if cached:
        key = skey(n, self.slot_serial)
        try:
          v = self.fn.get(key)
          if root:
            self.last_root_hit = True
          return v
        except KeyError:
          if root:
            self.last_root_hit = False
      v = self._compute_call(n)
      if n[5]:
        v = RefTok(self.obj_insert(v))
      if cached:
        self.fn.put(key, v)
        self.insertions += 1
        self.generation[key] = self.insertions
      return v
    if t == 'attr':
      pending = []
      obj = self._eval_of(n[1], pending)
      obj = self._settle(obj, pending)
      return getattr(obj, n[2])
    if t == 'item':
      pending = []
      obj = self._eval_of(n[1], pending)
      obj = self._settle(obj, pending)
      return obj[n[2]]
    raise ValueError(t)

  def _eval_of(self, of, pending):
    """Evaluates the head of a chain; a lazy head leaves a reference to dereference."""
    v = self._eval(of)
    if isinstance(v, RefTok):
      pending.append(v.serial)
    return v

  def _settle(self, v, pending):
    # Chained access on a reference dereferences it (object-cache lookup).
    if pending:
      return self.obj_get(pending[0])
    return v

  def _compute_call(self, n):
    t = n[0]
    pending = []
    if t == 'call':
      fn = lib.callee(n[1])
    else:
      fn = self._eval_of(n[1], pending)
    args = [self._eval(a) for a in n[2]]
    kwargs = {k: self._eval(v) for k, v in n[3]}
    fn = self._settle(fn, pending)
    return fn(*args, **kwargs)


# ---------------------------------------------------------------------------
# Generators
# ---------------------------------------------------------------------------

# -1/-2 and n / n + 2**61 - 1 have colliding hashes in CPython: distinct cached
# expressions must stay distinct even when their hashes collide.
CONSTS = [0, 1, 2, 3, 5, 8, 'a', 'b', 'ab', (1, 2), ('a', 1), None,
          -1, -2, 2**61 - 1, 2**61, (-1, 'a'), (-2, 'a')]
UNHASHABLE = [[1, 2], {'k': 1}, [], [('a',)]]
KW = ['k', 'm', 'z']


def _const(rng, opts):
  if opts.get('unhashable') and rng.random() < 0.3:
    import copy
    return ('c', copy.deepcopy(rng.choice(UNHASHABLE)))
  return ('c', rng.choice(CONSTS))


def _flags(rng, opts, lazy_ok):
  cache = bool(opts.get('cache')) and rng.random() < opts.get('p_cache', 0.3)
  lazy = (not cache) and lazy_ok and rng.random() < opts.get('p_lazy', 0.2)
  return cache, lazy


def gen_any(rng, d, opts, root=False):
  """A node whose value is a plain value (tuples / ints / strs / instances)."""
  if d <= 0 or (not root and rng.random() < 0.2):
    if rng.random() < 0.2 and not opts.get('unhashable'):
      return ('t', rng.choice(CONSTS), False)
    return _const(rng, opts)
  choices = ['pure', 'pure', 'pure']
  if d >= 2:
    choices += ['box_attr', 'box_item', 'box_call', 'acc_item', 'acc_call', 'acc_total']
  if d >= 3:
    choices += ['box_get', 'acc_add', 'box_times_attr']
  c = rng.choice(choices)
  if c == 'pure':
    fname = rng.choice(['f', 'g', 'pick', 'bump', 'tagged', 'const7', 'f', 'bump'])
    cache, lazy = _flags(rng, opts, root)
    if fname == 'const7':
      return ('call', fname, (), (), cache, lazy)
    if fname == 'pick':
      return ('call', fname, (gen_any(rng, d - 1, opts),),
              (('i', ('c', rng.choice([0, 1, 2]))),) if rng.random() < 0.5 else (),
              cache, lazy)
    if fname == 'tagged':
      args = (gen_any(rng, d - 1, opts),)
      kw = (('tag', ('c', rng.choice(['u', 'v']))),) if rng.random() < 0.5 else ()
      return ('call', fname, args, kw, cache, lazy)
    if fname == 'bump':
      args = (('c', rng.choice(['t', 's', 1])),) + tuple(
          gen_any(rng, d - 1, opts) for _ in range(rng.randint(0, 2)))
      return ('call', fname, args, (), cache, lazy)
    args = tuple(gen_any(rng, d - 1, opts) for _ in range(rng.randint(0, 3)))
    names = rng.sample(KW, rng.randint(0, 2))
    kw = tuple((k, gen_any(rng, d - 1, opts)) for k in names)
    if args and rng.random() < 0.25:
      # the same sub-expression passed twice (positionally and/or by keyword)
      dup = rng.choice(args)
      if rng.random() < 0.5 or len(names) == len(KW):
        args = args + (dup,)
      else:
        kw = kw + ((rng.choice([k for k in KW if k not in names]), dup),)
    return ('call', fname, args, kw, cache, lazy)
  if c == 'box_attr':
    return ('attr', gen_box(rng, d - 1, opts, chain=True), rng.choice(['w', 'scale']))
  if c == 'box_item':
    return ('item', gen_box(rng, d - 1, opts, chain=True), rng.choice(CONSTS[:9]))
  if c == 'box_call':
    cache, lazy = _flags(rng, opts, root)
    args = (gen_any(rng, d - 2, opts),) if rng.random() < 0.7 else ()
    kw = (('q', gen_any(rng, d - 2, opts)),) if rng.random() < 0.3 else ()
    return ('callres', gen_box(rng, d - 1, opts, chain=True), args, kw, cache, lazy)
  if c == 'box_get':
    cache, lazy = _flags(rng, opts, root)
    return ('callres', ('attr', gen_box(rng, d - 2, opts, chain=True), 'get'), (), (),
            cache, lazy)
  if c == 'box_times_attr':
    return ('attr', gen_box(rng, d - 1, opts, chain=True), 'w')
  if c == 'acc_item':
    return ('item', gen_acc(rng, opts, chain=True), rng.choice([0, 1, 'a']))
  if c == 'acc_call':
    cache, lazy = _flags(rng, opts, root)
    return ('callres', gen_acc(rng, opts, chain=True), (('c', rng.choice([1, 2, 5])),), (),
            cache, lazy)
  if c == 'acc_total':
    return ('attr', gen_acc(rng, opts, chain=True), rng.choice(['total', 'n']))
  if c == 'acc_add':
    cache, lazy = _flags(rng, opts, root)
    return ('callres', ('attr', gen_acc(rng, opts, chain=True), 'add'),
            (('c', rng.choice([1, 2, 5])),), (), cache, lazy)
  raise ValueError(c)


def gen_box(rng, d, opts, chain=False):
  """A node whose value is a Box; `chain`: it is the head of an attr/item/call chain."""
  cache, lazy = _flags(rng, opts, chain)
  if d >= 3 and rng.random() < 0.3:
    inner = gen_box(rng, d - 2, opts, chain=True)
    return ('callres', ('attr', inner, 'times'), (('c', rng.choice([2, 3])),), (),
            cache, lazy)
  w = gen_any(rng, max(d - 1, 0), opts)
  if rng.random() < 0.5:
    return ('call', 'Box', (w,), (('scale', ('c', rng.choice([1, 2, 3]))),), cache, lazy)
  return ('call', 'Box', (), (('w', w),), cache, lazy)


def gen_acc(rng, opts, chain=False):
  cache, lazy = _flags(rng, opts, chain)
  if rng.random() < 0.5:
    return ('call', 'Acc', (('c', rng.choice([0, 10, 100])),), (), cache, lazy)
  return ('call', 'Acc', (), (('start', ('c', rng.choice([0, 10, 100]))),), cache, lazy)


def gen_tree(rng, max_depth=5):
  """One expression tree of depth <= max_depth with random legal flag combinations."""
  unhashable = rng.random() < 0.15
  opts = {'unhashable': unhashable, 'cache': not unhashable,
          'p_cache': rng.choice([0.0, 0.2, 0.4, 0.7]),
          'p_lazy': rng.choice([0.0, 0.3, 0.6])}
  for _ in range(20):
    d = rng.randint(1, max_depth)
    if rng.random() < 0.04:
      node = ('t', rng.choice(CONSTS), rng.random() < 0.5)
    else:
      node = gen_any(rng, d, opts, root=True)
    if depth(node) <= max_depth:
      return node
  return ('call', 'f', (('c', 1),), (), False, False)


def has_identity_hashed(n):
  """Does a CACHED call in n have a by-value callable ('lam:'/'clo:'/'par:') or a Cfg argument?"""
  t = n[0]
  if t in ('c', 't', 'ref'):
    return False
  if t in ('call', 'callres'):
    kids = list(n[2]) + [v for _, v in n[3]] + ([n[1]] if t == 'callres' else [])
    if n[4]:
      if t == 'call' and ':' in n[1]:
        return True
      if any(k[0] == 'c' and isinstance(k[1], lib.Cfg) for k in kids):
        return True
    return any(has_identity_hashed(k) for k in kids)
  return has_identity_hashed(n[1])


def gen_ident_pool(rng):
  """Small cached expressions whose callable or argument hashes by identity (+ controls)."""
  pool = []
  for i in range(rng.randint(2, 6)):
    byval = rng.choice(['lam', 'clo', 'par']) + ':'
    shape = rng.randrange(8)
    if shape == 0:
      node = ('call', byval + rng.choice(['tagged', 'f']), (('c', i),), (), True, False)
    elif shape == 1:
      extra = (('c', rng.choice(CONSTS[:9])),) if rng.random() < 0.4 else ()
      node = ('call', 'use_cfg', (('c', lib.Cfg(i)),) + extra, (), True, False)
    elif shape == 2:
      node = ('call', 'use_cfg', (), (('cfg', ('c', lib.Cfg(i))),), True, False)
    elif shape in (3, 4):
      # a cached by-value "model loader" with an uncached mutating call on the result
      node = ('callres', ('attr', ('call', byval + 'Acc', (('c', i),), (), True, False), 'add'),
              (('c', rng.choice([1, 2])),), (), False, False)
    elif shape == 5:
      node = ('call', 'g', (('c', i), ('call', byval + 'tagged', (('c', i),), (), True, False)),
              (), False, False)
    elif shape == 6:       # control: importable callable, plain argument
      node = ('call', 'tagged', (('c', i),), (), True, False)
    else:                  # control: importable cached model + mutation
      node = ('callres', ('attr', ('call', 'Acc', (('c', i),), (), True, False), 'add'),
              (('c', 1),), (), False, False)
    pool.append(node)
  return pool


def root_is_lazy(n):
  return (n[0] == 't' and n[2]) or (n[0] in ('call', 'callres') and n[5])
