"""C07: classification on realistic data-set sizes (150k - 400k examples).

case = {'family': 'clsbig',
        'config': {input_type, average, pos_label, vocab, n, nbatch},
        'input': {data_seed, labels, class_p, agree}}

The examples are not stored: `expand` regenerates them (vectorised, numpy
PCG64 stream of `data_seed`) from the sampling parameters, so a replay is
bit-exact. The oracle tallies the (true, predicted) pairs into python ints and
derives every rate with the exact Fraction / 60-digit Decimal formulas of
c07_classification (no fixed-width integer anywhere).
"""

from __future__ import annotations

import collections

from vlib.oracles import c07_classification as oc
from vlib.oracles import c07_common as cm

MCC = 'matthews_correlation_coefficient'
MCC_OVERFLOW = 'mcc-int64-overflow-large-counts'
INT64_MAX = 2 ** 63 - 1


def expand(config, inp):
  """-> (y_true, y_pred) numpy arrays (container only)."""
  import numpy as np
  n = config['n']
  g = np.random.Generator(np.random.PCG64(inp['data_seed']))
  cum = np.cumsum(np.asarray(inp['class_p'], dtype=float))
  ncls = len(cum)
  t = np.minimum(np.searchsorted(cum, g.random(n)), ncls - 1)
  keep = g.random(n) < inp['agree']
  p = np.where(keep, t, g.integers(0, ncls, n))
  if config['input_type'] == 'multiclass-indicator':
    eye = np.eye(ncls, dtype=np.int64)
    return eye[t], eye[p]
  labels = np.asarray(inp['labels'])
  return labels[t], labels[p]


def pair_counts(config, inp, y_true, y_pred):
  """-> {(true class index, predicted class index): python int}."""
  if config['input_type'] == 'multiclass-indicator':
    ti = [row.index(1) for row in y_true.tolist()]
    pi = [row.index(1) for row in y_pred.tolist()]
  else:
    index = {lab: i for i, lab in enumerate(inp['labels'])}
    ti = [index[v] for v in y_true.tolist()]
    pi = [index[v] for v in y_pred.tolist()]
  return dict(collections.Counter(zip(ti, pi)))


def class_matrices(config, inp, pairs):
  """One confusion matrix (python ints) per class of the problem, in the
  order of the library's class axis."""
  total = sum(pairs.values())
  ncls = len(inp['class_p'])

  def matrix(c):
    tp = pairs.get((c, c), 0)
    t = sum(v for (a, _), v in pairs.items() if a == c)
    p = sum(v for (_, b), v in pairs.items() if b == c)
    return {'tp': tp, 'fp': p - tp, 'fn': t - tp, 'tn': total - t - p + tp}

  it, av = config['input_type'], config['average']
  if it == 'binary':
    pos = inp['labels'].index(config['pos_label'])
    if av == 'binary':
      return [matrix(pos)]
    return [matrix(pos), matrix(1 - pos)]  # (positive, rest)
  if it == 'multiclass':
    return [matrix(inp['labels'].index(lab)) for lab in config['vocab']]
  return [matrix(c) for c in range(ncls)]


def expected(config, mats):
  av = config['average']
  if av in ('binary', 'micro'):
    cnt = {k: sum(m[k] for m in mats) for k in ('tp', 'tn', 'fp', 'fn')}
  else:
    cnt = mats
  vals, conv = oc.metric_values(av, cnt)
  return cnt, vals, conv


def overflows_int64(cnt):
  """Input class of MCC_OVERFLOW: a product of the MCC formula written with
  the raw counts does not fit a signed 64-bit integer."""
  mats = cnt if isinstance(cnt, list) else [cnt]
  for m in mats:
    tp, tn, fp, fn = m['tp'], m['tn'], m['fp'], m['fn']
    prod = (tp + fp) * (tp + fn) * (tn + fp) * (tn + fn)
    if max(prod, tp * tn, fp * fn) > INT64_MAX:
      return True
  return False


def check(ctx, case):
  import numpy as np
  from ml_metrics._src.aggregates import classification as agg
  from ml_metrics._src.metrics import classification as mc

  config, inp = case['config'], case['input']
  y_true, y_pred = expand(config, inp)
  pairs = pair_counts(config, inp, y_true, y_pred)
  mats = class_matrices(config, inp, pairs)
  cnt, vals, conv = expected(config, mats)
  overflow = overflows_int64(cnt)
  mis = cm.Mis()
  ctx.case(('clsbig', config, inp), True)
  ctx.count('clsbig_cases')
  if overflow:
    ctx.count('clsbig_int64_product_cases')
  vocab = config.get('vocab')
  kw = dict(pos_label=config['pos_label'], input_type=config['input_type'],
            average=config['average'],
            vocab={lab: i for i, lab in enumerate(vocab)} if vocab else None)
  others = [m for m in oc.DERIVED if m not in (MCC, 'accuracy')]
  mcc_mech = MCC_OVERFLOW if overflow else None

  def guarded(path, fn, mech=None):
    try:
      with cm.observed_warnings(ctx, 'clsbig'):
        return True, fn()
    except Exception as e:  # pylint: disable=broad-exception-caught
      mis.add('raised', mech, {'path': path, 'error': repr(e)[:300]})
      return False, None

  def compare(res, names, path, mech=None):
    for name in names:
      ctx.count('clsbig_mcc_checks' if name == MCC else 'clsbig_value_checks')
      got = res.get(name) if isinstance(res, dict) else res
      if not (np.ndim(got) == 0 and cm.close(got, vals[name])):
        mis.add('value_mismatch', mech,
                {'metric': name, 'path': path, 'got': got, 'want': vals[name]})
      elif name in oc.SIGNED_RANGE and not -1 - 1e-12 <= float(got) <= 1 + 1e-12:
        mis.add('out_of_range', mech, {'metric': name, 'got': got})

  # --- one shot, every rate but MCC, then MCC on its own ------------------------
  ok, res = guarded('ClassificationAggFn.__call__', lambda: cm.norm_keys(
      mc.ClassificationAggFn(others, **kw)(y_true, y_pred)))
  if ok:
    compare(res, others, 'agg_call')
  ok, res = guarded('ClassificationAggFn.__call__[mcc]', lambda: cm.norm_keys(
      mc.ClassificationAggFn([MCC], **kw)(y_true, y_pred)), mcc_mech)
  if ok:
    compare(res, [MCC], 'agg_call', mcc_mech)
  ok, got = guarded('fn:' + MCC, lambda: getattr(mc, MCC)(y_true, y_pred, **kw), mcc_mech)
  if ok:
    compare(got, [MCC], 'function', mcc_mech)
  for name in ('precision', 'recall', 'f1_score', 'binary_accuracy', 'informedness'):
    ok, got = guarded('fn:' + name, lambda name=name: getattr(mc, name)(
        y_true, y_pred, **kw))
    if ok:
      compare(got, [name], 'function')

  # --- accumulated over nbatch batches: counts, then the rates ---------------------
  fn_all = agg.ConfusionMatrixAggFn(metrics=others, **kw)
  fn_mcc = agg.ConfusionMatrixAggFn(metrics=[MCC], **kw)
  bounds = [round(i * config['n'] / config['nbatch']) for i in range(config['nbatch'] + 1)]

  def accumulate():
    state = fn_all.create_state()
    for lo, hi in zip(bounds, bounds[1:]):
      state = fn_all.update_state(state, y_true[lo:hi], y_pred[lo:hi])
    return state

  ok, state = guarded('accumulator', accumulate)
  if ok:
    ctx.count('clsbig_accumulator_checks')
    for key in ('tp', 'tn', 'fp', 'fn'):
      got = np.asarray(getattr(state, key)).ravel().tolist()
      want = [m[key] for m in cnt] if isinstance(cnt, list) else [cnt[key]]
      ctx.count('clsbig_count_checks')
      if [int(v) for v in got] != want:
        mis.add('count_mismatch', None, {'count': key, 'got': got, 'want': want})
    ok, res = guarded('accumulator.get_result', lambda: cm.norm_keys(fn_all.get_result(state)))
    if ok:
      compare(res, others, 'accumulator')
    ok, res = guarded('accumulator.get_result[mcc]',
                      lambda: cm.norm_keys(fn_mcc.get_result(state)), mcc_mech)
    if ok:
      compare(res, [MCC], 'accumulator', mcc_mech)

  if not mis.flush(ctx, case) and len(ctx.samples) < 1:
    ctx.sample({'family': 'clsbig', 'config': config, 'input': inp,
                'counts': cnt, 'mcc': cm.jsonable(vals[MCC])})
