"""C07: rolling statistics family A - Mean / MeanAndVariance / Var,
MinMaxAndCount, Histogram, Counter, CalibrationHistogram.

case = {'family': 'stats', 'sub': <name>, 'config': {...}, 'input': {...}}
"""

from __future__ import annotations

import math

from vlib.oracles import c07_common as cm
from vlib.oracles import c07_stats as os_


def _scale(batches):
  m = 1.0
  for b in batches:
    for v in os_._flat(b):
      if isinstance(v, (int, float)) and not (
          isinstance(v, float) and (math.isnan(v) or math.isinf(v))):
        m = max(m, abs(v))
  return m


def _spread(batches):
  """max - min of the finite values: the natural scale of a (stable) variance."""
  lo, hi = None, None
  for b in batches:
    for v in os_._flat(b):
      if isinstance(v, (int, float)) and not (
          isinstance(v, float) and (math.isnan(v) or math.isinf(v))):
        lo = v if lo is None else min(lo, v)
        hi = v if hi is None else max(hi, v)
  if lo is None:
    return 1.0
  return max(hi - lo, 1e-6 * max(abs(hi), abs(lo), 1.0))


def _var_scale(scale, spread):
  """Scale of the variance tolerance: spread^2, plus the conditioning of the
  problem for data with a large common offset - a numerically stable float64
  algorithm (two-pass, Welford, pairwise merge) still carries means that are
  off by ~eps * scale, i.e. ~eps * scale * spread in the variance (about 9 eps
  with ATOL = 1e-12). A one-pass E[x^2] - mean^2 is off by ~eps * scale^2."""
  return spread * spread + 2e-3 * scale * spread


def _std_close(got, want, var_scale):
  """stddev = sqrt(var): an error dv of the variance becomes dv / (2 stddev)
  (sqrt(dv) when the data is constant)."""
  import numpy as np
  a = np.asarray(got, dtype=float)
  wants = want if isinstance(want, list) else [want]
  if a.ndim != (1 if isinstance(want, list) else 0) or a.size != len(wants):
    return False
  dv = cm.ATOL * var_scale
  for g, w in zip(a.ravel().tolist(), wants):
    wf = cm.to_float(w)
    if math.isnan(wf) or math.isnan(g):
      if not (math.isnan(wf) and math.isnan(g)):
        return False
      continue
    allowed = math.sqrt(dv) if wf * wf <= dv else dv / (2 * wf)
    if abs(g - wf) > allowed + cm.RTOL * abs(wf):
      return False
  return True


def _vec_close(got, want, scale):
  """got: scalar/array from the library; want: scalar or list from the oracle."""
  import numpy as np
  a = np.asarray(got, dtype=float)
  if isinstance(want, list):
    return a.ndim == 1 and cm.seq_close(a.tolist(), want, scale)
  return a.ndim == 0 and cm.close(a.item(), want, scale)


def _rows(batches):
  out = []
  for b in batches:
    out.extend(b)
  return out


def _all_nan_column_in_some_batch(batches):
  """A column that is all-NaN in one batch but has data in another."""
  if not batches or not isinstance(batches[0][0], (list, tuple)):
    return False
  ncol = len(batches[0][0])
  for j in range(ncol):
    flags = [all(isinstance(r[j], float) and math.isnan(r[j]) for r in b)
             for b in batches]
    if any(flags) and not all(flags):
      return True
  return False


def check_meanvar(ctx, case):
  """sub in mean / meanvar / var; input {'batches': [...]} (non-empty batches)."""
  import numpy as np
  from ml_metrics._src.aggregates import rolling_stats as rs
  from ml_metrics._src.metrics import rolling_stats as mrs

  if (case.get('config') or {}).get('inf'):
    return check_meanvar_inf(ctx, case)
  sub, batches = case['sub'], case['input']['batches']
  dtype = {'int32': np.int32, 'int64': np.int64}.get(
      (case.get('config') or {}).get('dtype'), float)
  if dtype is not float:
    ctx.count('stats_int_dtype_cases')
  cls = {'mean': rs.Mean, 'meanvar': rs.MeanAndVariance, 'var': rs.Var}[sub]
  score = (case.get('config') or {}).get('score')
  raw = batches  # what the library is handed
  if score:
    # Non-default configuration: batch_score_fn (element-wise, exact in floats).
    # The definition: the statistics of the scored values.
    ctx.count('stats_configured_mean_cases')
    score_np = {'abs': np.abs, 'neg': np.negative, 'half': _half}[score]
    score_py = {'abs': abs, 'neg': lambda v: -v, 'half': lambda v: v * 0.5}[score]
    batches = [_map_values(score_py, b) for b in raw]
    base_cls = cls
    cls = lambda: base_cls(batch_score_fn=score_np)
  scale = _scale(batches)
  spread = _spread(batches)
  mis = cm.Mis()
  has_nan = any(isinstance(v, float) and math.isnan(v)
                for b in batches for v in os_._flat(b))
  ctx.case(('stats', sub, case['input']), len(_rows(batches)) >= 2)
  ctx.count('stats_meanvar_cases')
  if has_nan:
    ctx.count('stats_nan_cases')

  def fields(obj):
    if sub == 'mean':
      return {'mean': obj}
    if sub == 'var':
      return {'var': obj}
    return {k: getattr(obj, k) for k in ('mean', 'var', 'stddev', 'count', 'total')}

  def want_counts(want):
    c = want['count']
    return c if isinstance(c, list) else [c]

  def compare(got_fields, want, path, mech=None):
    for k, g in got_fields.items():
      ctx.count('stats_value_checks')
      sc = _var_scale(scale, spread) if k in ('var', 'stddev') else scale
      if k == 'total':
        sc = scale * max(1, len(_rows(batches)))
      w = want[k]
      if (isinstance(w, list) and np.ndim(g) == 0 and path != '__call__' and
          all(c == 0 for c in want_counts(want))):
        # Every value seen so far is NaN: the accumulator is still in its
        # scalar initial state (nan / 0). Same values, scalar shape: accepted.
        ctx.observe('all_nan_input_reported_as_scalar_initial_state')
        w = w[0] if w else float('nan')
      if not (_std_close if k == 'stddev' else _vec_close)(g, w, sc):
        mis.add('value_mismatch', mech,
                {'stat': k, 'path': path, 'got': g, 'want': w})

  first = batches[0]
  want_first = os_.nan_stats(first)
  want_all = os_.nan_stats(_rows(batches))
  arr = lambda b: np.asarray(b, dtype=dtype)
  try:
    with cm.observed_warnings(ctx, 'stats'):
      compare(fields(cls()(arr(raw[0]))), want_first, '__call__')
      compare(fields(cls().as_agg_fn()(arr(raw[0]))), want_first, 'agg_fn')
      m = cls()
      for b in raw:
        m.add(arr(b))
      mech = None
      if sub != 'mean' and len(batches) > 1 and _all_nan_column_in_some_batch(batches):
        mech = 'meanvar-merge-all-nan-column'
      ctx.count('stats_accumulator_checks')
      compare(fields(m.result()), want_all, 'accumulator', mech)
      # list input (not ndarray) through the one-shot function API
      fn_want = want_first
      for name in ('mean', 'var', 'stddev', 'count', 'total'):
        ctx.count('stats_function_api_checks')
        g = getattr(mrs, name)(first)
        sc = _var_scale(scale, spread) if name in ('var', 'stddev') else scale
        if name == 'total':
          sc = scale * len(first)
        if not (_std_close if name == 'stddev' else _vec_close)(g, fn_want[name], sc):
          mis.add('value_mismatch', None,
                  {'stat': name, 'path': 'metrics.rolling_stats', 'got': g,
                   'want': fn_want[name]})
  except Exception as e:  # pylint: disable=broad-exception-caught
    mis.add('raised', None, {'error': repr(e)[:300]})
  if not mis.flush(ctx, case) and len(ctx.samples) < 2:
    ctx.sample({'family': 'stats', 'sub': sub, 'input': case['input']})


def _half(batch):
  import numpy as np
  return np.asarray(batch) * 0.5


def _map_values(f, batch):
  return [[f(v) for v in r] if isinstance(r, (list, tuple)) else f(r) for r in batch]


KEY_INF_DROPPED = 'mean-variance-drops-batch-containing-inf'
KEY_INF_MINUS_INF = 'mean-merge-infinite-mean-then-finite-batch-gives-nan'


def check_meanvar_inf(ctx, case):
  """Input class: +inf / -inf among finite values, no NaN (config {'inf': True}).

  The values are regrouped into several batchings (as given, one batch, one row
  per batch, batches in reverse order, one accumulator per batch merged); every
  accumulator must count every value and report the mean / variance / total of
  the whole data in kind (finite value, +inf, -inf or NaN) - see
  c07_stats.column_stats. Mismatches are keyed per column by its input class:
  MeanAndVariance / Var with any inf in the column, or Mean with +inf and -inf
  in the column (some operand has values but a NaN statistic) vs. Mean with inf
  of one sign only (the mean is +-inf, nothing is NaN until the update formula
  subtracts infinities).
  """
  import numpy as np
  from ml_metrics._src.aggregates import rolling_stats as rs
  from ml_metrics._src.metrics import rolling_stats as mrs

  sub, batches = case['sub'], case['input']['batches']
  cls = {'mean': rs.Mean, 'meanvar': rs.MeanAndVariance, 'var': rs.Var}[sub]
  rows = _rows(batches)
  two_d = isinstance(rows[0], (list, tuple))
  cols = [[r[j] for r in rows] for j in range(len(rows[0]))] if two_d else [rows]
  scale, spread = _scale(batches), _spread(batches)
  mis = cm.Mis()
  ctx.case(('stats', sub, 'inf', case['input']), len(rows) >= 2)
  ctx.count('stats_meanvar_cases')
  ctx.count('stats_inf_cases')

  def key(j):
    cs = cols if j is None else [cols[j]]
    pos = any(math.inf in c for c in cs)
    neg = any(-math.inf in c for c in cs)
    if not (pos or neg):
      return None
    if sub != 'mean' or any(math.inf in c and -math.inf in c for c in cs):
      return KEY_INF_DROPPED
    return KEY_INF_MINUS_INF

  def compare(got_fields, want, path):
    for k, g in got_fields.items():
      sc = _var_scale(scale, spread) if k in ('var', 'stddev') else scale
      if k == 'total':
        sc = scale * max(1, len(rows))
      w = want[k]
      wl = w if isinstance(w, list) else [w]
      a = np.asarray(g, dtype=float)
      ctx.count('stats_value_checks')
      if a.shape != ((len(wl),) if isinstance(w, list) else ()):
        mis.add('value_mismatch', key(None),
                {'stat': k, 'path': path, 'got': g, 'want': w, 'why': 'shape'})
        continue
      for j, (gj, wj) in enumerate(zip(a.ravel().tolist(), wl)):
        ok = (_std_close(gj, wj, sc) if k == 'stddev' else cm.close(gj, wj, sc))
        if not ok:
          mis.add('value_mismatch', key(j if two_d else None),
                  {'stat': k, 'path': path, 'column': j if two_d else None,
                   'got': gj, 'want': wj})

  def result_fields(obj):
    if sub == 'mean':
      return {'mean': obj}
    if sub == 'var':
      return {'var': obj}
    return {k: getattr(obj, k) for k in ('mean', 'var', 'stddev', 'count', 'total')}

  def acc_fields(m):
    names = ('count', 'mean', 'total') + (() if sub == 'mean' else ('var', 'stddev'))
    return {k: getattr(m, k) for k in names}

  first = batches[0]
  want_first, want_all = os_.nan_stats(first), os_.nan_stats(rows)
  arr = lambda b: np.asarray(b, dtype=float)
  batchings = {'as given': batches, 'one batch': [rows],
               'row by row': [[r] for r in rows]}
  if len(batches) > 1:
    batchings['reversed'] = batches[::-1]
  try:
    with cm.observed_warnings(ctx, 'stats'):
      compare(result_fields(cls()(arr(first))), want_first, '__call__')
      compare(result_fields(cls().as_agg_fn()(arr(first))), want_first, 'agg_fn')
      for name, bs in batchings.items():
        m = cls()
        for b in bs:
          m.add(arr(b))
        ctx.count('stats_accumulator_checks')
        ctx.count('stats_inf_batching_checks')
        compare(acc_fields(m), want_all, f'accumulator[{name}]')
      if len(batches) > 1:
        parts = []
        for b in batches:
          m = cls()
          m.add(arr(b))
          parts.append(m)
        for other in parts[1:]:
          parts[0].merge(other)
        ctx.count('stats_accumulator_checks')
        compare(acc_fields(parts[0]), want_all, 'merge[one accumulator per batch]')
      for name in ('mean', 'var', 'stddev', 'count', 'total'):
        ctx.count('stats_function_api_checks')
        compare({name: getattr(mrs, name)(first)}, want_first, 'metrics.rolling_stats')
  except Exception as e:  # pylint: disable=broad-exception-caught
    mis.add('raised', key(None), {'error': repr(e)[:300]})
  mis.flush(ctx, case)


MINMAX_ZERO = 'minmax-max-initialised-at-zero'


def check_minmax(ctx, case):
  """config {'axis': None|0|-1, 'score': None|'len'|'sum'}; input {'batches'}
  (values of any sign; axis -1 and a score only with 1-D / scalar scores)."""
  import numpy as np
  from ml_metrics._src.aggregates import rolling_stats as rs

  config, batches = case['config'], case['input']['batches']
  axis, score = config.get('axis'), config.get('score')
  fn = {'len': len, 'sum': np.sum, None: None}[score]
  want = os_.min_max_count(batches, axis=axis, score=score)
  mis = cm.Mis()
  ctx.case(('stats', 'minmax', config, case['input']), len(batches) >= 2)
  ctx.count('stats_minmax_cases')

  def negative_max(want_):
    """Input class: the largest value (of some column) is below zero."""
    w = want_['max']
    return any(v < 0 for v in (w if isinstance(w, list) else [w]))

  if negative_max(want):
    ctx.count('stats_minmax_negative_max_cases')
  scale = max(1.0, max(abs(float(v)) for b in batches for v in os_._flat(b)))

  def compare(obj, want_, path):
    for k in ('count', 'min', 'max'):
      ctx.count('stats_value_checks')
      if not _vec_close(getattr(obj, k), want_[k], scale):
        mech = MINMAX_ZERO if k == 'max' and negative_max(want_) else None
        mis.add('value_mismatch', mech,
                {'stat': k, 'path': path, 'got': getattr(obj, k), 'want': want_[k]})

  try:
    with cm.observed_warnings(ctx, 'stats'):
      m = rs.MinMaxAndCount(batch_score_fn=fn, axis=axis)
      for b in batches:
        m.add(b)
      compare(m.result(), want, 'accumulator')
      one = rs.MinMaxAndCount(batch_score_fn=fn, axis=axis).as_agg_fn()(batches[0])
      compare(one, os_.min_max_count(batches[:1], axis=axis, score=score), 'agg_fn')
      if len(batches) > 1:
        # merge of per-batch accumulators (shards)
        parts = [rs.MinMaxAndCount(batch_score_fn=fn, axis=axis).add(b) for b in batches]
        for other in parts[1:]:
          parts[0].merge(other)
        ctx.count('stats_accumulator_checks')
        compare(parts[0].result(), want, 'merge')
  except Exception as e:  # pylint: disable=broad-exception-caught
    mis.add('raised', None, {'error': repr(e)[:300]})
  mis.flush(ctx, case)


def check_histogram(ctx, case):
  """config {'range': [lo, hi] | None, 'bins': int | [edges]};
  input {'batches': [[values]], 'weights': [[w]] | None}."""
  import numpy as np
  from ml_metrics._src.aggregates import rolling_stats as rs

  config, inp = case['config'], case['input']
  batches, weights = inp['batches'], inp.get('weights')
  rng_, bins = config.get('range'), config['bins']
  if isinstance(bins, int):
    edges = os_.uniform_edges(rng_[0], rng_[1], bins)
  else:
    edges = [cm.frac(e) for e in bins]
  mis = cm.Mis()
  ctx.case(('stats', 'hist', config, inp), sum(len(b) for b in batches) >= 2)
  ctx.count('stats_hist_cases')
  kw = dict(range=tuple(rng_) if rng_ else None, bins=bins)

  def compare(res, vals, wts, path):
    want = os_.histogram(vals, edges, wts)
    ctx.count('stats_value_checks')
    if not _vec_close(res.hist, want, 1.0):
      mis.add('value_mismatch', None,
              {'path': path, 'got': res.hist, 'want': want})
    if not _vec_close(res.bin_edges, edges, max(1.0, float(abs(edges[-1])))):
      mis.add('value_mismatch', None,
              {'path': path, 'bin_edges': res.bin_edges, 'want': edges})

  try:
    with cm.observed_warnings(ctx, 'stats'):
      w0 = weights[0] if weights else None
      args0 = (batches[0],) if w0 is None else (batches[0], w0)
      compare(rs.Histogram(**kw)(*args0), batches[0], w0, '__call__')
      compare(rs.Histogram(**kw).as_agg_fn()(*args0), batches[0], w0, 'agg_fn')
      m = rs.Histogram(**kw)
      for i, b in enumerate(batches):
        if weights:
          m.add(b, weights[i])
        else:
          m.add(b)
      allw = [w for ws in weights for w in ws] if weights else None
      ctx.count('stats_accumulator_checks')
      compare(m.result(), _rows(batches), allw, 'accumulator')
  except Exception as e:  # pylint: disable=broad-exception-caught
    mis.add('raised', None, {'error': repr(e)[:300]})
  if not mis.flush(ctx, case) and len(ctx.samples) < 3:
    ctx.sample({'family': 'stats', 'sub': 'hist', 'config': config, 'input': inp})


def check_counter(ctx, case):
  from ml_metrics._src.aggregates import rolling_stats as rs
  batches = case['input']['batches']
  mis = cm.Mis()
  ctx.case(('stats', 'counter', case['input']), len(batches) >= 2)
  ctx.count('stats_counter_cases')
  try:
    m = rs.Counter()
    for b in batches:
      m.add(b)
    ctx.count('stats_value_checks')
    if dict(m.result()) != os_.counter(_rows(batches)):
      mis.add('value_mismatch', None, {'got': dict(m.result())})
    for path, got in (('__call__', rs.Counter()(batches[0])),
                      ('agg_fn', rs.Counter().as_agg_fn()(batches[0]))):
      ctx.count('stats_value_checks')
      if dict(got) != os_.counter(batches[0]):
        mis.add('value_mismatch', None, {'path': path, 'got': dict(got)})
  except Exception as e:  # pylint: disable=broad-exception-caught
    mis.add('raised', None, {'error': repr(e)[:300]})
  mis.flush(ctx, case)


def check_calibration(ctx, case):
  """config {'range': [lo, hi], 'bins': int}; input {'batches': [[labels, preds]]}."""
  from ml_metrics._src.metrics import classification as mc
  config, inp = case['config'], case['input']
  lo, hi = config['range']
  bins = config['bins']
  batches = inp['batches']
  labels = [v for lb, _ in batches for v in lb]
  preds = [v for _, pr in batches for v in pr]
  want = os_.calibration(labels, preds, lo, hi, bins)
  mis = cm.Mis()
  ctx.case(('stats', 'calib', config, inp), len(labels) >= 2)
  ctx.count('stats_calibration_cases')
  try:
    with cm.observed_warnings(ctx, 'stats'):
      m = mc.CalibrationHistogram(range=(lo, hi), bins=bins)
      for lb, pr in batches:
        m.add(lb, pr)
      res = m.result()
    sc = max(1.0, abs(lo), abs(hi))
    for k in ('num_examples_hist', 'labels_hist', 'predictions_hist', 'bin_edges'):
      ctx.count('stats_value_checks')
      if not _vec_close(getattr(res, k), want[k], sc * max(1, len(labels))):
        mis.add('value_mismatch', None,
                {'field': k, 'got': getattr(res, k), 'want': want[k]})
  except Exception as e:  # pylint: disable=broad-exception-caught
    mis.add('raised', None, {'error': repr(e)[:300]})
  if not mis.flush(ctx, case) and len(ctx.samples) < 4:
    ctx.sample({'family': 'stats', 'sub': 'calib', 'config': config, 'input': inp})


# ---------------------------------------------------------------------------
# ValueAccumulator with a non-default configuration (fourth audit round)
# ---------------------------------------------------------------------------

VALUEACC_ONE_SHOT = 'value-accumulator-one-shot-call-drops-configuration'


def _list_concat(a, b):
  return list(a) + list(b)


def _array_concat(a, b):
  import numpy as np
  return np.concatenate([a, b])


def _m_sum(xs):
  return sum(int(v) for v in xs)


def _m_len(xs):
  return len(xs)


def _m_max(xs):
  return max(int(v) for v in xs)


def _m_mean(xs):
  return sum(int(v) for v in xs) / len(xs)


def _m_dot(xs, ys):
  return sum(int(a) * int(b) for a, b in zip(xs, ys, strict=True))


def _m_len2(xs, ys):
  return len(xs) + len(ys)


def _m_sumdiff(xs, ys):
  return sum(int(v) for v in xs) - sum(int(v) for v in ys)


def _m_nbatches(bs, *more):
  return len(bs)


def _m_total(*groups):
  return sum(int(v) for bs in groups for b in bs for v in b)


def _m_maxlen(bs):
  return max(len(b) for b in bs)


VALUEACC_FNS = {
    'sum': _m_sum, 'len': _m_len, 'max': _m_max, 'mean': _m_mean, 'dot': _m_dot,
    'len2': _m_len2, 'sumdiff': _m_sumdiff, 'nbatches': _m_nbatches,
    'nbatches2': _m_nbatches, 'total': _m_total, 'total2': _m_total,
    'maxlen': _m_maxlen,
}


def _plain(x):
  """Library value -> plain python (tuples and arrays become lists)."""
  import numpy as np
  if isinstance(x, dict):
    return {str(k): _plain(v) for k, v in x.items()}
  if isinstance(x, np.ndarray):
    return _plain(x.tolist())
  if isinstance(x, (list, tuple)):
    return [_plain(v) for v in x]
  if isinstance(x, np.generic):
    return x.item()
  return x


def valueacc_definition(config, batches):
  """Plain-python definition: the i-th input of every add() is kept, in order -
  joined into one sequence (concat_fn) or as a list of the batches (no
  concat_fn); the result is metric_fns applied to these sequences (a dict of
  callables gives a dict of values), or the sequences themselves when there is
  no metric (a single input is not wrapped in a tuple)."""
  nargs = config['nargs']
  if config['concat']:
    data = [[v for b in batches for v in b[i]] for i in range(nargs)]
  else:
    data = [[list(b[i]) for b in batches] for i in range(nargs)]
  metric = config['metric']
  if metric is None:
    return data if nargs > 1 else data[0]
  if isinstance(metric, list):
    return {name: VALUEACC_FNS[name](*data) for name in metric}
  return VALUEACC_FNS[metric](*data)


def check_valueacc(ctx, case):
  """config {'concat': None|'list'|'array', 'metric': None|name|[names],
  'nargs': 1|2}; input {'batches': [[values of input 0, (values of input 1)]]}
  (small ints: every metric is exact). The one-shot call, add() + result(),
  as_agg_fn()(batch) and a merge of per-batch accumulators must all return the
  plain-python definition."""
  import numpy as np
  from ml_metrics._src.aggregates import rolling_stats as rs

  config, batches = case['config'], case['input']['batches']
  concat, metric = config['concat'], config['metric']
  concat_fn = {None: None, 'list': _list_concat, 'array': _array_concat}[concat]
  if metric is None:
    metric_fns = None
  elif isinstance(metric, list):
    metric_fns = {name: VALUEACC_FNS[name] for name in metric}
  else:
    metric_fns = VALUEACC_FNS[metric]
  wrap = (lambda v: np.asarray(v, dtype=np.int64)) if concat == 'array' else list
  make = lambda: rs.ValueAccumulator(concat_fn, metric_fns)
  args = lambda b: [wrap(v) for v in b]
  want_first = valueacc_definition(config, batches[:1])
  want_all = valueacc_definition(config, batches)
  mis = cm.Mis()
  ctx.case(('stats', 'valueacc', config, case['input']), len(batches) >= 2)
  ctx.count('stats_valueacc_cases')
  if metric is not None:
    ctx.count('stats_valueacc_metric_fns_cases')

  def compare(got, want, path):
    ctx.count('stats_value_checks')
    if _plain(got) != want:
      # keyed by the configuration and the API path, not by the value returned:
      # the one-shot call of an accumulator that was given metric_fns
      mech = VALUEACC_ONE_SHOT if path == '__call__' and metric is not None else None
      mis.add('api_paths_differ' if path == '__call__' else 'value_mismatch', mech,
              {'path': path, 'got': _plain(got), 'want': want})

  try:
    ctx.count('stats_one_shot_call_checks')
    compare(make()(*args(batches[0])), want_first, '__call__')
    compare(make().as_agg_fn()(*args(batches[0])), want_first, 'agg_fn')
    m = make()
    m.add(*args(batches[0]))
    compare(m.result(), want_first, 'add_result[first batch]')
    for b in batches[1:]:
      m.add(*args(b))
    ctx.count('stats_accumulator_checks')
    compare(m.result(), want_all, 'add_result')
    if len(batches) > 1:
      parts = []
      for b in batches:
        part = make()
        part.add(*args(b))
        parts.append(part)
      for other in parts[1:]:
        parts[0].merge(other)
      compare(parts[0].result(), want_all, 'merge[one accumulator per batch]')
  except Exception as e:  # pylint: disable=broad-exception-caught
    mis.add('raised', None, {'error': repr(e)[:300]})
  if not mis.flush(ctx, case) and len(ctx.samples) < 5:
    ctx.sample({'family': 'stats', 'sub': 'valueacc', 'config': config,
                'input': case['input']})
