"""C02 helpers: the 'ext' case generator (input classes outside the small-alphabet
flat-column family) and the attribution of a failure to an input class.

Input classes (one per generated case, on top of an ordinary pipeline):

  col2d     a 2-D (batch x dim) input column of a sliced aggregate, as ndarray or as
            a list of rows, dim equal to / different from the batch length, sliced in
            filter mode and with replace_mask_false_with
  selfkey   an aggregate with the default output key (Key.SELF) combined with
            slicers; scalar, list and dict results
  wcross    restricted value sets over a feature cross: add_slice({'a': .., 'b': ..})
  listcol   list columns that np.asarray cannot represent faithfully: ragged (per-row
            lists of different length) or elements of mixed type; with / without slicers
  literal   a Key.Literal constant among the aggregate inputs; with / without slicers
  shaped    aggregate results that are tuples, namedtuples, multi-element ndarrays or
            dicts / lists containing them; named, dict and default (SELF) output keys

`features_of` derives the classes from the STRUCTURE of a case (never from a tag), so
replays and directed cases are attributed the same way. A failure gets the mechanism
key of a class only if (a) the case - for a value difference: the (aggregate, slicer)
pair owning every differing key - belongs to that class and (b) the failure has the
form that class produces; anything else keeps the generic '<kind>@<obs>/..' key.
"""

from __future__ import annotations

import numpy as np

from vlib.oracles import c02_model as M

REPLACE2D = 'replace-mask-2d-input-wrong-axis'
SELFSLICE = 'self-key-scalar-result-with-slicer'
WCROSS = 'restricted-values-feature-cross'
LISTCOERCE = 'slicing-coerces-list-column-via-asarray'
LITERAL = 'slicing-masks-literal-input'
SELFND = 'self-output-ndarray-result-truth-test'
TUPLES = 'result-tuples-become-lists'

# Form of the failure each class produces when it RAISES (text of the exception chain).
RAISE_FORMS = {
    REPLACE2D: ('could not be broadcast',),
    SELFSLICE: ('Insert to immutable', 'Failed to insert'),
    WCROSS: ('SliceKey should have same number of features and values',),
    LISTCOERCE: ('inhomogeneous shape',),
    LITERAL: ('Masks and inputs have to be of types', 'boolean index did not match',
              'could not be broadcast', 'zip() argument'),
    SELFND: ('truth value of an array',),
}
# Classes that (also) show up as a wrong VALUE of a slice key.
VALUE_CLASSES = (REPLACE2D, LISTCOERCE, LITERAL)

F_ALPHA = {'f0': [0, 1, 2, 3], 'f1': [0, 1, 2], 'f2': ['a', 'b', 'c']}
NUMERIC = ['x', 'y', 'f0', 'f1']
CLASSES = ('col2d', 'selfkey', 'wcross', 'listcol', 'literal', 'shaped')


# ---------------------------------------------------------------------------
# Generator
# ---------------------------------------------------------------------------


def _sizes(rng):
  r = rng.random()
  if r < 0.03:
    nb = 0
  elif r < 0.12:
    nb = 1
  else:
    nb = rng.randint(2, 4)
  return [0 if rng.random() < 0.1 else rng.randint(1, 5) for _ in range(nb)]


def _base(rng):
  sizes = _sizes(rng)
  stream, rid = [], 0
  for bi, n in enumerate(sizes):
    batch = {}
    for f, alpha in F_ALPHA.items():
      k = rng.randint(1, 2) if bi == 0 else rng.randint(1, len(alpha))
      allowed = rng.sample(alpha, k)
      batch[f] = [rng.choice(allowed) for _ in range(n)]
    batch['x'] = list(range(rid + 1, rid + n + 1))
    rid += n
    batch['y'] = [rng.randint(-3, 9) for _ in range(n)]
    stream.append(batch)
  containers = {c: rng.choice(['list', 'list', 'array']) for c in list(F_ALPHA) + ['x', 'y']}
  return sizes, stream, containers


def _form(rng, a, entries):
  """Positional single / tuple / keyword form of the input keys."""
  lit = any(M.is_literal(e) for e in entries)
  forms = ['tuple', 'dict'] if len(entries) > 1 else ['single', 'tuple', 'dict']
  form = rng.choice(forms)
  if form == 'dict':
    names = [f'arg{j}' for j in range(len(entries))]
    if lit:
      names[-1] = 'k'
    a['in'] = dict(zip(names, entries))
  else:
    a['in'] = list(entries)
    a['single'] = form == 'single'
  return a


def _plain_agg(rng, i, pool=None):
  pool = pool or NUMERIC
  a = {'noslice': False, 'opt': {}, 'single': False}
  if rng.random() < 0.5:
    a['fn'] = 'collect'
    a['out'] = f'rows{i}'
    _form(rng, a, rng.sample(pool, rng.randint(1, 2)))
  else:
    a['fn'] = 'sumcount'
    shape = rng.choice(['list', 'dict', 'scalar'])
    a['opt']['shape'] = shape
    a['out'] = {'list': f'sc{i}', 'dict': {f's{i}': 'sum', f'c{i}': 'count'},
                'scalar': f'sum{i}'}[shape]
    _form(rng, a, rng.sample(pool, rng.randint(1, 2)))
  return a


def _plain_slicer(rng, j, used):
  for _ in range(20):
    kind = rng.choice(['single', 'single', 'cross', 'within', 'fan', 'rowmask'])
    s = {'kind': kind}
    feats = list(F_ALPHA)
    if kind == 'single':
      s['keys'] = [rng.choice(feats)]
    elif kind == 'cross':
      s['keys'] = rng.sample(feats, 2)
    elif kind == 'within':
      c = rng.choice(feats)
      alpha = F_ALPHA[c]
      s['keys'] = [c]
      s['values'] = rng.sample(alpha, rng.randint(1, len(alpha)))
      if rng.random() < 0.3:
        s['values'].append('zz' if c == 'f2' else 99)
      if rng.random() < 0.5:
        s['name'] = f'in_{c}_{j}'
    elif kind == 'fan':
      fn = rng.choice(['item_of', 'fan_int', 'fan_split'])
      s['fn'] = fn
      s['keys'] = [rng.choice(feats) if fn == 'item_of' else
                   rng.choice(['f0', 'f1']) if fn == 'fan_int' else 'f2']
      if rng.random() < 0.5:
        s['name'] = f'{fn}_{j}'
    else:
      s['keys'] = [rng.choice(feats)]
      s['name'] = f'rm_{j}'
      s['mask_type'] = rng.choice(['list', 'array'])
      s['bare'] = rng.random() < 0.4
    if M.slicer_features(s) in used:
      continue
    used.add(M.slicer_features(s))
    return s
  raise AssertionError('no free slice name')


def _slicers(rng, n, p_replace, used=None):
  used, out = set(used or ()), []
  for j in range(n):
    s = _plain_slicer(rng, j, used)
    if rng.random() < p_replace:
      s['replace'] = rng.choice([0, -1, 7])
    out.append(s)
  return out


def _maybe_second_agg(rng, aggs):
  if rng.random() < 0.4:
    extra = _plain_agg(rng, len(aggs))
    extra['noslice'] = rng.random() < 0.3
    aggs.insert(rng.randint(0, len(aggs)), extra)


def gen_ext_case(rng):
  cls = rng.choice(CLASSES)
  sizes, stream, containers = _base(rng)
  case = {'family': 'row', 'containers': containers, 'stream': stream,
          'str_cols': ['f2'], 'pre': []}
  nonzero = [n for n in sizes if n]

  if cls == 'col2d':
    dim = rng.choice(nonzero) if nonzero and rng.random() < 0.5 else rng.randint(1, 4)
    for b, n in zip(stream, sizes):
      b['m'] = [[rng.randint(0, 9) for _ in range(dim)] for _ in range(n)]
    case['dims'] = {'m': dim}
    containers['m'] = rng.choice(['array2d', 'array2d', 'list'])
    a = {'noslice': False, 'opt': {}, 'single': False}
    others = rng.sample(['x', 'y', 'f0'], rng.randint(0, 1))
    entries = ['m'] + others
    rng.shuffle(entries)
    if rng.random() < 0.6:
      a['fn'], a['out'] = 'collect', 'mrows'
    else:
      a['fn'], a['out'] = 'sumcount', 'msum'
      a['opt']['shape'] = 'list'
    aggs = [_form(rng, a, entries)]
    _maybe_second_agg(rng, aggs)
    case['aggs'] = aggs
    case['slicers'] = _slicers(rng, rng.randint(1, 2), 0.5)
    for s in case['slicers']:
      if s['kind'] == 'rowmask':
        # add_slice documents user masks "with the same shape of the to be masked
        # inputs"; a user ROW mask over a 2-D input is only used to filter.
        s.pop('replace', None)

  elif cls == 'selfkey':
    a = {'noslice': False, 'opt': {}, 'single': False, 'out': None}
    kind = rng.choice(['scalar', 'scalar', 'list', 'rows', 'dict', 'dict_rows', 'dict_mean'])
    if kind in ('scalar', 'list', 'dict'):
      a['fn'] = 'sumcount'
      a['opt']['shape'] = kind
    elif kind in ('rows', 'dict_rows'):
      a['fn'] = 'collect'
      if kind == 'dict_rows':
        a['opt']['as_dict'] = True
    else:
      a['fn'] = 'fracmean'
      a['opt']['as_dict'] = True
    n_in = 1 if a['fn'] == 'fracmean' else rng.randint(1, 2)
    case['aggs'] = [_form(rng, a, rng.sample(NUMERIC, n_in))]
    case['slicers'] = _slicers(rng, rng.randint(1, 2), 0.3)

  elif cls == 'wcross':
    keys = rng.sample(list(F_ALPHA), rng.choice([2, 2, 3]))
    values = []
    for k in keys:
      alpha = F_ALPHA[k]
      vals = rng.sample(alpha, rng.randint(1, len(alpha)))
      if rng.random() < 0.25:
        vals.append('zz' if k == 'f2' else 99)  # never present
      values.append(vals)
    w = {'kind': 'wcross', 'keys': keys, 'values': values}
    if rng.random() < 0.3:
      w['name'] = [f'w{j}_{k}' for j, k in enumerate(keys)]
    if rng.random() < 0.25:
      w['replace'] = rng.choice([0, -1, 7])
    slicers = [w]
    if rng.random() < 0.4:
      slicers += _slicers(rng, 1, 0.25, used={M.slicer_features(w)})
      rng.shuffle(slicers)
    aggs = [_plain_agg(rng, 0)]
    _maybe_second_agg(rng, aggs)
    case['aggs'] = aggs
    case['slicers'] = slicers

  elif cls == 'listcol':
    sub = rng.choice(['ragged', 'ragged', 'str_int', 'str_int', 'int_none', 'str_none'])
    for b, n in zip(stream, sizes):
      if sub == 'ragged':
        b['lc'] = [[rng.randint(0, 9) for _ in range(rng.randint(0, 3))] for _ in range(n)]
      else:
        kinds = sub.split('_')
        b['lc'] = [_element(rng, rng.choice(kinds)) for _ in range(n)]
    a = {'noslice': False, 'opt': {}, 'single': False}
    if sub == 'ragged' and rng.random() < 0.35:
      a['fn'], a['out'] = 'sumcount', 'lsum'
      a['opt']['shape'] = 'list'
    else:
      a['fn'], a['out'] = 'collect', 'lrows'
    entries = ['lc'] + rng.sample(['x', 'y'], rng.randint(0, 1))
    rng.shuffle(entries)
    aggs = [_form(rng, a, entries)]
    _maybe_second_agg(rng, aggs)
    case['aggs'] = aggs
    case['slicers'] = _slicers(rng, 0 if rng.random() < 0.3 else rng.randint(1, 2), 0.0)

  elif cls == 'literal':
    a = {'noslice': False, 'opt': {}, 'single': False}
    cols = rng.sample(NUMERIC, rng.randint(1, 2))
    if rng.random() < 0.35:
      a['fn'], a['out'] = 'sumcount', 'ksum'
      a['opt']['shape'] = rng.choice(['list', 'scalar'])
      lit = rng.choice([1, 2, 3, -1])
    else:
      a['fn'], a['out'] = 'collect', 'krows'
      r = rng.random()
      if r < 0.3:
        lit = rng.choice([0, 1, 5])
      elif r < 0.5:
        lit = 0.5
      elif r < 0.65:
        lit = rng.choice(['ab', 'micro'])
      else:
        n = rng.choice(nonzero) if nonzero and rng.random() < 0.5 else rng.randint(1, 4)
        lit = [rng.randint(0, 9) for _ in range(n)]
    aggs = [_form(rng, a, cols + [{'lit': lit}])]
    _maybe_second_agg(rng, aggs)
    case['aggs'] = aggs
    case['slicers'] = _slicers(rng, 0 if rng.random() < 0.3 else rng.randint(1, 2), 0.3)

  else:  # shaped
    rshape = rng.choice(M.RSHAPES)
    a = {'fn': 'shaped', 'noslice': False, 'opt': {'rshape': rshape}, 'single': False,
         'out': 'res'}
    if rng.random() < 0.4:
      a['out'] = {'dict_tuple': rng.choice([{'ci_': 'ci'}, {'ci_': 'ci', 'in_': 'inner'}]),
                  'dict_namedtuple': {'st_': 'stats'},
                  'dict_ndarray': {'v_': 'v', 'n_': 'n'}}.get(rshape, 'res')
    aggs = [_form(rng, a, [rng.choice(NUMERIC)])]
    n_sl = 0 if rng.random() < 0.4 else rng.randint(1, 2)
    if n_sl == 0 and a['out'] == 'res' and rng.random() < 0.6:
      a['out'] = None  # the default output key
    else:
      _maybe_second_agg(rng, aggs)
    case['aggs'] = aggs
    case['slicers'] = _slicers(rng, n_sl, 0.25)
  return case


def _element(rng, kind):
  if kind == 'str':
    return rng.choice(['u1', 'u2', 'u3'])
  if kind == 'int':
    return rng.randint(1, 9)
  return None


# ---------------------------------------------------------------------------
# Input classes of a case (structural) and attribution of failures
# ---------------------------------------------------------------------------


def _type_tag(v):
  return type(v).__name__


def column_class(case, col):
  """'ragged' / 'mixed' / 'plain' for a LIST column of the literal stream.

  ragged: some batch holds per-row lists of different lengths; mixed: some batch holds
  scalar elements of different Python types. (np.asarray of such a batch raises or
  coerces; a batch whose rows happen to agree is an ordinary array.)
  """
  if (case.get('containers') or {}).get(col, 'list') != 'list':
    return 'plain'
  if col in (case.get('dims') or {}):
    return 'plain'
  out = 'plain'
  for batch in case['stream']:
    vals = batch.get(col)
    if not vals:
      continue
    if all(isinstance(v, list) for v in vals):
      if len({len(v) for v in vals}) > 1:
        return 'ragged'
    elif len({_type_tag(v) for v in vals}) > 1:
      out = 'mixed'
  return out


def features_of(case, want):
  """Structural input classes: per (aggregate, slicer) pair, per case, per key."""
  aggs, slicers = case['aggs'], case['slicers']
  dims = case.get('dims') or {}
  f = {'pairs': {}, 'case': set(), 'owner': {}, 'sl_index': {}, 'counters': [],
       'shaped_keys': set(), 'alt_replace': False}
  for si, s in enumerate(slicers):
    f['sl_index'][M.slicer_features(s)] = si
  classes = {}
  for ai, a in enumerate(aggs):
    out = a['out']
    names = [''] if out is None else list(out) if isinstance(out, (dict, list)) else [out]
    for n in names:
      f['owner'][n] = ai
    entries = M.in_entries(a) if a['in'] is not None else \
        list((a.get('opt') or {}).get('dict_cols') or [])
    cols = [e for e in entries if not M.is_literal(e)]
    lit = len(cols) != len(entries)
    for c in cols:
      if c not in classes:
        classes[c] = column_class(case, c)
    two_d = any(c in dims for c in cols)
    listy = sorted({classes[c] for c in cols} - {'plain'})
    # "sliced" = row-sliced: intra-example masks select elements inside a row.
    sliced = any(s['kind'] != 'intra' for s in slicers) and not a.get('noslice')
    if two_d:
      eq = any(b.get(c) and len(b[c]) == dims[c] for b in case['stream'] for c in cols
               if c in dims)
      ne = any(b.get(c) and len(b[c]) != dims[c] for b in case['stream'] for c in cols
               if c in dims)
      if sliced and eq:
        f['counters'].append('ext:col2d_dim_eq_batch')
      if sliced and ne:
        f['counters'].append('ext:col2d_dim_ne_batch')
    for kind in (listy if case.get('family') != 'intra' else ()):
      f['counters'].append(f'ext:{kind}_{"sliced" if sliced else "unsliced"}')
    if lit:
      f['counters'].append('ext:literal_' + ('sliced' if sliced else 'unsliced'))
    if a['fn'] == 'shaped':
      f['counters'].append('ext:shaped_' + a['opt']['rshape'])
      f['counters'].append('ext:shaped_' + ('sliced' if sliced else 'unsliced'))
      f['shaped_keys'].update(names)
      if out is None:
        f['counters'].append('ext:shaped_self')
    if not sliced:
      continue
    for si, s in enumerate(slicers):
      if s['kind'] == 'intra':
        continue
      mechs = set()
      if two_d:
        f['counters'].append('ext:col2d_' + ('replace' if s.get('replace') is not None
                                              else 'filter'))
        if s.get('replace') is not None:
          f['alt_replace'] = True
          if s['kind'] != 'rowmask':  # the library's own row masks (ndarray)
            mechs.add(REPLACE2D)
      if listy:
        mechs.add(LISTCOERCE)
      if lit:
        mechs.add(LITERAL)
      if s['kind'] == 'wcross':
        mechs.add(WCROSS)
      f['pairs'][(ai, si)] = mechs
  for s in slicers:
    if s['kind'] == 'wcross':
      f['counters'].append('ext:wcross')
  if aggs[0]['out'] is None:
    root = want.get(('', None))
    if slicers and not aggs[0].get('noslice'):
      if isinstance(root, dict):
        f['counters'].append('ext:selfkey_dict_result')
      else:
        f['case'].add(SELFSLICE)
        f['counters'].append('ext:selfkey_scalar_result' if not isinstance(
            root, (list, tuple, np.ndarray)) else 'ext:selfkey_list_result')
    elif isinstance(root, np.ndarray) and root.size >= 2:
      f['case'].add(SELFND)
  return f


def _chain_text(exc):
  parts, seen = [], set()
  while exc is not None and id(exc) not in seen:
    seen.add(id(exc))
    parts.append(f'{type(exc).__name__}: {exc}')
    exc = exc.__cause__ or exc.__context__
  return ' | '.join(parts)


def classify_raise(f, exc):
  """Mechanism key of the input class that explains a raise, or None."""
  candidates = set(f['case'])
  for mechs in f['pairs'].values():
    candidates |= mechs
  if not candidates:
    return None
  text = _chain_text(exc)
  hits = [m for m in sorted(candidates) if any(t in text for t in RAISE_FORMS[m])]
  return hits[0] if len(hits) == 1 else None


def _pair_of(f, key):
  name, sl = key
  if sl is None or name not in f['owner']:
    return None
  si = f['sl_index'].get(tuple(sl[0]))
  if si is None:
    return None
  return (f['owner'][name], si)


def classify_diffs(f, diffs):
  """Mechanism key if EVERY differing key is a slice key of a pair of one class."""
  common = None
  for kind, key, _, _ in diffs:
    if kind != 'value_differs':
      return None
    mechs = f['pairs'].get(_pair_of(f, key), set()) & set(VALUE_CLASSES)
    common = mechs if common is None else common & mechs
    if not common:
      return None
  return sorted(common)[0] if common and len(common) == 1 else None


def typed_diffs(f, want, raw, self_output):
  """Container-type differences of the results of 'shaped' aggregates.

  Only evaluated on keys whose plain (list-ified) values already agree. Returns a list
  of (key, typed want, typed got, mechanism or None).
  """
  if not f['shaped_keys']:
    return []
  got = M.canon_result(raw, self_output, conv=M.typed_value)
  out = []
  for key, w in want.items():
    if key[0] not in f['shaped_keys'] or key not in got:
      continue
    tw, tg = M.typed_value(w), got[key]
    if M.values_equal(tw, tg):
      continue
    if not M.values_equal(M.untyped(tw), M.untyped(tg)):
      continue  # a value difference: reported by the plain comparison
    lost_tuples = M.contains_type(w, tuple) and M.values_equal(M.untyped(tw), tg)
    out.append((key, tw, tg, TUPLES if lost_tuples else None))
  return out
