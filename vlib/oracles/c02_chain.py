"""C02 helpers: the SAME pipeline built as a chain of separately constructed blocks.

A chain case is an ordinary C02 case (row or intra family, >= 2 aggregates with named
output keys, >= 1 slicer) plus a layout

  case['chain'] = {'blocks': [{'name': str, 'aggs': [agg index, ..],
                               'slicers': [slicer index, ..]}, ...]}      # 2-3 blocks

Every block is constructed on its own (`TreeTransform(name=..)`, its aggregates, its
`add_slice` declarations - a subset of the case's slicers, so two blocks may declare the
SAME slice) and the blocks are joined with `chain()`. Consecutive blocks of one name
are fused by the library into one transform, a different name starts a new stage. The
pre-aggregate operators and the data source belong to the first block (the library
refuses to fuse operators behind an aggregation).

Semantics used by the oracle (what `chain()` documents): a fused group is ONE transform,
its aggregates are sliced by every slice declared in the group (a slice declared by two
blocks of the group is still one slice); the aggregates of a stage are sliced by the
slices declared in that stage only. The expected values are the brute-force values of
`c02_model.expected` restricted to those (aggregate, slicer) pairs.

Input class with its own mechanism key: 'a slicer declared by >= 2 blocks of one fused
group'. A value difference is attributed to it only if EVERY differing key is a slice
key of such a (group, slicer) pair; a clear ValueError about the duplicate slice when
the chain is BUILT is an accepted refusal of that input class.
"""

from __future__ import annotations

import copy

MECH_DUP = 'fused-chain-duplicate-slicers-double-count'
OBSERVATIONS = ('call', 'iterate', 'datasource')


# ---------------------------------------------------------------------------
# Layout
# ---------------------------------------------------------------------------


def groups_of(layout):
  """Consecutive blocks of one name -> one group (fused transform / stage)."""
  groups = []
  for bi, blk in enumerate(layout['blocks']):
    if groups and groups[-1]['name'] == blk['name']:
      g = groups[-1]
    else:
      g = {'name': blk['name'], 'blocks': [], 'aggs': [], 'slicers': [], 'dup': []}
      groups.append(g)
    g['blocks'].append(bi)
    g['aggs'].extend(blk['aggs'])
    for si in blk['slicers']:
      if si in g['slicers']:
        if si not in g['dup']:
          g['dup'].append(si)
      else:
        g['slicers'].append(si)
  return groups


def layout_info(case):
  groups = groups_of(case['chain'])
  declared = {}
  for gi, g in enumerate(groups):
    for si in g['slicers']:
      declared.setdefault(si, []).append(gi)
  sliceable = {ai for ai, a in enumerate(case['aggs']) if not a.get('noslice')}
  return {
      'groups': groups,
      'fused': any(len(g['blocks']) > 1 for g in groups),
      'staged': len(groups) > 1,
      # (group, slicer) pairs of the input class: declared twice inside a fused group
      # that holds at least one aggregate the slicer applies to
      'dup_pairs': {(gi, si) for gi, g in enumerate(groups) for si in g['dup']
                    if sliceable & set(g['aggs'])},
      # a duplicate declaration as such (the library may refuse it when the chain is
      # built even if no aggregate of the group is sliced)
      'dup_declared': any(g['dup'] for g in groups),
      'dup_across_stages': any(len(v) > 1 for v in declared.values()),
      'agg_group': {ai: gi for gi, g in enumerate(groups) for ai in g['aggs']},
  }


def gen_layout(rng, n_aggs, n_slicers):
  nb = 2 if n_aggs == 2 else rng.choice([2, 3, 3])
  order = list(range(n_aggs))
  rng.shuffle(order)
  cuts = sorted(rng.sample(range(1, n_aggs), nb - 1))
  parts = [order[a:b] for a, b in zip([0] + cuts, cuts + [n_aggs])]
  r = rng.random()
  if r < 0.3:
    names = [''] * nb                                   # unnamed blocks: all fused
  elif r < 0.45:
    names = ['blk'] * nb                                # one common name: all fused
  elif r < 0.7 or nb == 2:
    names = rng.choice([['A', 'B', 'C'], ['', 'B', 'C']])[:nb]   # stages
  else:
    names = rng.choice([['', '', 'C'], ['A', 'B', 'B'], ['A', 'A', 'C'], ['', 'B', 'B']])
  blocks = []
  for name, aggs in zip(names, parts):
    slicers = [si for si in range(n_slicers) if rng.random() < 0.65]
    blocks.append({'name': name, 'aggs': sorted(aggs), 'slicers': slicers})
  return {'blocks': blocks}


def usable_base(case):
  """Can this ordinary case be laid out as a chain of blocks?"""
  aggs = case['aggs']
  return (len(aggs) >= 2 and bool(case['slicers'])
          and all(a['out'] is not None for a in aggs)
          and any(not a.get('noslice') for a in aggs))


def fallback_base():
  return {'family': 'row', 'containers': {}, 'str_cols': [], 'pre': [],
          'stream': [{'f0': [0, 1, 0], 'x': [1, 2, 3], 'y': [5, 6, 7]},
                     {'f0': [1, 2], 'x': [4, 5], 'y': [8, 9]}],
          'aggs': [{'fn': 'collect', 'in': ['x'], 'single': True, 'out': 'rows0',
                    'noslice': False, 'opt': {}},
                   {'fn': 'sumcount', 'in': ['y'], 'single': True, 'out': 'sc1',
                    'noslice': False, 'opt': {'shape': 'list'}}],
          'slicers': [{'kind': 'single', 'keys': ['f0']}]}


def gen_chain_case(rng, gen_base):
  for _ in range(40):
    base = gen_base(rng)
    if usable_base(base):
      break
  else:
    base = fallback_base()
  base['chain'] = gen_layout(rng, len(base['aggs']), len(base['slicers']))
  return base


# ---------------------------------------------------------------------------
# Real pipeline
# ---------------------------------------------------------------------------


def build(case, M, data_source=None):
  from ml_metrics._src.chainables import transform
  t = None
  for bi, blk in enumerate(case['chain']['blocks']):
    b = transform.TreeTransform(name=blk['name'])
    if bi == 0:
      if data_source is not None:
        b = b.data_source(data_source)
      b = M.add_pre(b, case)
    b = M.add_aggs(b, [case['aggs'][ai] for ai in blk['aggs']])
    for si in blk['slicers']:
      b = M.add_slice(b, case['slicers'][si])
    t = b if t is None else t.chain(b)
  return t


def observe(obs, case, M):
  stream = M.materialize_stream(case)
  if obs == 'call':
    return build(case, M).make()(input_iterator=stream)
  if obs == 'iterate':
    it = build(case, M).make().iterate(stream)
    outs = list(it)
    if len(outs) != len(stream):
      raise AssertionError(f'iterate yielded {len(outs)} batches for {len(stream)}')
    return it.agg_result
  if obs == 'datasource':
    return build(case, M, data_source=stream).make()()
  raise ValueError(obs)


def is_duplicate_slice_refusal(exc):
  text = str(exc).lower()
  return isinstance(exc, ValueError) and 'slice' in text and (
      'duplicate' in text or 'conflict' in text)


# ---------------------------------------------------------------------------
# Oracle
# ---------------------------------------------------------------------------


def _pair_of(feats, info, key):
  """(group index, slicer index) owning a sliced result key, or None."""
  name, sl = key
  if sl is None or name not in feats['owner']:
    return None
  si = feats['sl_index'].get(tuple(sl[0]))
  if si is None:
    return None
  return (info['agg_group'][feats['owner'][name]], si)


def expected_for_layout(want_full, feats, info):
  """Brute-force values of the (aggregate, slicer) pairs the layout declares."""
  out = {}
  for key, v in want_full.items():
    if key[1] is None:
      out[key] = v
      continue
    pair = _pair_of(feats, info, key)
    if pair is None:
      raise AssertionError(f'oracle key {key!r} has no owner')
    if pair[1] in info['groups'][pair[0]]['slicers']:
      out[key] = copy.deepcopy(v)
  return out


def classify_diffs(feats, info, diffs):
  """MECH_DUP iff every difference is a wrong value of a slice key whose slicer is
  declared by two blocks of the fused group that holds the aggregate."""
  if not diffs or not info['dup_pairs']:
    return None
  for kind, key, _, _ in diffs:
    if kind != 'value_differs' or _pair_of(feats, info, key) not in info['dup_pairs']:
      return None
  return MECH_DUP
