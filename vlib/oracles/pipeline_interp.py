"""Reference interpreter for pipeline operator chains (oracle of C08 / C12).

Independent of the repository: it works on JSON-able operator specs (see
`vlib/pipeline_gen.py` for the grammar) and plain Python containers only, and
implements nothing but the numbered *Interpreter specification* of DESIGN.md
section 4 / C08 (rules 1-5 and 7).  Rule 6 (build-time rejection) is not an
evaluation rule and lives in the C08 check itself.

Key specs
  'a' | 3                       plain mapping key / plain int sequence index
  {'idx': i}                    Index(i)
  {'path': [step, ...]}         Key path, steps are plain keys or {'idx': i}
  {'self': 1} {'skip': 1}       SELF / SKIP
  {'lit': v}                    Literal(v)
  {'map': [[new, old], ...]}    dict output key {new: old}
Key containers
  {'form': 'single'|'tuple'|'list', 'keys': [k, ...]}
  {'form': 'kw', 'names': [...], 'keys': [...]}      keyword inputs
Operators
  {'op': 'apply'|'assign'|'select'|'filter'|'sink'|'batch', 'fn': name|None,
   'in': keys, 'out': keys, 'fbs': int, 'bs': int, 'n': int, 'cols': keys}
"""

from __future__ import annotations

import copy


class RouteError(Exception):
  """A key does not resolve / outputs and keys do not pair up (rules 1, 4)."""


class Undefined(Exception):
  """The specification does not define the result (generator must avoid it)."""


class _Empty:
  """The empty record `apply` / `select` start from (rule 4)."""

  def __repr__(self):
    return '<EMPTY>'


EMPTY = _Empty()


def _is(key, tag):
  return isinstance(key, dict) and tag in key


def _step(data, k):
  """Rule 1: one step of a path into a mapping or a sequence."""
  if _is(k, 'idx'):
    k = k['idx']
  try:
    if isinstance(data, dict):
      return data[k]
    if isinstance(data, (list, tuple)) and isinstance(k, int):
      return data[k]
  except (KeyError, IndexError) as e:
    raise RouteError(f'{k!r} not found') from e
  raise RouteError(f'cannot step {k!r} into {type(data).__name__}')


def get_key(rec, key):
  """Rule 1: reads one key spec out of a record."""
  if _is(key, 'self'):
    return rec
  if _is(key, 'lit'):
    return key['lit']
  if _is(key, 'skip') or _is(key, 'map'):
    raise RouteError(f'{key!r} is not readable')
  steps = key['path'] if _is(key, 'path') else [key]
  for k in steps:
    rec = _step(rec, k)
  return rec


def select(rec, keys):
  """Rules 1-2: the positional and keyword arguments of one call."""
  values = [get_key(rec, k) for k in keys['keys']]
  if keys['form'] == 'kw':
    return (), dict(zip(keys['names'], values, strict=True))
  return tuple(values), {}


def _set_steps(node, steps, value):
  """Copy-on-write store of `value` under the remaining path steps."""
  if not steps:
    return value
  k, rest = steps[0], steps[1:]
  is_idx = _is(k, 'idx')
  k = k['idx'] if is_idx else k
  if node is EMPTY:
    if is_idx:
      if k != 0:
        raise RouteError('non-zero index into an empty record')
      return [_set_steps(EMPTY, rest, value)]
    return {k: _set_steps(EMPTY, rest, value)}
  if isinstance(node, dict):
    out = dict(node)
    out[k] = _set_steps(node.get(k, EMPTY), rest, value)
    return out
  if isinstance(node, (list, tuple)) and isinstance(k, int):
    out = list(node)
    if k == len(out):
      out.append(EMPTY)
    if not -len(out) <= k < len(out):
      raise RouteError(f'index {k} out of range')
    out[k] = _set_steps(out[k], rest, value)
    return type(node)(out) if isinstance(node, tuple) else out
  raise RouteError(f'cannot store {k!r} into {type(node).__name__}')


def set_key(rec, key, value):
  """Rule 4: stores one output under one (non-dict) output key."""
  if _is(key, 'skip'):
    return rec
  if _is(key, 'self'):
    return value
  if _is(key, 'lit') or _is(key, 'map'):
    raise RouteError(f'{key!r} is not writable')
  return _set_steps(rec, key['path'] if _is(key, 'path') else [key], value)


def normalize(ret, out_keys):
  """Rule 3: a non-tuple return is one output, an exact tuple is several."""
  outs = list(ret) if type(ret) is tuple else [ret]  # pylint: disable=unidiomatic-typecheck
  if len(outs) > 1 and _is(out_keys['keys'][0], 'self'):
    outs = [ret]
  return outs


def set_outputs(base, out_keys, outs):
  """Rule 4: pairs outputs with output keys on top of `base`."""
  keys = out_keys['keys']
  if len(keys) == 1 and len(outs) > 1:
    if _is(keys[0], 'map'):
      raise Undefined('several outputs for one dict key')
    return set_key(base, keys[0], tuple(outs))
  if len(keys) != len(outs):
    raise RouteError(f'{len(keys)} keys for {len(outs)} outputs')
  rec = base
  for key, out in zip(keys, outs):
    if _is(key, 'map'):
      for new, old in key['map']:
        rec = set_key(rec, new, get_key(out, old))
    else:
      rec = set_key(rec, key, out)
  if rec is EMPTY:
    raise Undefined('no output key stored anything')
  return rec


def rebatch(units, n):
  """Rule 5 / C19: concatenates the rows of column tuples, regroups them by n."""
  if not n:
    return list(units)
  rows = []
  width = None
  for cols in units:
    width = len(cols) if width is None else width
    if len(cols) != width or not all(isinstance(c, list) for c in cols):
      raise Undefined('re-batching needs equally many list columns')
    if len({len(c) for c in cols}) > 1:
      raise RouteError('columns of unequal length')
    rows.extend(zip(*cols))
  return [tuple(list(col) for col in zip(*rows[i:i + n]))
          for i in range(0, len(rows), n)]


def _wrap(*args):
  return tuple([a] for a in args)


def run_op(op, stream, resolve, *, skip=False, failing=None, sink_log=None):
  """Evaluates one operator over a list of records; returns the new list.

  resolve:  op -> the user callable of that operator (None for select; for a
            sink the write callable or None).
  skip:     rule 7, a unit whose call raises contributes nothing downstream.
  failing:  optional list that receives the indices of the failing units.
  sink_log: list receiving (args, kwargs) per successful sink write.
  """
  kind = op['op']
  fbs, bs = op.get('fbs', 0), op.get('bs', 0)
  user_fn = resolve(op)
  if kind == 'batch':  # rule 5: wrap every column, then re-batch to n
    fbs, bs, fn = 0, op.get('n', 0), _wrap
    op = {'op': 'apply', 'fn': '<wrap>', 'in': op['cols'], 'out': op['cols']}
    kind = 'apply'
  elif kind == 'sink':
    def fn(*a, **kw):
      if user_fn is not None:
        user_fn(*a, **kw)             # may raise (C12 failing sink)
      if sink_log is not None:
        sink_log.append((a, kw))
  elif op.get('fn') is None:
    fn = lambda *a: a                 # rule 2: no function, the values themselves
  else:
    fn = user_fn
  in_keys = op['in']
  out_keys = op.get('out') or {'form': 'single', 'keys': [{'self': 1}]}
  if op.get('fn') is None and kind != 'sink' and in_keys['form'] == 'kw':
    raise Undefined('keyword inputs without a function')

  calls = [select(rec, in_keys) for rec in stream]
  if fbs:
    if in_keys['form'] == 'kw':
      names = in_keys['names']
      groups = rebatch([tuple(kw[n] for n in names) for _, kw in calls], fbs)
      calls = [((), dict(zip(names, g))) for g in groups]
    else:
      calls = [(g, {}) for g in rebatch([a for a, _ in calls], fbs)]
  results, alive = [], []
  for i, (args, kwargs) in enumerate(calls):
    try:
      ret = fn(*args, **kwargs)
    except Exception:  # pylint: disable=broad-exception-caught
      if not skip:
        raise
      if failing is not None:
        failing.append(i)
      continue
    alive.append(i)
    results.append(normalize(ret, out_keys) if kind != 'sink' else [None])
  if bs:
    if kind in ('filter', 'sink'):
      raise Undefined('batch options on filter / sink')
    results = [list(g) for g in rebatch([tuple(r) for r in results], bs)]

  if kind in ('apply', 'select'):
    return [set_outputs(EMPTY, out_keys, outs) for outs in results]
  # assign / filter / sink pair results with their own input records 1:1.
  if len(alive) == len(calls):        # nothing failed
    if len(results) != len(stream):
      raise Undefined('re-batching changed the number of units of a 1:1 operator')
    alive = range(len(stream))
  elif len(calls) != len(stream) or len(results) != len(alive):
    raise Undefined('failing units of a 1:1 operator are not its records')
  records = [stream[i] for i in alive]
  if kind == 'assign':
    return [set_outputs(rec, out_keys, outs)
            for rec, outs in zip(records, results, strict=True)]
  if kind == 'filter':
    for outs in results:
      if len(outs) != 1:
        raise Undefined('filter function with several outputs')
    return [rec for rec, outs in zip(records, results, strict=True) if outs[0]]
  if kind == 'sink':
    return records
  raise ValueError(kind)


def run_aggregates(aggs, stream, make_agg):
  """Brute force of stacked aggregates over a list of records (C02 statement, C08 keys).

  aggs: [{'in': keys, 'out': keys, ...}]; make_agg(spec) -> a fresh user aggregate
  (create_state / update_state / get_result).  Every aggregate function is applied
  directly to the selected inputs of all records, in stream order; its outputs are
  paired with its output keys by rules 3-4 (an output under SKIP is dropped) on top
  of one common result.  Undefined when an aggregate keeps no output at all.
  """
  result = EMPTY
  for spec in aggs:
    fn = make_agg(spec)
    state = fn.create_state()
    for rec in stream:
      args, kwargs = select(rec, spec['in'])
      state = fn.update_state(state, *args, **kwargs)
    outs = normalize(fn.get_result(state), spec['out'])
    if all(_is(k, 'skip') for k in spec['out']['keys']):
      raise Undefined('an aggregate that keeps no output')
    if len(spec['out']['keys']) != len(outs):
      raise Undefined('aggregate outputs and output keys do not pair 1:1')
    result = set_outputs(result, spec['out'], outs)
  return result


def run_chain(chain, stream, resolve, *, skip=False):
  """Evaluates a chain on deep copies; returns (stream, per-op info).

  info[i] = {'failing': [...unit indices...], 'sink': [(args, kwargs), ...],
             'units': number of records entering operator i}
  """
  stream = [copy.deepcopy(r) for r in stream]
  info = []
  for op in chain:
    failing, sink_log = [], []
    n_in = len(stream)
    stream = run_op(op, stream, resolve, skip=skip, failing=failing,
                    sink_log=sink_log)
    info.append({'failing': failing, 'sink': sink_log, 'units': n_in})
  return stream, info
