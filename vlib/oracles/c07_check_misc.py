"""C07: family B - Tjur R^2, correlation, symmetric prediction difference,
text frequencies, math_utils, signals.

case = {'family': 'misc', 'sub': <name>, 'config': {...}, 'input': {...}}
"""

from __future__ import annotations

import math

from vlib.oracles import c07_common as cm
from vlib.oracles import c07_stats as os_


def _cat(batches, idx):
  out = []
  for b in batches:
    out.extend(b[idx])
  return out


def _vec_close(got, want, scale=1.0):
  import numpy as np
  a = np.asarray(got, dtype=float)
  if isinstance(want, list):
    return a.ndim == 1 and cm.seq_close(a.tolist(), want, scale)
  return a.ndim == 0 and cm.close(a.item(), want, scale)


def check_pairwise(ctx, case):
  """sub in r2tjur / r2tjur_rel / rreg / spd; input {'batches': [[a, b], ...]}."""
  import numpy as np
  from ml_metrics._src.aggregates import rolling_stats as rs

  sub, config, batches = case['sub'], case.get('config') or {}, case['input']['batches']
  center = config.get('center', True)
  make = {
      'r2tjur': rs.R2Tjur, 'r2tjur_rel': rs.R2TjurRelative,
      'rreg': lambda: rs.RRegression(center=center),
      'spd': rs.SymmetricPredictionDifference,
  }[sub]
  oracle = {
      'r2tjur': os_.r2_tjur, 'r2tjur_rel': os_.r2_tjur_relative,
      'rreg': lambda a, b: os_.r_regression(a, b, center),
      'spd': os_.spd,
  }[sub]
  mis = cm.Mis()
  n = sum(len(b[0]) for b in batches)
  ctx.case(('misc', sub, config, case['input']), n >= 3)
  ctx.count('misc_%s_cases' % sub)
  tol_scale = 1.0

  def compare(got, want, path):
    ctx.count('misc_value_checks')
    if cm.is_nan(want) or (isinstance(want, list) and any(cm.is_nan(w) for w in want)):
      ctx.count('convention_cases')
    if sub == 'spd' and n:
      tol_scale_ = 1.0
    else:
      tol_scale_ = tol_scale
    if not _vec_close(got, want, tol_scale_):
      mis.add('value_mismatch', None,
              {'path': path, 'got': got, 'want': want})
    if sub == 'rreg':
      a = np.asarray(got, dtype=float)
      if not bool(np.all(np.isnan(a) | ((a >= -1 - 1e-9) & (a <= 1 + 1e-9)))):
        mis.add('out_of_range', None, {'got': got})

  arr = lambda v: np.asarray(v, dtype=float)
  try:
    with cm.observed_warnings(ctx, 'misc'):
      a0, b0 = batches[0]
      compare(make().as_agg_fn()(arr(a0), arr(b0)), oracle(a0, b0), 'agg_fn')
      m = make()
      m.add(a0, b0)  # plain python lists
      compare(m.result(), oracle(a0, b0), 'add_result')
      m = make()
      for a, b in batches:
        m.add(arr(a), arr(b))
      ctx.count('misc_accumulator_checks')
      compare(m.result(), oracle(_cat(batches, 0), _cat(batches, 1)), 'accumulator')
  except Exception as e:  # pylint: disable=broad-exception-caught
    mis.add('raised', None, {'error': repr(e)[:300]})
  if not mis.flush(ctx, case) and len(ctx.samples) < 2:
    ctx.sample({'family': 'misc', 'sub': sub, 'config': config,
                'input': case['input']})


def _freq_equal(got, want):
  got = list(got)
  if len(got) != len(want):
    return False
  for (gk, gv), (wk, wv) in zip(got, want):
    if gk != wk or not cm.close(gv, wv):
      return False
  return True


def check_text(ctx, case):
  """sub 'ngrams': config {k, n, use_first_ngram_only, count_duplicate};
  sub 'patterns': config {patterns, count_duplicate}; input {'batches': [[texts]]}."""
  from ml_metrics._src.aggregates import text as agg_text
  sub, config, batches = case['sub'], case['config'], case['input']['batches']
  if sub == 'ngrams':
    make = lambda: agg_text.TopKWordNGrams(**config)
    oracle = lambda texts: os_.topk_word_ngrams(texts, **config)
  else:
    make = lambda: agg_text.PatternFrequency(
        patterns=list(config['patterns']), count_duplicate=config['count_duplicate'])
    oracle = lambda texts: os_.pattern_frequency(
        texts, config['patterns'], config['count_duplicate'])
  mis = cm.Mis()
  alltexts = [t for b in batches for t in b]
  ctx.case(('misc', sub, config, case['input']), len(alltexts) >= 2)
  ctx.count('misc_text_cases')
  try:
    for path, got, want in (
        ('agg_fn', make().as_agg_fn()(batches[0]), oracle(batches[0])),
        ('add_return', make().add(batches[0]), oracle(batches[0])),
    ):
      ctx.count('misc_value_checks')
      if not _freq_equal(got, want):
        mis.add('value_mismatch', None, {'path': path, 'got': got, 'want': want})
    m = make()
    for b in batches:
      m.add(b)
    ctx.count('misc_value_checks')
    ctx.count('misc_accumulator_checks')
    want = oracle(alltexts)
    if not _freq_equal(m.result(), want):
      mis.add('value_mismatch', None,
              {'path': 'accumulator', 'got': m.result(), 'want': want})
  except Exception as e:  # pylint: disable=broad-exception-caught
    mis.add('raised', None, {'error': repr(e)[:300]})
  if not mis.flush(ctx, case) and len(ctx.samples) < 3:
    ctx.sample({'family': 'misc', 'sub': sub, 'config': config,
                'input': case['input']})


def check_mathutils(ctx, case):
  """input {'a': [...], 'b': [...]} element-wise operands (may contain NaN)."""
  import numpy as np
  from ml_metrics._src.utils import math_utils as mu
  a, b = case['input']['a'], case['input']['b']
  mis = cm.Mis()
  ctx.case(('misc', 'mathutils', case['input']), len(a) >= 2)
  ctx.count('misc_mathutils_cases')
  nonan = lambda v: not (isinstance(v, float) and math.isnan(v))
  try:
    with cm.observed_warnings(ctx, 'misc'):
      # safe_divide: arrays, scalars, scalar/array broadcasting.
      fa = [x if nonan(x) else 1.0 for x in a]
      fb = [x if nonan(x) else 0.0 for x in b]
      want = [os_.safe_divide(x, y) for x, y in zip(fa, fb)]
      got = mu.safe_divide(np.asarray(fa), np.asarray(fb))
      ctx.count('misc_value_checks')
      if any(y == 0 for y in fb):
        ctx.count('convention_cases')
      if not _vec_close(got, want, max(1.0, max(abs(x) for x in fa))):
        mis.add('value_mismatch', None, {'fn': 'safe_divide', 'got': got, 'want': want})
      for x, y, w in zip(fa, fb, want):
        g = mu.safe_divide(x, y)
        ctx.count('misc_value_checks')
        if isinstance(g, np.ndarray) or not cm.close(g, w, max(1.0, abs(x))):
          mis.add('value_mismatch', None,
                  {'fn': 'safe_divide scalar', 'a': x, 'b': y, 'got': g, 'want': w})
      g = mu.safe_divide(np.asarray(fa), fb[0])
      w = [os_.safe_divide(x, fb[0]) for x in fa]
      if not _vec_close(g, w, max(1.0, max(abs(x) for x in fa))):
        mis.add('value_mismatch', None, {'fn': 'safe_divide bcast', 'got': g, 'want': w})
      # nanadd
      want = [os_.nanadd(x, y) for x, y in zip(a, b)]
      got = mu.nanadd(np.asarray(a, dtype=float), np.asarray(b, dtype=float))
      ctx.count('misc_value_checks')
      sc = max([1.0] + [abs(x) for x in a + b if nonan(x)])
      if not _vec_close(got, want, sc):
        mis.add('value_mismatch', None, {'fn': 'nanadd', 'got': got, 'want': want})
      for x, y, w in zip(a, b, want):
        g = mu.nanadd(x, y)
        ctx.count('misc_value_checks')
        if not cm.close(g, w, sc):
          mis.add('value_mismatch', None,
                  {'fn': 'nanadd scalar', 'a': x, 'b': y, 'got': g, 'want': w})
      g = mu.nanadd(np.asarray(a, dtype=float), b[0])
      w = [os_.nanadd(x, b[0]) for x in a]
      if not _vec_close(g, w, sc):
        mis.add('value_mismatch', None, {'fn': 'nanadd bcast', 'got': g, 'want': w})
      # pos_sqrt / where / safe_to_scalar
      for x in fa:
        ctx.count('misc_value_checks')
        if x >= 0:
          if not cm.close(mu.pos_sqrt(x), cm.dsqrt(cm.frac(x)), max(1.0, abs(x))):
            mis.add('value_mismatch', None, {'fn': 'pos_sqrt', 'x': x})
        else:
          try:
            mu.pos_sqrt(x)
            mis.add('value_mismatch', None, {'fn': 'pos_sqrt no raise', 'x': x})
          except ValueError:
            pass
      cond = [x > y for x, y in zip(fa, fb)]
      got = mu.where(np.asarray(cond), np.asarray(fa), np.asarray(fb))
      if [float(v) for v in got] != [float(x if c else y) for c, x, y in zip(cond, fa, fb)]:
        mis.add('value_mismatch', None, {'fn': 'where', 'got': got})
      if mu.where(cond[0], fa[0], fb[0]) != (fa[0] if cond[0] else fb[0]):
        mis.add('value_mismatch', None, {'fn': 'where scalar'})
      if mu.safe_to_scalar([fa[0]]) != fa[0] or mu.safe_to_scalar(np.asarray([fa[0]])) != fa[0]:
        mis.add('value_mismatch', None, {'fn': 'safe_to_scalar'})
      if mu.safe_to_scalar([]) != 0.0 or mu.safe_to_scalar(np.asarray([])) != 0.0:
        mis.add('value_mismatch', None, {'fn': 'safe_to_scalar empty'})
  except Exception as e:  # pylint: disable=broad-exception-caught
    mis.add('raised', None, {'error': repr(e)[:300]})
  mis.flush(ctx, case)


def check_signals(ctx, case):
  """sub 'flip': input {base, model, threshold}; 'xent': {y_true, y_pred};
  'topkacc': {y_pred, label, weights, k}."""
  import numpy as np
  sub, inp = case['sub'], case['input']
  mis = cm.Mis()
  ctx.case(('misc', sub, inp), True)
  ctx.count('misc_signal_cases')
  try:
    with cm.observed_warnings(ctx, 'misc'):
      if sub == 'flip':
        from ml_metrics._src.signals import flip_masks as fm
        base, model, thr = inp['base'], inp['model'], inp.get('threshold')
        want = [os_.flip_masks(x, y, thr) for x, y in zip(base, model)]
        fns = (fm.binary_flip_mask, fm.neg_to_pos_flip_mask, fm.pos_to_neg_flip_mask)
        for j, fn in enumerate(fns):
          for i, (x, y) in enumerate(zip(base, model)):
            ctx.count('misc_value_checks')
            xs, ys = np.asarray(base)[i], np.asarray(model)[i]
            g = fn(xs, ys) if thr is None else fn(xs, ys, threshold=thr)
            if int(bool(g)) != want[i][j] or np.ndim(g) != 0:
              mis.add('value_mismatch', None,
                      {'fn': fn.__name__, 'base': x, 'model': y, 'threshold': thr,
                       'got': g, 'want': want[i][j]})
          if thr is not None or j == 0:
            ctx.count('misc_value_checks')
            g = (fn(np.asarray(base), np.asarray(model), threshold=thr)
                 if thr is not None else fn(np.asarray(base), np.asarray(model)))
            if [int(v) for v in np.asarray(g).tolist()] != [w[j] for w in want]:
              mis.add('value_mismatch', None,
                      {'fn': fn.__name__ + ' batched', 'got': g,
                       'want': [w[j] for w in want]})
      elif sub == 'xent':
        from ml_metrics._src.signals import cross_entropy as ce
        yt, yp = np.asarray(inp['y_true']), np.asarray(inp['y_pred'], dtype=float)
        ctx.count('misc_value_checks', 2)
        g, w = ce.binary_cross_entropy(yt, yp), os_.binary_cross_entropy(
            inp['y_true'], inp['y_pred'])
        if not cm.close(g, w, 10.0):
          mis.add('value_mismatch', None,
                  {'fn': 'binary_cross_entropy', 'got': g, 'want': w})
        g, w = ce.categorical_cross_entropy(yt, yp), os_.categorical_cross_entropy(
            inp['y_true'], inp['y_pred'])
        if not cm.close(g, w, 10.0 * len(inp['y_true'])):
          mis.add('value_mismatch', None,
                  {'fn': 'categorical_cross_entropy', 'got': g, 'want': w})
      elif sub == 'topkacc':
        from ml_metrics._src.signals import topk_accuracy as ta
        w = inp.get('weights')
        ctx.count('misc_value_checks')
        if w is None:
          g = ta.topk_accurate(inp['y_pred'], inp['label'], k=inp['k'])
          want = os_.topk_accurate(inp['y_pred'], inp['label'], 1, inp['k'])
        else:
          g = ta.topk_accurate(inp['y_pred'], inp['label'], w, inp['k'])
          want = os_.topk_accurate(inp['y_pred'], inp['label'], w, inp['k'])
        if bool(g) != want:
          mis.add('value_mismatch', None, {'fn': 'topk_accurate', 'got': g, 'want': want})
  except Exception as e:  # pylint: disable=broad-exception-caught
    mis.add('raised', None, {'error': repr(e)[:300]})
  if not mis.flush(ctx, case) and len(ctx.samples) < 2:
    ctx.sample({'family': 'misc', 'sub': sub, 'input': inp})
