"""C07: family B - Tjur R^2, correlation, symmetric prediction difference,
text frequencies, math_utils, signals.

case = {'family': 'misc', 'sub': <name>, 'config': {...}, 'input': {...}}
"""

from __future__ import annotations

import math

from vlib.oracles import c07_common as cm
from vlib.oracles import c07_stats as os_


def _cat(batches, idx):
  out = []
  for b in batches:
    out.extend(b[idx])
  return out


def _vec_close(got, want, scale=1.0):
  import numpy as np
  a = np.asarray(got, dtype=float)
  if isinstance(want, list):
    return a.ndim == 1 and cm.seq_close(a.tolist(), want, scale)
  return a.ndim == 0 and cm.close(a.item(), want, scale)


RREG_INT32 = 'rregression-int32-overflow'
RREG_CANCEL = 'rregression-cancellation-large-mean'
RREG_INT64 = 'rregression-int64-overflow-integer-sums'
XENT_ZERO = 'categorical-cross-entropy-zero-probability'
_INT32_SQRT = 46340  # 46341**2 > 2**31 - 1


def _columns(x):
  x = list(x)
  if x and isinstance(x[0], (list, tuple)):
    return [[r[j] for r in x] for j in range(len(x[0]))]
  return [x]


def _condition(col):
  """max|v| / rms deviation lower bound: how many digits centring costs."""
  lo, hi = min(col), max(col)
  scale = max(abs(lo), abs(hi), 1.0)
  if hi == lo:
    return 1.0
  # two points differ by the spread -> sum of squared deviations >= spread^2 / 2
  return scale / ((hi - lo) / math.sqrt(2.0 * len(col)))


def _rreg_class(config, xs, ys, int_dtype=None):
  """-> (mechanism key of the input class | None, tolerance scale).

  int_dtype: integer container the data is handed over in on this path
  ('int32' | 'int64' for x, and for y too when config['y_int32']), else None.
  """
  cols = _columns(xs)
  cond = max([_condition(c) for c in cols] + [_condition(list(ys))])
  # A numerically stable float64 algorithm (centre first) is off by about
  # eps * cond; ATOL * scale = 1e-12 * (1 + 0.015 * cond) ~ 64 eps * cond.
  tol_scale = 1.0 + 0.015 * cond
  if int_dtype:
    y_int = bool(config.get('y_int32'))
    if int_dtype == 'int32':
      # x**2, y**2, x*y evaluated element-wise in int32
      big_x = any(abs(v) > _INT32_SQRT for c in cols for v in c)
      big_y = y_int and any(abs(v) > _INT32_SQRT for v in ys)
      prod = y_int and any(abs(v * w) >= 2 ** 31 for c in cols for v, w in zip(c, ys))
      if big_x or big_y or prod:
        return RREG_INT32, tol_scale
    if y_int:
      # all six sums are int64: their products in result() must fit int64
      iy = [int(v) for v in ys]
      sy, syy = sum(iy), sum(v * v for v in iy)
      for c in cols:
        ic = [int(v) for v in c]
        sx, sxx = sum(ic), sum(v * v for v in ic)
        if config.get('center', True):
          worst = max(sx * sx, sy * sy, abs(sx * sy))
        else:
          worst = sxx * syy
        if worst > 2 ** 63 - 1:
          return RREG_INT64, tol_scale
  if cond > 1e4:
    return RREG_CANCEL, tol_scale
  return None, tol_scale


def check_pairwise(ctx, case):
  """sub in r2tjur / r2tjur_rel / rreg / spd; input {'batches': [[a, b], ...]}.

  rreg config: center, data ('grid' | 'offset' | 'int32' = integer containers),
  int_dtype ('int32' | 'int64'), y_int32 (the target is an integer array too)."""
  import numpy as np
  from ml_metrics._src.aggregates import rolling_stats as rs

  sub, config, batches = case['sub'], case.get('config') or {}, case['input']['batches']
  center = config.get('center', True)
  make = {
      'r2tjur': rs.R2Tjur, 'r2tjur_rel': rs.R2TjurRelative,
      'rreg': lambda: rs.RRegression(center=center),
      'spd': rs.SymmetricPredictionDifference,
  }[sub]
  oracle = {
      'r2tjur': os_.r2_tjur, 'r2tjur_rel': os_.r2_tjur_relative,
      'rreg': lambda a, b: os_.r_regression(a, b, center),
      'spd': os_.spd,
  }[sub]
  mis = cm.Mis()
  n = sum(len(b[0]) for b in batches)
  ctx.case(('misc', sub, config, case['input']), n >= 3)
  ctx.count('misc_%s_cases' % sub)
  if config.get('scale_exp') is not None:
    ctx.count('misc_scaled_magnitude_cases')
  int32 = sub == 'rreg' and config.get('data') == 'int32'
  if sub == 'rreg' and config.get('data') == 'offset':
    ctx.count('misc_rreg_offset_cases')
  if int32:
    ctx.count('misc_rreg_int32_cases')

  def compare(got, want, path, a, b):
    ctx.count('misc_value_checks')
    if cm.is_nan(want) or (isinstance(want, list) and any(cm.is_nan(w) for w in want)):
      ctx.count('convention_cases')
    mech, tol_scale = None, 1.0
    if sub == 'rreg':
      # plain python ints become int64: no int32 arithmetic on that path
      path_dtype = None if not int32 else ('int64' if path == 'add_result' else int_dtype)
      mech, tol_scale = _rreg_class(config, a, b, path_dtype)
    if not _vec_close(got, want, tol_scale):
      mis.add('value_mismatch', mech,
              {'path': path, 'got': got, 'want': want})
    if sub == 'rreg':
      arr_ = np.asarray(got, dtype=float)
      if not bool(np.all(np.isnan(arr_) | ((arr_ >= -1 - 1e-9) & (arr_ <= 1 + 1e-9)))):
        mis.add('out_of_range', mech, {'got': got})

  int_dtype = config.get('int_dtype', 'int32')
  if int32:
    arr_x = lambda v: np.asarray(v, dtype=np.int32 if int_dtype == 'int32' else np.int64)
    arr_y = arr_x if config.get('y_int32') else (lambda v: np.asarray(v, dtype=float))
    plain = lambda v: [([int(e) for e in r] if isinstance(r, list) else int(r)) for r in v]
  else:
    arr_x = arr_y = lambda v: np.asarray(v, dtype=float)
    plain = lambda v: v
  try:
    with cm.observed_warnings(ctx, 'misc'):
      a0, b0 = batches[0]
      compare(make().as_agg_fn()(arr_x(a0), arr_y(b0)), oracle(a0, b0), 'agg_fn', a0, b0)
      m = make()
      # plain python lists
      m.add(plain(a0), plain(b0) if config.get('y_int32') else b0)
      compare(m.result(), oracle(a0, b0), 'add_result', a0, b0)
      m = make()
      for a, b in batches:
        m.add(arr_x(a), arr_y(b))
      ctx.count('misc_accumulator_checks')
      alla, allb = _cat(batches, 0), _cat(batches, 1)
      compare(m.result(), oracle(alla, allb), 'accumulator', alla, allb)
  except Exception as e:  # pylint: disable=broad-exception-caught
    mis.add('raised', None, {'error': repr(e)[:300]})
  if not mis.flush(ctx, case) and len(ctx.samples) < 2:
    ctx.sample({'family': 'misc', 'sub': sub, 'config': config,
                'input': case['input']})


def _freq_equal(got, want):
  got = list(got)
  if len(got) != len(want):
    return False
  for (gk, gv), (wk, wv) in zip(got, want):
    if gk != wk or not cm.close(gv, wv):
      return False
  return True


def check_text(ctx, case):
  """sub 'ngrams': config {k, n, use_first_ngram_only, count_duplicate};
  sub 'patterns': config {patterns, count_duplicate}; input {'batches': [[texts]]}."""
  from ml_metrics._src.aggregates import text as agg_text
  sub, config, batches = case['sub'], case['config'], case['input']['batches']
  if sub == 'ngrams':
    make = lambda: agg_text.TopKWordNGrams(**config)
    oracle = lambda texts: os_.topk_word_ngrams(texts, **config)
  else:
    make = lambda: agg_text.PatternFrequency(
        patterns=list(config['patterns']), count_duplicate=config['count_duplicate'])
    oracle = lambda texts: os_.pattern_frequency(
        texts, config['patterns'], config['count_duplicate'])
  mis = cm.Mis()
  alltexts = [t for b in batches for t in b]
  ctx.case(('misc', sub, config, case['input']), len(alltexts) >= 2)
  ctx.count('misc_text_cases')
  try:
    for path, got, want in (
        ('agg_fn', make().as_agg_fn()(batches[0]), oracle(batches[0])),
        ('add_return', make().add(batches[0]), oracle(batches[0])),
    ):
      ctx.count('misc_value_checks')
      if not _freq_equal(got, want):
        mis.add('value_mismatch', None, {'path': path, 'got': got, 'want': want})
    m = make()
    for b in batches:
      m.add(b)
    ctx.count('misc_value_checks')
    ctx.count('misc_accumulator_checks')
    want = oracle(alltexts)
    if not _freq_equal(m.result(), want):
      mis.add('value_mismatch', None,
              {'path': 'accumulator', 'got': m.result(), 'want': want})
  except Exception as e:  # pylint: disable=broad-exception-caught
    mis.add('raised', None, {'error': repr(e)[:300]})
  if not mis.flush(ctx, case) and len(ctx.samples) < 3:
    ctx.sample({'family': 'misc', 'sub': sub, 'config': config,
                'input': case['input']})


def check_mathutils(ctx, case):
  """input {'a': [...], 'b': [...]} element-wise operands (may contain NaN)."""
  import numpy as np
  from ml_metrics._src.utils import math_utils as mu
  a, b = case['input']['a'], case['input']['b']
  mis = cm.Mis()
  ctx.case(('misc', 'mathutils', case['input']), len(a) >= 2)
  ctx.count('misc_mathutils_cases')
  if (case.get('config') or {}).get('scale_exp') is not None:
    ctx.count('misc_scaled_magnitude_cases')
  nonan = lambda v: not (isinstance(v, float) and math.isnan(v))
  try:
    with cm.observed_warnings(ctx, 'misc'):
      # safe_divide: arrays, scalars, scalar/array broadcasting.
      fa = [x if nonan(x) else 1.0 for x in a]
      fb = [x if nonan(x) else 0.0 for x in b]
      want = [os_.safe_divide(x, y) for x, y in zip(fa, fb)]
      got = mu.safe_divide(np.asarray(fa), np.asarray(fb))
      ctx.count('misc_value_checks')
      if any(y == 0 for y in fb):
        ctx.count('convention_cases')
      if not _vec_close(got, want, max(1.0, max(abs(x) for x in fa))):
        mis.add('value_mismatch', None, {'fn': 'safe_divide', 'got': got, 'want': want})
      for x, y, w in zip(fa, fb, want):
        g = mu.safe_divide(x, y)
        ctx.count('misc_value_checks')
        if isinstance(g, np.ndarray) or not cm.close(g, w, max(1.0, abs(x))):
          mis.add('value_mismatch', None,
                  {'fn': 'safe_divide scalar', 'a': x, 'b': y, 'got': g, 'want': w})
      g = mu.safe_divide(np.asarray(fa), fb[0])
      w = [os_.safe_divide(x, fb[0]) for x in fa]
      if not _vec_close(g, w, max(1.0, max(abs(x) for x in fa))):
        mis.add('value_mismatch', None, {'fn': 'safe_divide bcast', 'got': g, 'want': w})
      # nanadd
      want = [os_.nanadd(x, y) for x, y in zip(a, b)]
      got = mu.nanadd(np.asarray(a, dtype=float), np.asarray(b, dtype=float))
      ctx.count('misc_value_checks')
      sc = max([1.0] + [abs(x) for x in a + b if nonan(x)])
      if not _vec_close(got, want, sc):
        mis.add('value_mismatch', None, {'fn': 'nanadd', 'got': got, 'want': want})
      for x, y, w in zip(a, b, want):
        g = mu.nanadd(x, y)
        ctx.count('misc_value_checks')
        if not cm.close(g, w, sc):
          mis.add('value_mismatch', None,
                  {'fn': 'nanadd scalar', 'a': x, 'b': y, 'got': g, 'want': w})
      g = mu.nanadd(np.asarray(a, dtype=float), b[0])
      w = [os_.nanadd(x, b[0]) for x in a]
      if not _vec_close(g, w, sc):
        mis.add('value_mismatch', None, {'fn': 'nanadd bcast', 'got': g, 'want': w})
      # pos_sqrt / where / safe_to_scalar
      for x in fa:
        ctx.count('misc_value_checks')
        if x >= 0:
          if not cm.close(mu.pos_sqrt(x), cm.dsqrt(cm.frac(x)), max(1.0, abs(x))):
            mis.add('value_mismatch', None, {'fn': 'pos_sqrt', 'x': x})
        else:
          try:
            mu.pos_sqrt(x)
            mis.add('value_mismatch', None, {'fn': 'pos_sqrt no raise', 'x': x})
          except ValueError:
            pass
      cond = [x > y for x, y in zip(fa, fb)]
      got = mu.where(np.asarray(cond), np.asarray(fa), np.asarray(fb))
      if [float(v) for v in got] != [float(x if c else y) for c, x, y in zip(cond, fa, fb)]:
        mis.add('value_mismatch', None, {'fn': 'where', 'got': got})
      if mu.where(cond[0], fa[0], fb[0]) != (fa[0] if cond[0] else fb[0]):
        mis.add('value_mismatch', None, {'fn': 'where scalar'})
      if mu.safe_to_scalar([fa[0]]) != fa[0] or mu.safe_to_scalar(np.asarray([fa[0]])) != fa[0]:
        mis.add('value_mismatch', None, {'fn': 'safe_to_scalar'})
      if mu.safe_to_scalar([]) != 0.0 or mu.safe_to_scalar(np.asarray([])) != 0.0:
        mis.add('value_mismatch', None, {'fn': 'safe_to_scalar empty'})
  except Exception as e:  # pylint: disable=broad-exception-caught
    mis.add('raised', None, {'error': repr(e)[:300]})
  mis.flush(ctx, case)


def check_signals(ctx, case):
  """sub 'flip': input {base, model, threshold}; 'xent': {y_true, y_pred};
  'xent01': {y_true, y_pred} with exact 0.0 / 1.0 probabilities (categorical
  only: binary_cross_entropy documents the open interval);
  'topkacc': {y_pred, label, weights, k}."""
  import numpy as np
  sub, inp = case['sub'], case['input']
  mis = cm.Mis()
  ctx.case(('misc', sub, inp), True)
  ctx.count('misc_signal_cases')
  try:
    with cm.observed_warnings(ctx, 'misc'):
      if sub == 'flip':
        from ml_metrics._src.signals import flip_masks as fm
        base, model, thr = inp['base'], inp['model'], inp.get('threshold')
        want = [os_.flip_masks(x, y, thr) for x, y in zip(base, model)]
        fns = (fm.binary_flip_mask, fm.neg_to_pos_flip_mask, fm.pos_to_neg_flip_mask)
        for j, fn in enumerate(fns):
          for i, (x, y) in enumerate(zip(base, model)):
            ctx.count('misc_value_checks')
            xs, ys = np.asarray(base)[i], np.asarray(model)[i]
            g = fn(xs, ys) if thr is None else fn(xs, ys, threshold=thr)
            if int(bool(g)) != want[i][j] or np.ndim(g) != 0:
              mis.add('value_mismatch', None,
                      {'fn': fn.__name__, 'base': x, 'model': y, 'threshold': thr,
                       'got': g, 'want': want[i][j]})
          if thr is not None or j == 0:
            ctx.count('misc_value_checks')
            g = (fn(np.asarray(base), np.asarray(model), threshold=thr)
                 if thr is not None else fn(np.asarray(base), np.asarray(model)))
            if [int(v) for v in np.asarray(g).tolist()] != [w[j] for w in want]:
              mis.add('value_mismatch', None,
                      {'fn': fn.__name__ + ' batched', 'got': g,
                       'want': [w[j] for w in want]})
      elif sub == 'xent':
        from ml_metrics._src.signals import cross_entropy as ce
        yt, yp = np.asarray(inp['y_true']), np.asarray(inp['y_pred'], dtype=float)
        ctx.count('misc_value_checks', 2)
        g, w = ce.binary_cross_entropy(yt, yp), os_.binary_cross_entropy(
            inp['y_true'], inp['y_pred'])
        if not cm.close(g, w, 10.0):
          mis.add('value_mismatch', None,
                  {'fn': 'binary_cross_entropy', 'got': g, 'want': w})
        g, w = ce.categorical_cross_entropy(yt, yp), os_.categorical_cross_entropy(
            inp['y_true'], inp['y_pred'])
        if not cm.close(g, w, 10.0 * len(inp['y_true'])):
          mis.add('value_mismatch', None,
                  {'fn': 'categorical_cross_entropy', 'got': g, 'want': w})
      elif sub == 'xent01':
        from ml_metrics._src.signals import cross_entropy as ce
        yt, yp = np.asarray(inp['y_true']), np.asarray(inp['y_pred'], dtype=float)
        ctx.count('misc_value_checks')
        ctx.count('misc_xent_closed_interval_cases')
        # input class: a class that is not true has probability exactly 0
        zero_off = any(t == 0 and p == 0 for t, p in zip(inp['y_true'], inp['y_pred']))
        if zero_off:
          ctx.count('misc_xent_zero_probability_cases')
        g, w = ce.categorical_cross_entropy(yt, yp), os_.categorical_cross_entropy(
            inp['y_true'], inp['y_pred'])
        if not cm.close(g, w, 10.0 * len(inp['y_true'])):
          mis.add('value_mismatch', XENT_ZERO if zero_off else None,
                  {'fn': 'categorical_cross_entropy', 'got': g, 'want': w})
      elif sub == 'topkacc':
        from ml_metrics._src.signals import topk_accuracy as ta
        w = inp.get('weights')
        ctx.count('misc_value_checks')
        if w is None:
          g = ta.topk_accurate(inp['y_pred'], inp['label'], k=inp['k'])
          want = os_.topk_accurate(inp['y_pred'], inp['label'], 1, inp['k'])
        else:
          g = ta.topk_accurate(inp['y_pred'], inp['label'], w, inp['k'])
          want = os_.topk_accurate(inp['y_pred'], inp['label'], w, inp['k'])
        if bool(g) != want:
          mis.add('value_mismatch', None, {'fn': 'topk_accurate', 'got': g, 'want': want})
  except Exception as e:  # pylint: disable=broad-exception-caught
    mis.add('raised', None, {'error': repr(e)[:300]})
  if not mis.flush(ctx, case) and len(ctx.samples) < 2:
    ctx.sample({'family': 'misc', 'sub': sub, 'input': inp})
