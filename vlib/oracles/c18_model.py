"""C18 oracle: a persistent-update model of nested dict/list/tuple/ndarray trees.

Leaf definition of the model: everything that is not a non-empty dict / list / tuple is
a leaf - scalars, None, str, bytes, bytearray, range, deque, numpy scalars and arrays,
empty containers. A root that is itself a leaf is handled by the leaf-root cases of
vlib/props/C18.py (`leaves()` here lists only leaves below a container root).

Pure Python (numpy only as a container). Nothing from the repository is imported here.

Paths are lists of steps: ('k', key) addresses a mapping key, ('i', n) a sequence
position. The model defines copying `set` only on the domain the library documents /
tests; anything else raises `Undefined` and the generator avoids it (see ASSUMPTIONS of
vlib/props/C18.py).
"""

from __future__ import annotations

import collections
import warnings

import numpy as np

MISSING = object()

# Sequence types that are neither list / tuple nor str: the model treats values of
# these types as leaves (only dict / list / tuple are containers, see is_branch).
SEQ_LEAF_TYPES = (bytes, bytearray, range, collections.deque)


def is_seq_leaf(x):
  return type(x) in SEQ_LEAF_TYPES


def truth_class(x):
  """Input class of a leaf: 'truthy' / 'falsy' / 'ambiguous' (bool(x) raises).

  Only used to name the input class of a case (mechanism keys), never to compute
  an expected value.
  """
  try:
    with warnings.catch_warnings():
      warnings.simplefilter('ignore')
      return 'truthy' if bool(x) else 'falsy'
  except ValueError:
    return 'ambiguous'


class Undefined(Exception):
  """The operation is outside the domain the model (and the docs) define."""


def is_int(v):
  return type(v) is int


def is_float(v):
  return type(v) is float


def m_set(node, steps, value, fresh):
  """Returns a new tree equal to `node` with `steps` set to `value`.

  Containers along the path are new objects, everything else is shared. `fresh`
  collects the ndarray copies made for element updates (they are compared by
  value, everything else by identity).
  """
  if not steps:
    return value
  (tag, k), rest = steps[0], steps[1:]
  if node is MISSING:
    if tag == 'k':
      return {k: m_set(MISSING, rest, value, fresh)}
    if tag == 'i' and k == 0:
      return [m_set(MISSING, rest, value, fresh)]
    raise Undefined('non-zero index into a missing position')
  if type(node) is dict:
    if tag != 'k':
      raise Undefined('sequence index into a mapping')
    new = dict(node)
    new[k] = m_set(node[k] if k in node else MISSING, rest, value, fresh)
    return new
  if type(node) in (list, tuple):
    if tag != 'i':
      raise Undefined('mapping key into a sequence')
    items = list(node)
    if 0 <= k < len(items):
      items[k] = m_set(items[k], rest, value, fresh)
    elif k == len(items) and type(node) is list:
      items.append(m_set(MISSING, rest, value, fresh))
    else:
      raise Undefined('index out of range / append to a tuple')
    return items if type(node) is list else tuple(items)
  if isinstance(node, np.ndarray):
    ok = (tag == 'i' and not rest and node.ndim == 1 and 0 <= k < node.shape[0]
          and ((node.dtype.kind == 'i' and is_int(value))
               or (node.dtype.kind == 'f' and is_float(value))))
    if not ok:
      raise Undefined('unsupported update inside an ndarray')
    new = node.copy()
    new[k] = value
    fresh.append(new)
    return new
  raise Undefined('path continues below a scalar leaf')


def m_get(node, steps):
  for tag, k in steps:
    if type(node) is dict and tag == 'k':
      node = node[k]
    elif type(node) in (list, tuple) and tag == 'i':
      node = node[k]
    elif isinstance(node, np.ndarray) and tag == 'i':
      node = node[k]
    else:
      raise Undefined('read below a leaf')
  return node


def is_branch(node):
  """A non-empty dict/list/tuple is a branch; everything else is a leaf."""
  return type(node) in (dict, list, tuple) and len(node) > 0


def children(node):
  if type(node) is dict:
    return [(('k', k), v) for k, v in node.items()]
  return [(('i', i), v) for i, v in enumerate(node)]


def leaves(node, prefix=()):
  """Independent DFS: [(steps, leaf)] - the root itself is never listed."""
  out = []
  if is_branch(node):
    for step, child in children(node):
      out.extend(leaves(child, prefix + (step,)))
  elif prefix:
    out.append((prefix, node))
  return out


def nodes(node, prefix=()):
  """All (steps, node) below the root, branches and leaves."""
  out = []
  if is_branch(node):
    for step, child in children(node):
      out.append((prefix + (step,), child))
      out.extend(nodes(child, prefix + (step,)))
  return out


def containers(node, prefix=()):
  """All (steps, container) including the root and empty containers."""
  out = []
  if type(node) in (dict, list, tuple):
    out.append((prefix, node))
    for step, child in children(node):
      out.extend(containers(child, prefix + (step,)))
  return out


def depth(node):
  if not is_branch(node):
    return 0
  return 1 + max(depth(c) for _, c in children(node))


def related(p, q):
  """True if one path is a prefix of the other (or they are equal)."""
  n = min(len(p), len(q))
  return tuple(p[:n]) == tuple(q[:n])


def array_same(a, b):
  return (isinstance(a, np.ndarray) and isinstance(b, np.ndarray)
          and a.dtype == b.dtype and a.shape == b.shape
          and a.tobytes() == b.tobytes())


def same(actual, model, fresh_ids, path=()):
  """None if `actual` reads like `model`, else (path, reason).

  Containers: same concrete type, same keys / length. Leaves: identical objects,
  except ndarrays the model had to copy (compared by dtype, shape and bytes).
  """
  if type(model) in (dict, list, tuple):
    if type(actual) is not type(model):
      return path, f'container type {type(actual).__name__} != {type(model).__name__}'
    if type(model) is dict:
      if set(actual.keys()) != set(model.keys()) or len(actual) != len(model):
        return path, f'keys {list(actual.keys())!r} != {list(model.keys())!r}'
      for k, v in model.items():
        r = same(actual[k], v, fresh_ids, path + (('k', k),))
        if r:
          return r
      return None
    if len(actual) != len(model):
      return path, f'length {len(actual)} != {len(model)}'
    for i, v in enumerate(model):
      r = same(actual[i], v, fresh_ids, path + (('i', i),))
      if r:
        return r
    return None
  if actual is model:
    return None
  if id(model) in fresh_ids and array_same(actual, model):
    return None
  return path, f'leaf {short(actual)} is not {short(model)}'


def short(x, n=80):
  r = repr(x)
  return r if len(r) <= n else r[:n] + '...'


def snapshot(obj):
  """Deep structural snapshot including the identity of every node."""
  t = type(obj)
  if t is dict:
    return ('d', id(obj), tuple((type(k).__name__, k, snapshot(v))
                                for k, v in obj.items()))
  if t is list:
    return ('l', id(obj), tuple(snapshot(v) for v in obj))
  if t is tuple:
    return ('t', id(obj), tuple(snapshot(v) for v in obj))
  if isinstance(obj, np.ndarray):
    return ('a', id(obj), obj.dtype.str, obj.shape, obj.tobytes())
  return ('s', id(obj), t.__name__, repr(obj))


class Originals:
  """Objects that must never change, with their snapshots."""

  def __init__(self):
    self._items = []

  def add(self, label, obj):
    self._items.append((label, obj, snapshot(obj)))

  def changed(self):
    """Labels of registered objects whose snapshot no longer matches."""
    return [label for label, obj, snap in self._items if snapshot(obj) != snap]

  def __len__(self):
    return len(self._items)
