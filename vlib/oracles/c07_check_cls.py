"""C07: classification family - runs the library, compares with the oracle.

case = {'family': 'cls', 'config': {...}, 'input': {'y_true': .., 'y_pred': ..}}
config: input_type, average, pos_label, vocab (list | None), k_list
        (list in any order, duplicates allowed | None), container ('list' |
        'array'), split (int | None)
"""

from __future__ import annotations

from vlib.oracles import c07_classification as oc
from vlib.oracles import c07_common as cm


def _container(y, config):
  import numpy as np
  if config.get('container') == 'array' and config['input_type'] != 'multiclass-multioutput':
    return np.asarray(y)
  return y


def _kwargs(config):
  vocab = config.get('vocab')
  return dict(
      pos_label=config.get('pos_label', 1),
      input_type=config['input_type'],
      average=config['average'],
      vocab={lab: i for i, lab in enumerate(vocab)} if vocab else None,
      k_list=list(config['k_list']) if config.get('k_list') else None,
  )


KLIST_ORDER = 'classification-klist-result-order'
KLIST_DUPS = 'classification-klist-duplicates-dropped'


def _klist_mechanism(config, position=None, length_differs=False):
  """Input-class key for a positional top-k result.

  The library answers in ascending order of the distinct ks. A position whose
  requested k differs from the k at that position of the sorted request is
  'displaced' (klist-result-order); a result that is shorter than a request
  with repeated ks lost the duplicates (klist-duplicates-dropped).
  """
  kl = config.get('k_list')
  if not kl:
    return None
  kl = list(kl)
  if length_differs:
    return KLIST_DUPS if len(set(kl)) != len(kl) else None
  if position is not None and position < len(kl) and kl[position] != sorted(kl)[position]:
    return KLIST_ORDER
  return None


def _mechanism(config, name, conv):
  if config['average'] == 'macro' and config.get('k_list'):
    return 'topk-macro-mean-over-k-axis'
  if name == 'prevalence_threshold' and conv.get('_pt_zero_den'):
    return 'prevalence-threshold-float-zero-denominator'
  return None


def _compare(ctx, mis, config, res, exp, path, compare_accuracy):
  """res: {name: lib value}; exp: oracle dict."""
  for name in oc.DERIVED:
    if name == 'accuracy' and not compare_accuracy:
      continue
    if name not in res:
      mis.add('missing_metric', None, {'metric': name, 'path': path})
      continue
    want = exp['values'][name]
    got = res[name]
    ctx.count('cls_value_checks')
    if exp['conv'].get(name):
      ctx.count('convention_cases')
    if isinstance(want, list):
      got_l = _tolist(got)
      if len(got_l) != len(want):
        mech = _klist_mechanism(config, length_differs=True)
        mis.add('value_mismatch', mech or _mechanism(config, name, exp['conv']),
                {'metric': name, 'path': path, 'k_list': config.get('k_list'),
                 'got': got, 'want': want})
        continue
      for j, (g, w) in enumerate(zip(got_l, want)):
        if not cm.close(g, w):
          mech = _klist_mechanism(config, position=j)
          mis.add('value_mismatch', mech or _mechanism(config, name, exp['conv']),
                  {'metric': name, 'path': path, 'k_list': config.get('k_list'),
                   'position': j, 'got': got, 'want': want})
    elif not (_is_scalar(got) and cm.close(got, want)):
      mis.add('value_mismatch', _mechanism(config, name, exp['conv']),
              {'metric': name, 'path': path, 'got': got, 'want': want})


def _tolist(v):
  import numpy as np
  a = np.asarray(v)
  return a.ravel().tolist() if a.ndim <= 1 else [None] * (a.size + 1)


def _is_scalar(v):
  import numpy as np
  return np.asarray(v).ndim == 0


def _aliases_and_ranges(ctx, mis, config, res, path):
  import numpy as np
  for group in oc.ALIASES:
    for other in group[1:]:
      if group[0] in res and other in res:
        ctx.count('cls_alias_checks')
        if not cm.bitwise_equal(res[group[0]], res[other]):
          mis.add('alias_mismatch', None,
                  {'a': group[0], 'b': other, 'path': path,
                   'got': [res[group[0]], res[other]]})
  eps = 1e-12
  for names, lo, hi in ((oc.UNIT_RANGE, 0.0, 1.0), (oc.SIGNED_RANGE, -1.0, 1.0),
                        (oc.NONNEG, 0.0, float('inf'))):
    for name in names:
      if name not in res:
        continue
      ctx.count('cls_range_checks')
      a = np.asarray(res[name], dtype=float)
      if a.size and not bool(np.all((a >= lo - eps) & (a <= hi + eps))):
        mech = None
        if name == 'prevalence_threshold':
          mech = 'prevalence-threshold-float-zero-denominator'
        mis.add('out_of_range', mech,
                {'metric': name, 'path': path, 'got': res[name]})


def check(ctx, case):
  from ml_metrics._src.aggregates import classification as agg
  from ml_metrics._src.metrics import classification as mc

  config, inp = case['config'], case['input']
  y_true_raw, y_pred_raw = inp['y_true'], inp['y_pred']
  exp = oc.oracle(config, y_true_raw, y_pred_raw)
  y_true, y_pred = _container(y_true_raw, config), _container(y_pred_raw, config)
  kw = _kwargs(config)
  average = config['average']
  samples = average == 'samples'
  mis = cm.Mis()
  basic = ('precision', 'recall', 'specificity', 'negative_prediction_value')
  nontrivial = (exp['units'] >= 2 and exp['classes'] >= 2 and
                not any(exp['conv'][b] for b in basic))
  ctx.case(('cls', config, inp), nontrivial)
  ctx.count('cls_cases')
  if config.get('k_list') and list(config['k_list']) != sorted(set(config['k_list'])):
    ctx.count('cls_unordered_klist_cases')
  metrics = list(oc.DERIVED)

  def guarded(path, fn):
    try:
      with cm.observed_warnings(ctx, 'cls'):
        return True, fn()
    except Exception as e:  # pylint: disable=broad-exception-caught
      mis.add('raised', _mechanism(config, '', exp['conv']),
              {'path': path, 'error': repr(e)[:300]})
      return False, None

  # --- path 1: ClassificationAggFn.__call__ (dispatching wrapper) -----------
  ok, res_call = guarded(
      'ClassificationAggFn.__call__',
      lambda: cm.norm_keys(mc.ClassificationAggFn(metrics, **kw)(y_true, y_pred)))
  if ok:
    _compare(ctx, mis, config, res_call, exp, 'agg_call', samples)
    _aliases_and_ranges(ctx, mis, config, res_call, 'agg_call')

  # --- path 2: the underlying class, accumulator protocol ---------------------
  def accumulate(batches):
    sub = {k: v for k, v in kw.items() if k != 'k_list'}
    if samples:
      sub.pop('average')
      m = agg.SamplewiseClassification(metrics=metrics, **sub)
      for yt, yp in batches:
        m.add(yt, yp)
      return cm.norm_keys(m.result())
    if kw['k_list']:
      fn = agg.TopKConfusionMatrixAggFn(metrics=metrics, k_list=kw['k_list'], **sub)
    else:
      fn = agg.ConfusionMatrixAggFn(metrics=metrics, **sub)
    state = fn.create_state()
    for yt, yp in batches:
      state = fn.update_state(state, yt, yp)
    return cm.norm_keys(fn.get_result(state))

  ok2, res_acc = guarded('accumulator', lambda: accumulate([(y_true, y_pred)]))
  if ok2:
    ctx.count('cls_accumulator_checks')
    _compare(ctx, mis, config, res_acc, exp, 'accumulator', samples)
    if ok:
      for name in metrics:
        if name in res_call and name in res_acc and not cm.same_value(
            res_call[name], res_acc[name]):
          mis.add('api_paths_differ', _mechanism(config, name, exp['conv']),
                  {'metric': name, 'call': res_call[name], 'acc': res_acc[name]})

  split = config.get('split')
  if split and 0 < split < len(y_true_raw):
    b1 = (_container(y_true_raw[:split], config), _container(y_pred_raw[:split], config))
    b2 = (_container(y_true_raw[split:], config), _container(y_pred_raw[split:], config))
    ok3, res_multi = guarded('accumulator_2_batches', lambda: accumulate([b1, b2]))
    if ok3:
      ctx.count('cls_multibatch_checks')
      _compare(ctx, mis, config, res_multi, exp, 'accumulator_2_batches', samples)

  # --- path 3: one-shot function API ------------------------------------------
  pos_present = True
  if config['input_type'] == 'binary' and average == 'binary':
    labels = list(config['vocab']) if config.get('vocab') else (
        list(y_true_raw) + list(y_pred_raw))
    pos_present = any(v == kw['pos_label'] for v in labels)
  if ok:
    for name in metrics:
      fn = getattr(mc, name)
      ctx.count('cls_function_api_checks')
      try:
        with cm.observed_warnings(ctx, 'cls'):
          got = fn(y_true, y_pred, **kw)
      except ValueError as e:
        if not pos_present and 'Pos label' in str(e):
          ctx.count('cls_pos_label_rejected')
          continue
        mis.add('raised', None, {'path': 'fn:' + name, 'error': repr(e)[:300]})
        continue
      except Exception as e:  # pylint: disable=broad-exception-caught
        mis.add('raised', None, {'path': 'fn:' + name, 'error': repr(e)[:300]})
        continue
      if not pos_present:
        mis.add('pos_label_not_validated', None, {'fn': name})
        continue
      if not cm.same_value(got, res_call[name]):
        mis.add('api_paths_differ', _mechanism(config, name, exp['conv']),
                {'metric': name, 'function': got, 'agg': res_call[name]})
    if pos_present:
      okm, res_fn = guarded(
          'classification_metrics',
          lambda: cm.norm_keys(mc.classification_metrics(
              metrics, y_true=y_true, y_pred=y_pred, **kw)))
      if okm:
        for name in metrics:
          if not cm.same_value(res_fn.get(name), res_call[name]):
            mis.add('api_paths_differ', _mechanism(config, name, exp['conv']),
                    {'metric': name, 'classification_metrics': res_fn.get(name),
                     'agg': res_call[name]})

  # --- raw confusion counts (default metric) ----------------------------------
  if not samples:
    def raw():
      sub = {k: v for k, v in kw.items() if k != 'k_list'}
      if kw['k_list']:
        return agg.TopKConfusionMatrixAggFn(k_list=kw['k_list'], **sub)(y_true, y_pred)
      return agg.ConfusionMatrixAggFn(**sub)(y_true, y_pred)
    okc, cmat = guarded('confusion_matrix', raw)
    if okc:
      import numpy as np
      ctx.count('cls_count_checks')
      cnts = exp['counts']
      def want_of(key):
        if kw['k_list']:
          return [[c[key] for c in ck] if isinstance(ck, list) else ck[key]
                  for ck in cnts]
        return [c[key] for c in cnts] if isinstance(cnts, list) else cnts[key]
      for key in ('tp', 'tn', 'fp', 'fn'):
        got = np.asarray(getattr(cmat, key))
        want = np.asarray(want_of(key))
        if got.shape != want.shape:
          mech = None
          if kw['k_list'] and got.shape[1:] == want.shape[1:]:
            mech = _klist_mechanism(config, length_differs=True)
          mis.add('count_mismatch', mech, {'count': key, 'got': got, 'want': want})
        elif not bool(np.array_equal(got, want)):
          mech = None
          if kw['k_list']:
            bad = [j for j in range(len(want)) if not np.array_equal(got[j], want[j])]
            mech = _klist_mechanism(config, position=bad[0])
          mis.add('count_mismatch', mech, {'count': key, 'got': got, 'want': want})
      if kw['k_list']:
        got_k = list(np.asarray(cmat.k).tolist())
        if got_k != exp['ks']:
          bad = [j for j, (a, b) in enumerate(zip(got_k, exp['ks'])) if a != b]
          mech = (_klist_mechanism(config, length_differs=True)
                  if len(got_k) != len(exp['ks'])
                  else _klist_mechanism(config, position=bad[0]))
          mis.add('count_mismatch', mech, {'k': cmat.k, 'want': exp['ks']})

  if not mis.flush(ctx, case) and len(ctx.samples) < 2:
    ctx.sample({'family': 'cls', 'config': config, 'input': inp,
                'precision': cm.jsonable(exp['values']['precision'])})
