"""C07 oracle self-test: literal expectations copied from the repository's unit
tests (*_test.py next to the code under test), replayed through the oracles
only. A disagreement is an oracle bug (kind='oracle_selftest').

One literal is deliberately NOT replayed: retrieval threat_score@2 =
(2.5 + 1/3) / 8 from retrieval_test.py pins the disputed behaviour
(mechanism 'retrieval-threat-score-uses-k'); threat_score@1 is replayed.
"""

from __future__ import annotations

import math

from vlib.oracles import c07_classification as oc
from vlib.oracles import c07_common as cm
from vlib.oracles import c07_retrieval as orc
from vlib.oracles import c07_stats as os_

TOL = dict(rtol=1e-7, atol=1e-9)

YP7 = [1, 0, 1, 0, 1, 0, 0]
YT7 = [1, 1, 0, 0, 1, 0, 1]
IND_P = [[1, 0], [0, 1], [1, 0], [0, 1], [1, 0], [0, 1], [0, 1]]
IND_T = [[1, 0], [1, 0], [0, 1], [0, 1], [1, 0], [0, 1], [1, 0]]
STR_P = ['Y', 'N', 'Y', 'N', 'Y', 'N', 'N']
STR_T = ['Y', 'Y', 'N', 'N', 'Y', 'N', 'Y']
MC_P = ['y', 'n', 'y', 'n', 'y', 'n', 'n', 'u']
MC_T = ['y', 'y', 'n', 'n', 'y', 'n', 'y', 'u']
MO_P = [['y'], ['n', 'y'], ['y'], ['n'], ['y'], ['n'], ['n'], ['u']]
MO_T = [['y'], ['y'], ['n'], ['n'], ['y', 'n'], ['n'], ['y'], ['u']]
VOC = ['y', 'n', 'u']
S6, S3, S2 = math.sqrt(6), math.sqrt(3), math.sqrt(0.5)

BINARY_EXPECTED = {
    'precision': 2 / 3, 'ppv': 2 / 3, 'recall': 2 / 4, 'f1_score': 4 / 7,
    'binary_accuracy': 4 / 7, 'sensitivity': 2 / 4, 'tpr': 2 / 4,
    'specificity': 2 / 3, 'tnr': 2 / 3, 'fall_out': 1 / 3, 'fpr': 1 / 3,
    'miss_rate': 2 / 4, 'fnr': 2 / 4, 'negative_prediction_value': 2 / 4,
    'nvp': 2 / 4, 'false_discovery_rate': 1 / 3, 'false_omission_rate': 2 / 4,
    'threat_score': 2 / 5, 'positive_likelihood_ratio': 3 / 2,
    'negative_likelihood_ratio': 3 / 4, 'diagnostic_odds_ratio': 4 / 2,
    'positive_predictive_value': 2 / 3, 'intersection_over_union': 2 / 5,
    'prevalence': 4 / 7, 'prevalence_threshold': S6 - 2,
    'matthews_correlation_coefficient': 1 / 6, 'informedness': 1 / 6,
    'markedness': 1 / 6, 'balanced_accuracy': 7 / 12,
}
MACRO_EXPECTED = {
    'precision': (2 / 3 + 2 / 4) / 2, 'recall': (2 / 4 + 2 / 3) / 2,
    'f1_score': 4 / 7, 'binary_accuracy': 4 / 7,
    'specificity': (2 / 3 + 2 / 4) / 2, 'fall_out': (1 / 3 + 2 / 4) / 2,
    'miss_rate': (2 / 4 + 1 / 3) / 2,
    'negative_prediction_value': (2 / 4 + 2 / 3) / 2,
    'false_discovery_rate': (1 / 3 + 2 / 4) / 2,
    'false_omission_rate': (2 / 4 + 1 / 3) / 2, 'threat_score': 2 / 5,
    'positive_likelihood_ratio': (6 / 4 + 4 / 3) / 2,
    'negative_likelihood_ratio': (3 / 4 + 4 / 6) / 2,
    'diagnostic_odds_ratio': 2.0, 'prevalence': 0.5,
    'prevalence_threshold': ((S6 - 2) + (2 * S3 - 3)) / 2,
    'matthews_correlation_coefficient': 1 / 6, 'informedness': 1 / 6,
    'markedness': 1 / 6, 'balanced_accuracy': 7 / 12,
}
SAMPLES_IND = {  # y_pred/y_true of the 6-row indicator test
    'precision': 0.5, 'recall': 0.5, 'f1_score': 0.5, 'accuracy': 0.5,
    'binary_accuracy': 0.5, 'specificity': 0.5, 'fall_out': 0.5, 'miss_rate': 0.5,
    'negative_prediction_value': 0.5, 'false_discovery_rate': 0.5,
    'false_omission_rate': 0.5, 'threat_score': 0.5,
    'positive_likelihood_ratio': 0.0, 'negative_likelihood_ratio': 0.0,
    'diagnostic_odds_ratio': 0.0, 'prevalence': 0.5, 'prevalence_threshold': 0.5,
    'matthews_correlation_coefficient': 0.0, 'informedness': 0.0,
    'markedness': 0.0, 'balanced_accuracy': 0.5,
}
SAMPLES_MC = {
    'precision': 0.625, 'recall': 0.625, 'f1_score': 0.625, 'accuracy': 0.625,
    'binary_accuracy': 0.75, 'specificity': 0.8125, 'fall_out': 0.1875,
    'miss_rate': 0.375, 'negative_prediction_value': 0.8125,
    'false_discovery_rate': 0.375, 'false_omission_rate': 0.1875,
    'threat_score': 0.625, 'positive_likelihood_ratio': 0.0,
    'negative_likelihood_ratio': 0.75, 'diagnostic_odds_ratio': 0.0,
    'intersection_over_union': 0.625, 'prevalence': 1 / 3,
    'prevalence_threshold': 3 / 8, 'matthews_correlation_coefficient': 3.5 / 8,
    'informedness': 3.5 / 8, 'markedness': 3.5 / 8, 'balanced_accuracy': 5.75 / 8,
}
SAMPLES_MO = {
    'precision': 0.6875, 'recall': 0.6875, 'f1_score': 2 / 3, 'accuracy': 0.75,
    'binary_accuracy': 0.75, 'specificity': 0.8125, 'fall_out': 0.1875,
    'miss_rate': 0.3125, 'negative_prediction_value': 0.8125,
    'false_discovery_rate': 0.3125, 'false_omission_rate': 0.1875,
    'threat_score': 0.625, 'positive_likelihood_ratio': 0.25,
    'negative_likelihood_ratio': 0.5625, 'diagnostic_odds_ratio': 0.0,
    'prevalence': 3 / 8, 'prevalence_threshold': (1 / S2 + 1) / 8,
    'matthews_correlation_coefficient': 0.5, 'informedness': 0.5,
    'markedness': 0.5, 'balanced_accuracy': 0.75,
}
MICRO_MO = {  # metrics/classification_test.py: (no k_list, k_list=[1, 2])
    'precision': (2 / 3, [5 / 8, 2 / 3]), 'recall': (2 / 3, [5 / 9, 2 / 3]),
    'f1_score': (2 / 3, [10 / 17, 2 / 3]),
    'binary_accuracy': (3 / 4, [17 / 24, 3 / 4]),
    'specificity': (4 / 5, [4 / 5, 4 / 5]), 'fall_out': (1 / 5, [1 / 5, 1 / 5]),
    'miss_rate': (1 / 3, [4 / 9, 1 / 3]),
    'negative_prediction_value': (4 / 5, [3 / 4, 4 / 5]),
    'false_discovery_rate': (1 / 3, [3 / 8, 1 / 3]),
    'false_omission_rate': (1 / 5, [1 / 4, 1 / 5]),
    'threat_score': (1 / 2, [5 / 12, 1 / 2]),
    'positive_likelihood_ratio': (10 / 3, [25 / 9, 10 / 3]),
    'negative_likelihood_ratio': (5 / 12, [5 / 9, 5 / 12]),
    'diagnostic_odds_ratio': (8.0, [5, 8]),
    'intersection_over_union': (1 / 2, [5 / 12, 1 / 2]),
    'prevalence': (3 / 8, [3 / 8, 3 / 8]),
    'prevalence_threshold': ((math.sqrt(30) - 3) / 7,
                             [3 / 8, (math.sqrt(30) - 3) / 7]),
    'matthews_correlation_coefficient': (7 / 15, [math.sqrt(2 / 15), 7 / 15]),
    'informedness': (7 / 15, [16 / 45, 7 / 15]),
    'markedness': (7 / 15, [3 / 8, 7 / 15]),
    'balanced_accuracy': (11 / 15, [61 / 90, 11 / 15]),
}

L3 = 1 / math.log2(3)
RETR_MO = {  # k_list = [1, 2]
    'fowlkes_mallows_index': [
        sum(math.sqrt(v) for v in [1, 0, 0, 1, 0.5, 1, 0, 1]) / 8,
        sum(math.sqrt(v) for v in [1, 0.5, 0, 1, 0.5, 1, 0, 1]) / 8],
    'threat_score': [4.5 / 8, None],  # @2 literal disputed, see module docstring
    'dcg_score': [5 / 8, (L3 + 5) / 8],
    'ndcg_score': [5 / 8, (4 + L3 + 1 / (1 + L3)) / 8],
    'mean_reciprocal_rank': [5 / 8, 5.5 / 8],
    'precision': [5 / 8, 5.5 / 8], 'ppv': [5 / 8, 5.5 / 8],
    'false_discovery_rate': [3 / 8, 2.5 / 8],
    'mean_average_precision': [5 / 8, 5 / 8],
    'recall': [4.5 / 8, 5.5 / 8], 'sensitivity': [4.5 / 8, 5.5 / 8],
    'tpr': [4.5 / 8, 5.5 / 8], 'positive_predictive_value': [5 / 8, 5.5 / 8],
    'intersection_over_union': [4.5 / 8, 5 / 8], 'miss_rate': [3.5 / 8, 2.5 / 8],
    'f1_score': [(4 + 2 / 3) / 8, (4 + 4 / 3) / 8], 'accuracy': [5 / 8, 6 / 8],
}


def run(ctx):
  fails = []

  def expect(name, got, want, **tol):
    ctx.count('selftest_checks')
    tol = tol or TOL
    if isinstance(want, (list, tuple)):
      ok = cm.seq_close(got, want, **tol)
    else:
      ok = cm.close(cm.to_float(got), want, **tol)
    if not ok:
      fails.append({'literal': name, 'oracle': cm.jsonable(got), 'test_expects': want})

  def expect_eq(name, got, want):
    ctx.count('selftest_checks')
    if got != want:
      fails.append({'literal': name, 'oracle': cm.jsonable(got), 'test_expects': want})

  def cls(it, avg, yt, yp, **kw):
    cfg = dict(input_type=it, average=avg, pos_label=1, vocab=None, k_list=None)
    cfg.update(kw)
    return oc.oracle(cfg, yt, yp)

  # --- aggregates/classification_test.py: confusion counts ------------------
  def cnt4(c):
    return [c['tp'], c['tn'], c['fp'], c['fn']]
  expect_eq('cm binary', cnt4(cls('binary', 'binary', YT7, YP7)['counts']), [2, 2, 1, 2])
  expect_eq('cm indicator binary',
            cnt4(cls('multiclass-indicator', 'binary', IND_T, IND_P)['counts']), [2, 2, 1, 2])
  expect_eq('cm str binary',
            cnt4(cls('binary', 'binary', STR_T, STR_P, pos_label='Y')['counts']), [2, 2, 1, 2])
  expect_eq('cm binary micro', cnt4(cls('binary', 'micro', YT7, YP7)['counts']), [4, 4, 3, 3])
  expect_eq('cm indicator micro',
            cnt4(cls('multiclass-indicator', 'micro', IND_T, IND_P)['counts']), [4, 4, 3, 3])
  expect_eq('cm multiclass micro',
            cnt4(cls('multiclass', 'micro', MC_T, MC_P)['counts']), [5, 13, 3, 3])
  expect_eq('cm multioutput micro',
            cnt4(cls('multiclass-multioutput', 'micro', MO_T, MO_P)['counts']), [6, 12, 3, 3])
  def per(cs):
    return [[c[k] for c in cs] for k in ('tp', 'tn', 'fp', 'fn')]
  expect_eq('cm binary macro', per(cls('binary', 'macro', YT7, YP7)['counts']),
            [[2, 2], [2, 2], [1, 2], [2, 1]])
  expect_eq('cm indicator macro',
            per(cls('multiclass-indicator', 'macro', IND_T, IND_P)['counts']),
            [[2, 2], [2, 2], [1, 2], [2, 1]])
  expect_eq('cm multiclass macro',
            per(cls('multiclass', 'macro', MC_T, MC_P, vocab=VOC)['counts']),
            [[2, 2, 1], [3, 3, 7], [1, 2, 0], [2, 1, 0]])
  expect_eq('cm multioutput macro',
            per(cls('multiclass-multioutput', 'macro', MO_T, MO_P, vocab=VOC)['counts']),
            [[3, 2, 1], [3, 2, 7], [1, 2, 0], [1, 2, 0]])
  # top-k confusion matrices
  r = cls('multiclass', 'micro', MC_T, MC_P, k_list=[1, 2])
  expect_eq('topk multiclass micro', [cnt4(c) for c in r['counts']],
            [[5, 13, 3, 3], [5, 13, 3, 3]])
  r = cls('multiclass-multioutput', 'micro', MO_T, MO_P, k_list=[1, 2])
  expect_eq('topk multioutput micro', [cnt4(c) for c in r['counts']],
            [[5, 12, 3, 4], [6, 12, 3, 3]])
  r = cls('multiclass-multioutput', 'macro', MO_T, MO_P, k_list=[1, 2], vocab=VOC)
  expect_eq('topk multioutput macro', [per(c) for c in r['counts']],
            [[[2, 2, 1], [3, 2, 7], [1, 2, 0], [2, 2, 0]],
             [[3, 2, 1], [3, 2, 7], [1, 2, 0], [1, 2, 0]]])
  r = cls('multiclass', 'macro', MC_T, MC_P, k_list=[1, 2], vocab=VOC)
  expect_eq('topk multiclass macro', [per(c) for c in r['counts']],
            [[[2, 2, 1], [3, 3, 7], [1, 2, 0], [2, 1, 0]]] * 2)

  # --- derived metrics --------------------------------------------------------
  for label, res in (
      ('binary', cls('binary', 'binary', YT7, YP7)),
      ('indicator-binary', cls('multiclass-indicator', 'binary', IND_T, IND_P)),
      ('str-binary', cls('binary', 'binary', STR_T, STR_P, pos_label='Y'))):
    for name, want in BINARY_EXPECTED.items():
      expect(f'derived {label} {name}', res['values'][name], want)
  res = cls('binary', 'macro', YT7, YP7)
  for name, want in MACRO_EXPECTED.items():
    expect(f'derived macro {name}', res['values'][name], want)
  ind6_p = [[1, 0], [0, 1], [1, 0], [0, 1], [1, 0], [0, 1]]
  ind6_t = [[1, 0], [1, 0], [0, 1], [0, 1], [1, 0], [1, 0]]
  for label, res, table in (
      ('samples indicator', cls('multiclass-indicator', 'samples', ind6_t, ind6_p), SAMPLES_IND),
      ('samples multiclass', cls('multiclass', 'samples', MC_T, MC_P), SAMPLES_MC),
      ('samples multioutput', cls('multiclass-multioutput', 'samples', MO_T, MO_P), SAMPLES_MO)):
    for name, want in table.items():
      expect(f'{label} {name}', res['values'][name], want)
  no_k = cls('multiclass-multioutput', 'micro', MO_T, MO_P)
  with_k = cls('multiclass-multioutput', 'micro', MO_T, MO_P, k_list=[1, 2])
  for name, (w0, wk) in MICRO_MO.items():
    expect(f'micro {name}', no_k['values'][name], w0)
    expect(f'micro@k {name}', with_k['values'][name], wk)
  expect('samples precision 11/16',
         cls('multiclass-multioutput', 'samples', MO_T, MO_P)['values']['precision'], 11 / 16)
  expect('default precision', cls('binary', 'binary', [1, 0, 1, 1], [1, 1, 0, 1])
         ['values']['precision'], 2 / 3)
  # closed forms agree with the composite definitions (exact)
  for tp, tn, fp, fn in ((2, 2, 1, 2), (6, 12, 3, 3), (1, 5, 2, 7), (3, 1, 1, 1)):
    vals, _ = oc.rates(tp, tn, fp, fn)
    for name, want in oc.closed_forms(tp, tn, fp, fn).items():
      expect_eq(f'closed form {name} {tp, tn, fp, fn}', vals[name], want)

  # --- retrieval ----------------------------------------------------------------
  ret = orc.oracle(MO_T, MO_P, [1, 2])
  for name, want in RETR_MO.items():
    for j, w in enumerate(want):
      if w is not None:
        expect(f'retrieval {name}@{j + 1}', ret[name][j], w)
  ret = orc.oracle(orc.as_rows(MC_T, 'multiclass'), orc.as_rows(MC_P, 'multiclass'), [1, 2])
  for name in orc.METRICS:
    w = 3 / 8 if name in ('false_discovery_rate', 'miss_rate') else 5 / 8
    expect(f'retrieval multiclass {name}', ret[name], [w, w])
  expect('retrieval k=None precision', orc.oracle(MO_T, MO_P, None)['precision'], [5.5 / 8])
  yt = [['a', 'c', 'e', 'h']] * 2
  yp = [['a', 'b', 'c', 'd', 'e']] * 2
  thr = orc.thresholded_oracle(yt, yp, [[0.1, 0.2, 0.3, 0.4, 0.5]] * 2, (0.2, 0.3, 0.5))
  expect('thresholded recall', thr['recall'], [1 / 2, 1 / 4, 0.0])
  expect('thresholded precision', thr['precision'], [2 / 3, 1 / 2, 0.0])
  f1 = lambda p, r: 2 * p * r / (p + r)
  expect('thresholded f1', thr['f1_score'], [f1(2 / 3, 1 / 2), f1(1 / 2, 1 / 4), 0.0])
  thr = orc.thresholded_oracle(yt, yp, None, (0.0,))
  expect('thresholded noprob', [thr['recall'][0], thr['precision'][0], thr['f1_score'][0]],
         [3 / 4, 3 / 5, f1(3 / 4, 3 / 5)])

  # --- rolling stats --------------------------------------------------------------
  in1 = (0, 1, 0, 1, 1, 1, 0, 1)
  in2 = (0.2, 0.8, 0.5, -0.1, 0.5, 0.8, 0.2, 1.1)
  e5 = os_.uniform_edges(0, 1, 5)
  expect('histogram', os_.histogram(in1 + in2, e5), [3, 2, 2, 0, 7])
  expect('histogram edges', e5, [0, 0.2, 0.4, 0.6, 0.8, 1])
  cal = os_.calibration(in1, in2, 0, 1, 5)
  expect('calibration n', cal['num_examples_hist'], [3, 2, 2, 0, 7])
  expect('calibration labels', cal['labels_hist'], [0, 0, 0, 0, 5])
  expect('calibration preds', cal['predictions_hist'], [0, 0.4, 1, 0, 1.6])
  expect_eq('counter', os_.counter(['a', 'b', 'c', 'a']), {'a': 2, 'b': 1, 'c': 1})
  st = os_.nan_stats([1, 2])
  expect('mv [1,2]', [st['count'], st['total'], st['mean'], st['var'], st['stddev']],
         [2, 3.0, 1.5, 0.25, 0.5])
  st = os_.nan_stats([[1, 2], [2, 4]])
  expect('mv 2d mean', st['mean'], [1.5, 3.0])
  expect('mv 2d var', st['var'], [0.25, 1.0])
  st = os_.nan_stats([1, 2, 3, float('nan')])
  expect('mv nan', [st['mean'], st['var'], st['count'], st['total']], [2.0, 2 / 3, 3, 6.0])
  st = os_.nan_stats([])
  expect('mv empty', [st['count'], st['total'], st['mean'], st['var']],
         [0, 0, float('nan'), float('nan')])
  expect('mean [1..6]', os_.nan_stats([1, 2, 3, 4, 5, 6])['mean'], 3.5)
  b1 = ((1, 2, 3, 4, 5, 6, 7, 8, 9), (2, 4, 6, 8, 10, 12, 14, 16, 18))
  b2 = ((1, 2, 3, 4, 5, 6, 7, 0, 0), (8, 6, 7, 5, 3, 0, 9, 9, 9))
  b3 = ((1, 2, 3, 4, 5, 4, 3, 2, 1), (4, 4, 4, 4, 4, 4, 4, 4, 4))
  mm = os_.min_max_count([b1, b2, b3], axis=None)
  expect('minmax none', [mm['count'], mm['min'], mm['max']], [54, 0, 18])
  mm = os_.min_max_count([b1, b2, b3], axis=0)
  expect('minmax axis0 min', mm['min'], (1, 2, 3, 4, 3, 0, 3, 0, 0))
  expect('minmax axis0 max', mm['max'], (8, 6, 7, 8, 10, 12, 14, 16, 18))
  mm = os_.min_max_count([(1, 2, 3, 4, 5, 6, 7, 8, 9), (8, 6, 7, 5, 3, 0, 9),
                          (5, 4, 3, 2, 1)], score='len')
  expect('minmax len', [mm['count'], mm['min'], mm['max']], [21, 5, 9])
  expect('r2tjur', os_.r2_tjur((0, 1, 1), (0.8, 0.3, 0.9)), (1.2 / 2.0) - 0.8)
  expect('r2tjur rel', os_.r2_tjur_relative((0, 1, 1), (0.8, 0.3, 0.9)), (1.2 / 2.0) / 0.8)
  expect_eq('r2tjur nan0', cm.is_nan(os_.r2_tjur((0, 0, 0), (1, 0, 1))), True)
  expect_eq('r2tjur nan1', cm.is_nan(os_.r2_tjur((1, 1, 1), (1, 0, 1))), True)
  expect_eq('r2tjur rel nan', cm.is_nan(os_.r2_tjur_relative((1, 0, 1), (1, 0, 1))), True)
  x = (1, 2, 3, 4, 5, 6, 7)
  y = (10, 9, 2.5, 6, 4, 3, 2)
  expect('pearson', os_.r_regression(x, y, True), -0.8285038835884279)
  expect('reflective', os_.r_regression(x, y, False), 0.5933285714624903)
  x2 = [[a, b] for a, b in zip(y, (8, 6, 7, 5, 3, 0, 9))]
  expect('pearson multi', os_.r_regression(x2, x, True), (-0.82850388, -0.32338709))
  expect('reflective multi', os_.r_regression(x2, x, False), (0.59332857, 0.72301752))
  expect_eq('pearson nan', cm.is_nan(os_.r_regression((0, 0), (0, 0), True)), True)
  expect('spd', os_.spd((0, 1, 1), (0.8, 0.3, 0.9)), 1.06072874494, rtol=1e-10, atol=1e-11)
  expect('spd opposite', os_.spd((1, 2), (-1, -2)), 0.0)

  # --- text -------------------------------------------------------------------------
  batch = ['c c', 'b B b', 'd a a']
  def ng(**kw):
    return [(g, cm.to_float(f)) for g, f in os_.topk_word_ngrams(batch, **kw)]
  expect_eq('ngrams distinct', ng(k=2, n=2, count_duplicate=False),
            [('a a', 1 / 3), ('b b', 1 / 3)])
  expect_eq('ngrams dup', ng(k=2, n=2), [('b b', 2 / 3), ('a a', 1 / 3)])
  expect_eq('ngrams first', ng(k=2, n=2, use_first_ngram_only=True),
            [('b b', 1 / 3), ('c c', 1 / 3)])
  expect_eq('ngrams large k', ng(k=10, n=2),
            [('b b', 2 / 3), ('a a', 1 / 3), ('c c', 1 / 3), ('d a', 1 / 3)])
  expect_eq('ngrams large n', ng(k=4, n=10), [])
  expect_eq('ngrams 1n', ng(k=2, n=1), [('b', 3 / 3), ('a', 2 / 3)])
  expect_eq('ngrams 3n', ng(k=2, n=3), [('b b b', 1 / 3), ('d a a', 1 / 3)])
  def pf(dup):
    return sorted((p, cm.to_float(f)) for p, f in os_.pattern_frequency(
        ['ab ab xyx', 'xyxyx'], ['ab', 'xyx', 'mmm'], dup))
  expect_eq('patterns nodup', pf(False), [('ab', 1 / 2), ('mmm', 0.0), ('xyx', 1.0)])
  expect_eq('patterns dup', pf(True), [('ab', 1.0), ('mmm', 0.0), ('xyx', 3 / 2)])

  # --- math utils / signals -------------------------------------------------------------
  for a, b, w in ((0, 0, 0.0), (0, 10, 0.0), (10, 0, 0.0), (10.5, 3, 3.5), (14, 3.5, 4.0)):
    expect(f'safe_divide {a}/{b}', os_.safe_divide(a, b), w)
  nan = float('nan')
  expect('nanadd', [os_.nanadd(*p) for p in ((1, 1), (0, nan), (nan, nan), (nan, 3), (1, nan))],
         [2, 0, nan, 3, 1])
  base, model = (0.1, 0.1, 0.9, 0.9), (0.2, 0.9, 0.1, 0.8)
  masks = [os_.flip_masks(b, m, 0.5) for b, m in zip(base, model)]
  expect_eq('flip thr', [list(z) for z in zip(*masks)],
            [[0, 1, 1, 0], [0, 1, 0, 0], [0, 0, 1, 0]])
  masks = [os_.flip_masks(b, m, None) for b, m in zip((0, 0, 1, 1), (0, 1, 0, 1))]
  expect_eq('flip int', [list(z) for z in zip(*masks)],
            [[0, 1, 1, 0], [0, 1, 0, 0], [0, 0, 1, 0]])
  yt8 = (0, 1, 0, 1, 0, 1, 0, 1)
  yp8 = (0.1, 0.1, 0.4, 0.4, 0.6, 0.6, 0.9, 0.9)
  expect('bce', os_.binary_cross_entropy(yt8, yp8), 0.9587651091286978, rtol=1e-6, atol=1e-6)
  expect('cce', os_.categorical_cross_entropy(yt8, yp8), 9.38023940877158, rtol=1e-6, atol=1e-6)
  sc = [0.2, 0.7, 0.1]
  expect_eq('topk acc', [os_.topk_accurate(sc, 1, 1, 1), os_.topk_accurate(sc, 0, 1, 1),
                         os_.topk_accurate(sc, 0, 1, 2)], [True, False, True])
  expect_eq('topk acc weights',
            [os_.topk_accurate(sc, 1, [1.0, 1.0 / 3.49, 1.0], 1),
             os_.topk_accurate(sc, 1, [1.0, 1.0 / 3.51, 1.0], 1),
             os_.topk_accurate(sc, 0, [1.0, 1.0 / 3.51, 1.0], 2)], [True, False, True])
  # --- hand-computed literals for the widened input classes ----------------------
  mm = os_.min_max_count([[-3.0, -1.5], [-7.0]])
  expect('minmax all negative', [mm['count'], mm['min'], mm['max']], [3, -7.0, -1.5])
  mm = os_.min_max_count([[[1.0, -2.0], [3.0, -4.0]], [[2.0, -9.0]]], axis=0)
  expect('minmax axis0 negative column', mm['min'] + mm['max'], [1.0, -9.0, 3.0, -2.0])
  mm = os_.min_max_count([[-1, -2], [-5, 1]], score='sum')
  expect('minmax batch sums', [mm['min'], mm['max']], [-4, -3])
  expect('cce zero off-class', os_.categorical_cross_entropy((1, 0, 0), (0.5, 0.5, 0.0)),
         0.6931471805599453)
  expect('cce one-hot', os_.categorical_cross_entropy((0, 1), (0.0, 1.0)), 0.0)
  expect_eq('cce impossible true class',
            os_.categorical_cross_entropy((1, 0), (0.0, 1.0)), float('inf'))
  # request order / repeated ks: precision@1 = 0, precision@2 = 1/2 per row
  yt2, yp2 = [['a'], ['b']], [['x', 'a'], ['y', 'b']]
  expect('retrieval k order', orc.oracle(yt2, yp2, [2, 1, 2])['precision'], [0.5, 0.0, 0.5])
  cfg = dict(input_type='multiclass-multioutput', average='micro', pos_label=1,
             vocab=None, k_list=[2, 1, 2])
  expect('classification k order', oc.oracle(cfg, yt2, yp2)['values']['recall'],
         [1.0, 0.0, 1.0])
  # a query that retrieved nothing: precision 0 for that row, mean over 2 rows
  ret = orc.oracle([['a'], ['b']], [['a', 'x'], []], [2])
  expect('retrieval empty ranking', [ret['precision'][0], ret['recall'][0],
                                     ret['false_discovery_rate'][0],
                                     ret['_alt']['false_discovery_rate'][0]],
         [0.25, 0.5, 0.25, 0.75])
  # probability == threshold is not above it; the same item decides both counts
  thr = orc.thresholded_oracle([['a', 'b']], [['a', 'b', 'c']], [[0.9, 0.7, 0.7]], (0.7,))
  expect('thresholded tie', [thr['precision'][0], thr['recall'][0]], [1.0, 0.5])
  thr = orc.thresholded_oracle([['a']], [['a']], [[0.1]], (0.1,), quantize=orc.to_float32)
  expect('thresholded tie float32', thr['precision'] + thr['recall'], [0.0, 0.0])
  expect_eq('float32 rounding', orc.to_float32(0.7), 0.699999988079071)
  expect('pearson large offset', os_.r_regression(
      [1e8, 1e8 + 1, 1e8 + 2, 1e8 + 3, 1e8 + 4], [0.0, 1.0, 2.0, 3.0, 5.0]),
         0.9863939238321437)
  return fails
