"""C07 oracle: ranking / retrieval metrics at k, per row, from the raw rankings.

"at k" means "on y_pred[:k]" (the k_list documentation); k = None means the
whole ranking. Every row metric is computed on its own row only; the reported
value is the arithmetic mean over rows. Exact Fractions; sqrt / log2 with 60
digits. No repository helpers.

  tp        = |set(y_pred[:k]) & set(y_true)|,  fp = len(y_pred[:k]) - tp,
  fn        = len(y_true) - tp
  rel_i     = 1 iff y_pred[i] is in y_true and did not occur at a rank < i
              (a repeated id is retrieved once, at its first occurrence)
  precision = tp / len(y_pred[:k])         recall = tp / len(y_true)
  f1        = 2 p r / (p + r)  (0 when p + r == 0)
  accuracy  = [tp > 0]
  iou = threat score = tp / (tp + fp + fn)
  miss rate = fn / (tp + fn)               fdr = fp / (tp + fp)
  fowlkes-mallows = sqrt(precision * recall)
  AP@k      = sum_{i<=k} precision@i * rel_i / min(k, len(y_true))
  RR@k      = 1 / rank of the first relevant item within y_pred[:k], else 0
  DCG@k     = sum_{i<=k} rel_i / log2(i + 1)
  NDCG@k    = DCG@k / sum_{i<=min(k, len(y_true))} 1 / log2(i + 1)
"""

from __future__ import annotations

from vlib.oracles import c07_common as cm

Fraction = cm.Fraction

METRICS = [
    'precision', 'ppv', 'recall', 'sensitivity', 'tpr',
    'positive_predictive_value', 'intersection_over_union', 'f1_score',
    'accuracy', 'mean_average_precision', 'mean_reciprocal_rank', 'miss_rate',
    'false_discovery_rate', 'threat_score', 'fowlkes_mallows_index',
    'dcg_score', 'ndcg_score',
]

ALIASES = [
    ('precision', 'ppv', 'positive_predictive_value'),
    ('recall', 'sensitivity', 'tpr'),
    ('threat_score', 'intersection_over_union'),
]

UNIT_RANGE = [m for m in METRICS if m != 'dcg_score']


def row_metrics(y_true_row, y_pred_row, k):
  """All metrics of one row at one k (k None = whole ranking)."""
  truth = set(y_true_row)
  ranking = list(y_pred_row)
  top = ranking if k is None else ranking[:k]
  n_t, n_p = len(truth), len(top)
  # Set semantics: an item can be retrieved once. A ranking that repeats an id
  # scores it at its first occurrence; the later copies are positions that
  # retrieve nothing new (they still occupy a rank: n_p counts positions).
  rel, seen = [], set()
  for item in top:
    rel.append(1 if (item in truth and item not in seen) else 0)
    seen.add(item)
  tp = sum(rel)
  fp, fn = n_p - tp, n_t - tp
  c = cm.Conv()
  prec = c.sdiv(tp, n_p)
  rec = c.sdiv(tp, n_t)
  out = {}
  out['precision'] = out['ppv'] = out['positive_predictive_value'] = prec
  out['recall'] = out['sensitivity'] = out['tpr'] = rec
  out['accuracy'] = Fraction(1 if tp > 0 else 0)
  out['intersection_over_union'] = out['threat_score'] = c.sdiv(
      tp, tp + fp + fn)
  out['f1_score'] = c.sdiv(2 * prec * rec, prec + rec)
  out['miss_rate'] = c.sdiv(fn, tp + fn)
  out['false_discovery_rate'] = c.sdiv(fp, tp + fp)
  out['fowlkes_mallows_index'] = cm.dsqrt(prec * rec)
  # Average precision.
  hits, acc = 0, Fraction(0)
  for i, r in enumerate(rel, start=1):
    hits += r
    if r:
      acc += Fraction(hits, i)
  ap_den = n_t if k is None else min(k, n_t)
  out['mean_average_precision'] = c.sdiv(acc, ap_den)
  # Reciprocal rank.
  rr = Fraction(0)
  for i, r in enumerate(rel, start=1):
    if r:
      rr = Fraction(1, i)
      break
  out['mean_reciprocal_rank'] = rr
  # DCG / NDCG with binary relevance.
  dcg = cm.Decimal(0)
  for i, r in enumerate(rel, start=1):
    if r:
      dcg = cm.add(dcg, cm.CTX.divide(cm.Decimal(1), cm.dlog2(i + 1)))
  ideal_n = n_t if k is None else min(k, n_t)
  idcg = cm.Decimal(0)
  for i in range(1, ideal_n + 1):
    idcg = cm.add(idcg, cm.CTX.divide(cm.Decimal(1), cm.dlog2(i + 1)))
  out['dcg_score'] = dcg
  out['ndcg_score'] = c.sdiv(dcg, idcg) if idcg != 0 else Fraction(0)
  return out


# Rows where "1 - rate" and the safe-divided complement differ: an empty
# ranking has false discovery rate fp / (tp + fp) = 0 / 0 -> 0 by the
# zero-denominator convention, but 1 - precision = 1; same for the miss rate of
# a row without true labels. Both readings are accepted (see `oracle`).
AMBIGUOUS_COMPLEMENTS = ('false_discovery_rate', 'miss_rate')


def oracle(y_true, y_pred, k_list):
  """-> {metric: [mean over rows at k for k in k_list]} (k_list None -> 1 value).

  Positionally aligned with the requested k_list (any order, duplicates kept).
  Key '_alt': {metric: [...]} for AMBIGUOUS_COMPLEMENTS, the value when an
  empty row counts 1 instead of 0 (only differs when there are empty rows).
  """
  ks = list(k_list) if k_list else [None]
  out = {m: [] for m in METRICS}
  alt = {m: [] for m in AMBIGUOUS_COMPLEMENTS}
  cache = {}
  for k in ks:
    if k not in cache:
      rows = [row_metrics(t, p, k) for t, p in zip(y_true, y_pred)]
      means = {m: cm.mean(r[m] for r in rows) for m in METRICS}
      alts = {
          'false_discovery_rate': cm.mean(
              r['false_discovery_rate'] if len(p) else Fraction(1)
              for r, p in zip(rows, y_pred)),
          'miss_rate': cm.mean(
              r['miss_rate'] if len(set(t)) else Fraction(1)
              for r, t in zip(rows, y_true)),
      }
      cache[k] = (means, alts)
    means, alts = cache[k]
    for m in METRICS:
      out[m].append(means[m])
    for m in AMBIGUOUS_COMPLEMENTS:
      alt[m].append(alts[m])
  out['_alt'] = alt
  return out


def repeated_hit_within(y_true, y_pred, k):
  """Input class: some ranking repeats a RELEVANT id within its first k items
  (k None / inf = the whole ranking)."""
  for t, p in zip(y_true, y_pred):
    truth, seen = set(t), set()
    top = list(p) if (k is None or k == float('inf')) else list(p)[:k]
    for item in top:
      if item in truth and item in seen:
        return True
      seen.add(item)
  return False


def has_repeated_id(y_pred):
  return any(len(set(p)) < len(list(p)) for p in y_pred)


def as_rows(y, input_type):
  """multiclass input: each example is one label -> a one-item ranking."""
  if input_type == 'multiclass':
    return [[v] for v in y]
  return [list(r) for r in y]


# ---------------------------------------------------------------------------
# Thresholded retrieval (precision / recall / f1 at probability thresholds)
# ---------------------------------------------------------------------------


def to_float32(x):
  """The float32 nearest to x, as a python float (pure python rounding)."""
  import struct
  return struct.unpack('f', struct.pack('f', float(x)))[0]


def thresholded_oracle(y_true, y_pred, y_prob, thresholds, quantize=None):
  """Per threshold t: predictions are the items with prob > t.

  precision = #(predicted items with prob > t that are true)
              / #(predicted items with prob > t)
  recall    = #(true items predicted with prob > t) / #(true items)
  No probabilities -> every prediction has probability 1.

  quantize: optional rounding applied to every probability and threshold
  before the (exact) comparison, e.g. `to_float32` for single precision
  semantics. One and the same comparison decides "predicted positive" and
  "true positive" of an item.
  """
  q = quantize or (lambda v: v)
  out = {'precision': [], 'recall': [], 'f1_score': []}
  if y_prob is not None:
    y_prob = [[q(p) for p in row] for row in y_prob]
  for t in sorted(thresholds):
    t = cm.frac(q(t))
    tp_pred = n_pred = tp_true = n_true = 0
    for i, (tr, pr) in enumerate(zip(y_true, y_pred)):
      probs = [1] * len(pr) if y_prob is None else y_prob[i]
      truth = list(tr)
      n_true += len(truth)
      prob_of = {}
      for item, p in zip(pr, probs):
        if cm.frac(p) > t:
          n_pred += 1
          if item in truth:
            tp_pred += 1
        prob_of[item] = cm.frac(p)
      for item in truth:
        if item in prob_of and prob_of[item] > t:
          tp_true += 1
    c = cm.Conv()
    p_ = c.sdiv(tp_pred, n_pred)
    r_ = c.sdiv(tp_true, n_true)
    out['precision'].append(p_)
    out['recall'].append(r_)
    out['f1_score'].append(c.sdiv(2 * p_ * r_, p_ + r_))
  return out
