"""C07 oracle: ranking / retrieval metrics at k, per row, from the raw rankings.

"at k" means "on y_pred[:k]" (the k_list documentation); k = None means the
whole ranking. Every row metric is computed on its own row only; the reported
value is the arithmetic mean over rows. Exact Fractions; sqrt / log2 with 60
digits. No repository helpers.

  tp        = |set(y_pred[:k]) & set(y_true)|,  fp = len(y_pred[:k]) - tp,
  fn        = len(y_true) - tp
  rel_i     = 1 iff y_pred[i] is in y_true and did not occur at a rank < i
              (a repeated id is retrieved once, at its first occurrence)
  precision = tp / len(y_pred[:k])         recall = tp / len(y_true)
  f1        = 2 p r / (p + r)  (0 when p + r == 0)
  accuracy  = [tp > 0]
  iou = threat score = tp / (tp + fp + fn)
  miss rate = fn / (tp + fn)               fdr = fp / (tp + fp)
  fowlkes-mallows = sqrt(precision * recall)
  AP@k      = sum_{i<=k} precision@i * rel_i / min(k, len(y_true))
  RR@k      = 1 / rank of the first relevant item within y_pred[:k], else 0
  DCG@k     = sum_{i<=k} rel_i / log2(i + 1)
  NDCG@k    = DCG@k / sum_{i<=min(k, len(y_true))} 1 / log2(i + 1)
"""

from __future__ import annotations

from vlib.oracles import c07_common as cm

Fraction = cm.Fraction

METRICS = [
    'precision', 'ppv', 'recall', 'sensitivity', 'tpr',
    'positive_predictive_value', 'intersection_over_union', 'f1_score',
    'accuracy', 'mean_average_precision', 'mean_reciprocal_rank', 'miss_rate',
    'false_discovery_rate', 'threat_score', 'fowlkes_mallows_index',
    'dcg_score', 'ndcg_score',
]

ALIASES = [
    ('precision', 'ppv', 'positive_predictive_value'),
    ('recall', 'sensitivity', 'tpr'),
    ('threat_score', 'intersection_over_union'),
]

UNIT_RANGE = [m for m in METRICS if m != 'dcg_score']


def row_metrics(y_true_row, y_pred_row, k):
  """All metrics of one row at one k (k None = whole ranking)."""
  truth = set(y_true_row)
  ranking = list(y_pred_row)
  top = ranking if k is None else ranking[:k]
  n_t, n_p = len(truth), len(top)
  # Set semantics: an item can be retrieved once. A ranking that repeats an id
  # scores it at its first occurrence; the later copies are positions that
  # retrieve nothing new (they still occupy a rank: n_p counts positions).
  rel, seen = [], set()
  for item in top:
    rel.append(1 if (item in truth and item not in seen) else 0)
    seen.add(item)
  tp = sum(rel)
  fp, fn = n_p - tp, n_t - tp
  c = cm.Conv()
  prec = c.sdiv(tp, n_p)
  rec = c.sdiv(tp, n_t)
  out = {}
  out['precision'] = out['ppv'] = out['positive_predictive_value'] = prec
  out['recall'] = out['sensitivity'] = out['tpr'] = rec
  out['accuracy'] = Fraction(1 if tp > 0 else 0)
  out['intersection_over_union'] = out['threat_score'] = c.sdiv(
      tp, tp + fp + fn)
  out['f1_score'] = c.sdiv(2 * prec * rec, prec + rec)
  out['miss_rate'] = c.sdiv(fn, tp + fn)
  out['false_discovery_rate'] = c.sdiv(fp, tp + fp)
  out['fowlkes_mallows_index'] = cm.dsqrt(prec * rec)
  # Average precision.
  hits, acc = 0, Fraction(0)
  for i, r in enumerate(rel, start=1):
    hits += r
    if r:
      acc += Fraction(hits, i)
  ap_den = n_t if k is None else min(k, n_t)
  out['mean_average_precision'] = c.sdiv(acc, ap_den)
  # Reciprocal rank.
  rr = Fraction(0)
  for i, r in enumerate(rel, start=1):
    if r:
      rr = Fraction(1, i)
      break
  out['mean_reciprocal_rank'] = rr
  # DCG / NDCG with binary relevance.
  dcg = cm.Decimal(0)
  for i, r in enumerate(rel, start=1):
    if r:
      dcg = cm.add(dcg, cm.CTX.divide(cm.Decimal(1), cm.dlog2(i + 1)))
  ideal_n = n_t if k is None else min(k, n_t)
  idcg = cm.Decimal(0)
  for i in range(1, ideal_n + 1):
    idcg = cm.add(idcg, cm.CTX.divide(cm.Decimal(1), cm.dlog2(i + 1)))
  out['dcg_score'] = dcg
  out['ndcg_score'] = c.sdiv(dcg, idcg) if idcg != 0 else Fraction(0)
  return out


# Rows where "1 - rate" and the safe-divided complement differ: an empty
# ranking has false discovery rate fp / (tp + fp) = 0 / 0 -> 0 by the
# zero-denominator convention, but 1 - precision = 1; same for the miss rate of
# a row without true labels. Both readings are accepted (see `oracle`).
AMBIGUOUS_COMPLEMENTS = ('false_discovery_rate', 'miss_rate')


def oracle(y_true, y_pred, k_list):
  """-> {metric: [mean over rows at k for k in k_list]} (k_list None -> 1 value).

  Positionally aligned with the requested k_list (any order, duplicates kept).
  Key '_alt': {metric: [...]} for AMBIGUOUS_COMPLEMENTS, the value when an
  empty row counts 1 instead of 0 (only differs when there are empty rows).
  """
  ks = list(k_list) if k_list else [None]
  out = {m: [] for m in METRICS}
  alt = {m: [] for m in AMBIGUOUS_COMPLEMENTS}
  cache = {}
  for k in ks:
    if k not in cache:
      rows = [row_metrics(t, p, k) for t, p in zip(y_true, y_pred)]
      means = {m: cm.mean(r[m] for r in rows) for m in METRICS}
      alts = {
          'false_discovery_rate': cm.mean(
              r['false_discovery_rate'] if len(p) else Fraction(1)
              for r, p in zip(rows, y_pred)),
          'miss_rate': cm.mean(
              r['miss_rate'] if len(set(t)) else Fraction(1)
              for r, t in zip(rows, y_true)),
      }
      cache[k] = (means, alts)
    means, alts = cache[k]
    for m in METRICS:
      out[m].append(means[m])
    for m in AMBIGUOUS_COMPLEMENTS:
      alt[m].append(alts[m])
  out['_alt'] = alt
  return out


def repeated_hit_within(y_true, y_pred, k):
  """Input class: some ranking repeats a RELEVANT id within its first k items
  (k None / inf = the whole ranking)."""
  for t, p in zip(y_true, y_pred):
    truth, seen = set(t), set()
    top = list(p) if (k is None or k == float('inf')) else list(p)[:k]
    for item in top:
      if item in truth and item in seen:
        return True
      seen.add(item)
  return False


def has_repeated_id(y_pred):
  return any(len(set(p)) < len(list(p)) for p in y_pred)


def as_rows(y, input_type):
  """multiclass input: each example is one label -> a one-item ranking."""
  if input_type == 'multiclass':
    return [[v] for v in y]
  return [list(r) for r in y]


# ---------------------------------------------------------------------------
# Thresholded retrieval (precision / recall / f1 at probability thresholds)
# ---------------------------------------------------------------------------


def to_float32(x):
  """The float32 nearest to x, as a python float (pure python rounding)."""
  import struct
  return struct.unpack('f', struct.pack('f', float(x)))[0]


def thresholded_oracle(y_true, y_pred, y_prob, thresholds, quantize=None,
                       repeats='set'):
  """Per threshold t: the retrieved items of a row are the ids with prob > t.

  precision = #(retrieved items that are true) / #(retrieved items)
  recall    = #(true items that are retrieved) / #(true items)
  No probabilities -> every prediction has probability 1.

  A ranking may list an id several times (with different probabilities): set
  semantics, the id is retrieved at t when ANY of its occurrences is above t
  (its highest probability counts) and it is one retrieved item / one hit.
  `repeats` only selects the denominator of the precision:
    'set'        the number of distinct ids above t (a repeated occurrence is
                 not a further prediction);
    'positions'  the number of positions above t (the later copies are
                 predictions that retrieve nothing new - the reading
                 TopKRetrieval applies to precision@k).
  Both readings coincide when no ranking repeats an id above t. The result does
  not depend on the order of the (id, probability) pairs of a row.

  quantize: optional rounding applied to every probability and threshold
  before the (exact) comparison, e.g. `to_float32` for single precision
  semantics. One and the same comparison decides "predicted positive" and
  "true positive" of an item.
  """
  q = quantize or (lambda v: v)
  out = {'precision': [], 'recall': [], 'f1_score': []}
  if y_prob is not None:
    y_prob = [[q(p) for p in row] for row in y_prob]
  for t in sorted(thresholds):
    t = cm.frac(q(t))
    tp = n_pred = n_true = 0
    for i, (tr, pr) in enumerate(zip(y_true, y_pred)):
      probs = [1] * len(pr) if y_prob is None else y_prob[i]
      truth = set(tr)
      n_true += len(truth)
      best = {}
      for item, p in zip(pr, probs):
        p = cm.frac(p)
        if item not in best or p > best[item]:
          best[item] = p
        if repeats == 'positions' and p > t:
          n_pred += 1
      retrieved = {item for item, p in best.items() if p > t}
      if repeats != 'positions':
        n_pred += len(retrieved)
      tp += len(retrieved & truth)
    c = cm.Conv()
    p_ = c.sdiv(tp, n_pred)
    r_ = c.sdiv(tp, n_true)
    out['precision'].append(p_)
    out['recall'].append(r_)
    out['f1_score'].append(c.sdiv(2 * p_ * r_, p_ + r_))
  return out


def thresholded_repeat_classes(y_true, y_pred, y_prob, thresholds, quantize=None):
  """Input classes of the repeated-id rankings, per (ascending) threshold t.

  -> {'repeated': some ranking repeats an id,
      'repeated_relevant': some ranking repeats an id of its y_true row,
      'last_differs': [per t] some ranking repeats a relevant id whose LAST
          occurrence is not above t while another occurrence is,
      'several_above': [per t] some ranking holds a relevant id at two or more
          positions above t,
      'straddle': [per t] the occurrences of a repeated relevant id lie on
          both sides of t}
  Computed from the literal input only."""
  q = quantize or (lambda v: v)
  ths = [cm.frac(q(t)) for t in sorted(thresholds)]
  out = {'repeated': False, 'repeated_relevant': False,
         'last_differs': [False] * len(ths), 'several_above': [False] * len(ths),
         'straddle': [False] * len(ths)}
  for i, (tr, pr) in enumerate(zip(y_true, y_pred)):
    probs = [1] * len(pr) if y_prob is None else [q(p) for p in y_prob[i]]
    occ = {}
    for item, p in zip(pr, probs):
      occ.setdefault(item, []).append(cm.frac(p))
    truth = set(tr)
    for item, ps in occ.items():
      if len(ps) < 2:
        continue
      out['repeated'] = True
      if item not in truth:
        continue
      out['repeated_relevant'] = True
      for j, t in enumerate(ths):
        above = [p > t for p in ps]
        if any(above) and not above[-1]:
          out['last_differs'][j] = True
        if sum(above) >= 2:
          out['several_above'][j] = True
        if any(above) and not all(above):
          out['straddle'][j] = True
  return out
