"""C07 case generators. gen(family, rseed, index) is a pure function of its
arguments (random.Random seeded with a string -> sha512, hash-seed independent).

Every restriction applied here is listed in C07.ASSUMPTIONS.
"""

from __future__ import annotations

import random

NAN = float('nan')
INF = float('inf')

INT_LABELS = list(range(8))
STR_LABELS = ['cat', 'dog', 'bird', 'y', 'n', 'u', 'Tiger', 'ox']
CHAR_LABELS = list('ynuabcde')


def _rng(family, rseed, index):
  return random.Random(f'C07:{family}:{rseed}:{index}')


def _klist(rng, kmax, styles=('asc',)):
  """styles: 'asc' ascending distinct, 'unsorted' distinct but not ascending,
  'dups' with a repeated k (any order). The result is aligned with the request."""
  size = rng.choice([1, 1, 2, 2, 3])
  ks = sorted(rng.sample(range(1, kmax + 1), min(size, kmax)))
  style = rng.choice(styles)
  if style == 'unsorted' and len(ks) >= 2:
    while ks == sorted(ks):
      rng.shuffle(ks)
  elif style == 'dups':
    ks.insert(rng.randint(0, len(ks)), rng.choice(ks))
    if rng.random() < 0.5:
      rng.shuffle(ks)
  return ks


KLIST_STYLES = ('asc', 'asc', 'asc', 'unsorted', 'unsorted', 'dups')


# ---------------------------------------------------------------------------
# classification
# ---------------------------------------------------------------------------


def gen_cls(rng):
  it = rng.choice(['binary', 'multiclass-indicator', 'multiclass',
                   'multiclass-multioutput', 'multiclass-multioutput'])
  n = rng.choice([1, 2, 3, 4, 5, 7, 9, 12, 16, 24, 40])
  config = {'input_type': it, 'pos_label': 1, 'vocab': None, 'k_list': None,
            'container': rng.choice(['list', 'list', 'array']), 'split': None}
  agree = rng.choice([0.0, 0.3, 0.6, 0.9, 1.0])
  if it == 'binary':
    neg, pos = rng.choice([(0, 1), (-1, 1), ('N', 'Y'), (False, True),
                           ('neg', 'pos'), (2, 7)])
    p_pos = rng.choice([0.0, 0.1, 0.5, 0.5, 0.9, 1.0])
    y_true = [pos if rng.random() < p_pos else neg for _ in range(n)]
    y_pred = [t if rng.random() < agree else rng.choice([neg, pos]) for t in y_true]
    config['average'] = rng.choice(['binary', 'binary', 'micro', 'macro'])
    r = rng.random()
    if r < 0.75:
      config['pos_label'] = pos
    elif r < 0.93:
      config['pos_label'] = neg
    else:  # a label of the same type that does not occur
      config['pos_label'] = 'zz' if isinstance(pos, str) else 9
    if rng.random() < 0.15 and config['pos_label'] in (neg, pos):
      config['vocab'] = [neg, pos]
  elif it == 'multiclass-indicator':
    ncls = rng.choice([1, 2, 2, 3, 4, 5])
    multi_hot = rng.random() < 0.25
    def row():
      if multi_hot:
        return [int(rng.random() < 0.4) for _ in range(ncls)]
      j = rng.randrange(ncls)
      return [int(i == j) for i in range(ncls)]
    y_true = [row() for _ in range(n)]
    y_pred = [list(t) if rng.random() < agree else row() for t in y_true]
    avgs = ['micro', 'macro', 'samples']
    if ncls <= 2:
      avgs.append('binary')
    config['average'] = rng.choice(avgs)
    if rng.random() < 0.2:
      y_true = [[bool(v) for v in r] for r in y_true]
      y_pred = [[bool(v) for v in r] for r in y_pred]
  else:
    alphabet = list(rng.choice([INT_LABELS, STR_LABELS]))
    rng.shuffle(alphabet)
    ncls = rng.choice([2, 3, 3, 4, 6])
    used, extra = alphabet[:ncls], alphabet[ncls:ncls + rng.choice([0, 0, 1, 2])]
    multi = it == 'multiclass-multioutput'
    if multi:
      def trow():
        m = rng.choice([0, 1, 1, 1, 2, 2, 3])
        r = rng.sample(used, min(m, ncls))
        if r and rng.random() < 0.1:
          r.append(r[0])  # duplicate label inside a row: set semantics
        return r
      def prow(t):
        m = rng.choice([0, 1, 1, 2, 2, 3, 4])
        r = rng.sample(used, min(m, ncls))
        if t and rng.random() < agree:
          r = [x for x in r if x not in t]
          r.insert(rng.randint(0, len(r)), rng.choice(t))
        return r
      y_true = [trow() for _ in range(n)]
      y_pred = [prow(t) for t in y_true]
      if not any(y_true) and not any(y_pred):
        y_true[0] = [used[0]]
    else:
      y_true = [rng.choice(used) for _ in range(n)]
      y_pred = [t if rng.random() < agree else rng.choice(used) for t in y_true]
    avg = rng.choice(['micro', 'micro', 'macro', 'samples', 'samples'])
    config['average'] = avg
    if avg == 'macro' or rng.random() < 0.5:
      vocab = used + extra
      rng.shuffle(vocab)
      config['vocab'] = vocab
    if avg != 'samples' and rng.random() < (0.08 if avg == 'macro' else 0.45):
      config['k_list'] = _klist(rng, 5, KLIST_STYLES)
    config['pos_label'] = rng.choice([1, 0, 'y', used[0]])  # documented as ignored
    config['container'] = 'list' if multi else config['container']
  can_split = (it in ('binary', 'multiclass-indicator') or config['vocab']) and not config['k_list']
  if can_split and n >= 2 and rng.random() < 0.5:
    config['split'] = rng.randint(1, n - 1)
  return {'family': 'cls', 'config': config,
          'input': {'y_true': y_true, 'y_pred': y_pred}}


# ---------------------------------------------------------------------------
# retrieval
# ---------------------------------------------------------------------------


def _rankings(rng, n, alphabet):
  a = len(alphabet)
  y_true = [rng.sample(alphabet, rng.randint(1, min(4, a))) for _ in range(n)]
  hit = rng.choice([0.0, 0.3, 0.6, 1.0])
  y_pred = []
  for t in y_true:
    m = rng.randint(1, min(6, a))
    row = rng.sample(alphabet, m)
    if rng.random() < hit and not set(row) & set(t):
      row[rng.randrange(len(row))] = rng.choice(t)
    y_pred.append(row)
  return y_true, y_pred


def _empty_row_case(rng):
  """Rankings where some query retrieved nothing (empty y_pred row) or has no
  relevant item (empty y_true row); never both in the same row.

  'alone': the rows with an empty ranking are put together at one end and the
  batch split isolates them (a batch that holds nothing but empty rankings).
  """
  alphabet = rng.choice([INT_LABELS, STR_LABELS, CHAR_LABELS])
  k_list = _klist(rng, 4) if rng.random() < 0.8 else None
  kmax = max(k_list) if k_list else 1
  long_rows = rng.random() < 0.7  # every non-empty ranking has >= max(k) items
  which = rng.choice(['pred', 'pred', 'true', 'both'])
  n = rng.choice([1, 2, 3, 4, 6, 8])
  rows = []
  for _ in range(n):
    t = rng.sample(alphabet, rng.randint(1, 3))
    lo = min(kmax, len(alphabet)) if long_rows else 1
    p = rng.sample(alphabet, rng.randint(lo, min(max(lo, 6), len(alphabet))))
    if rng.random() < 0.6 and not set(p) & set(t):
      p[rng.randrange(len(p))] = t[0]
    rows.append([t, p])
  n_empty = rng.randint(1, max(1, n // 2))
  kinds = []
  for i in rng.sample(range(n), n_empty):
    kind = which if which != 'both' else rng.choice(['pred', 'true'])
    rows[i][0 if kind == 'true' else 1] = []
    kinds.append(kind)
  split = None
  layout = rng.choice(['mixed', 'mixed', 'alone'])
  if layout == 'alone' and n >= 2:
    empties = [r for r in rows if not r[0] or not r[1]]
    others = [r for r in rows if r[0] and r[1]]
    if others:
      if rng.random() < 0.5:
        rows, split = empties + others, len(empties)
      else:
        rows, split = others + empties, len(others)
  elif n >= 2 and rng.random() < 0.5:
    split = rng.randint(1, n - 1)
  config = {'k_list': k_list, 'input_type': 'multiclass-multioutput',
            'split': split, 'empty_rows': layout}
  return {'family': 'retr', 'config': config,
          'input': {'y_true': [r[0] for r in rows], 'y_pred': [r[1] for r in rows]}}


def _repeated_id_case(rng):
  """Rankings in which an id occurs more than once (a candidate list merged
  from several sources, a generative model that repeats itself): the repeated id
  may be a relevant or an irrelevant one, the copies sit at any rank (adjacent
  to the first occurrence or further down), one or several rows are affected.
  y_true rows stay duplicate-free; every row has >= 1 true label and >= 1
  prediction; k-lists are ascending (the order / duplicate-k input classes are
  generated elsewhere) so that nothing but the repetition is special."""
  alphabet = list(rng.choice([INT_LABELS, STR_LABELS, CHAR_LABELS]))
  alphabet = alphabet[:rng.randint(3, len(alphabet))]
  n = rng.choice([1, 1, 2, 3, 4, 6, 8])
  k_list = _klist(rng, 7) if rng.random() < 0.85 else None
  kmax = max(k_list) if k_list else 1
  long_rows = rng.random() < 0.6  # every ranking has >= max(k) positions
  which = rng.choice(['relevant', 'relevant', 'irrelevant', 'any'])
  hit = rng.choice([0.3, 0.6, 1.0, 1.0])
  rows = []
  marked = set(rng.sample(range(n), rng.randint(1, n)))
  for i in range(n):
    t = rng.sample(alphabet, rng.randint(1, min(4, len(alphabet))))
    p = rng.sample(alphabet, rng.randint(1, min(5, len(alphabet))))
    if rng.random() < hit and not set(p) & set(t):
      p[rng.randrange(len(p))] = rng.choice(t)
    if i in marked:
      for _ in range(rng.choice([1, 1, 2, 3])):
        rel = [x for x in p if x in t]
        irr = [x for x in p if x not in t]
        want = which if which != 'any' else rng.choice(['relevant', 'irrelevant'])
        pool = (rel or irr) if want == 'relevant' else (irr or rel)
        item = rng.choice(pool)
        first = p.index(item)
        # the copy goes somewhere behind the first occurrence (next to it or
        # further down) or, sometimes, in front of it
        pos = rng.choice([first + 1, rng.randint(first + 1, len(p)),
                          rng.randint(0, len(p))])
        p.insert(pos, item)
    while long_rows and len(p) < kmax:
      # pad to max(k): fresh ids while there are any, else one more repetition
      fresh = [x for x in alphabet if x not in p]
      p.append(rng.choice(fresh) if fresh and rng.random() < 0.7 else rng.choice(p))
    rows.append([t, p])
  split = rng.randint(1, n - 1) if n >= 2 and rng.random() < 0.4 else None
  config = {'k_list': k_list, 'input_type': 'multiclass-multioutput',
            'split': split, 'repeated_ids': which}
  return {'family': 'retr', 'config': config,
          'input': {'y_true': [r[0] for r in rows], 'y_pred': [r[1] for r in rows]}}


def gen_retr(rng):
  r0 = rng.random()
  if r0 < 0.15:
    return _empty_row_case(rng)
  if r0 < 0.27:
    # (a slice of the former "regular" cases: the stream of every other case is
    # unchanged)
    return _repeated_id_case(rng)
  n = rng.choice([1, 2, 3, 4, 6, 8, 12])
  r = rng.random()
  config = {'k_list': None, 'input_type': 'multiclass-multioutput', 'split': None}
  if r < 0.12:
    config['input_type'] = 'multiclass'
    labels = rng.sample(CHAR_LABELS, rng.randint(2, 5))
    y_true = [rng.choice(labels) for _ in range(n)]
    y_pred = [t if rng.random() < 0.5 else rng.choice(labels) for t in y_true]
  elif r < 0.14:
    # documented multiclass encodings that are not single characters
    config['input_type'] = 'multiclass'
    config['odd_labels'] = True
    labels = rng.choice([[1, 29, 12], ['act', 'cat', 'dog', 'god']])
    y_true = [rng.choice(labels) for _ in range(n)]
    y_pred = [rng.choice(labels) for _ in range(n)]
  else:
    alphabet = rng.choice([INT_LABELS, STR_LABELS, CHAR_LABELS])
    alphabet = alphabet[:rng.randint(3, len(alphabet))]
    y_true, y_pred = _rankings(rng, n, alphabet)
  if rng.random() < 0.8:
    config['k_list'] = _klist(rng, 7, KLIST_STYLES)
  if n >= 2 and rng.random() < 0.4 and not config.get('odd_labels'):
    config['split'] = rng.randint(1, n - 1)
  return {'family': 'retr', 'config': config,
          'input': {'y_true': y_true, 'y_pred': y_pred}}


def gen_thr(rng):
  n = rng.choice([1, 2, 3, 5, 8])
  alphabet = rng.choice([INT_LABELS, STR_LABELS])
  y_true, y_pred = _rankings(rng, n, alphabet)
  m = rng.choice([1, 2, 3])
  if rng.random() < 0.45:
    # Probabilities that coincide with a threshold, on a decimal grid whose
    # points are not representable in float32 (nor exactly in float64).
    den = rng.choice([10, 10, 20, 5, 100])
    grid = [i / den for i in range(0, den + 1)]
    thresholds = sorted(rng.sample(grid[:-1], m))
    mode = 'ties'
    def prob():
      return rng.choice(thresholds) if rng.random() < 0.5 else rng.choice(grid)
  else:
    grid = [i / 16 for i in range(0, 17)]
    thresholds = sorted(rng.sample(grid[:-1], m))
    mode = 'dyadic'
    def prob():
      return rng.choice(grid)
  y_prob = None
  if rng.random() < 0.8:
    y_prob = [[prob() for _ in row] for row in y_pred]
  # container of each probability row: python floats, float64 / float32 array
  config = {'thresholds': thresholds, 'split': None, 'mode': mode,
            'prob_dtype': rng.choice(['list', 'list', 'float64', 'float32'])}
  if n >= 2 and rng.random() < 0.5:
    config['split'] = rng.randint(1, n - 1)
  return {'family': 'thr', 'config': config,
          'input': {'y_true': y_true, 'y_pred': y_pred, 'y_prob': y_prob}}


# ---------------------------------------------------------------------------
# numeric data
# ---------------------------------------------------------------------------


def _number(rng, kind):
  if kind == 'int':
    return float(rng.randint(-20, 20))
  if kind == 'dyadic':
    return rng.randint(-800, 800) / 8
  if kind == 'big':
    return rng.uniform(-1e6, 1e6)
  if kind == 'offset':
    return 1e4 + rng.uniform(-50, 50)
  if kind == 'offset5':
    # mean far larger than the spread: a numerically naive variance
    # (E[x^2] - mean^2) loses ~7 digits here, a stable one loses none
    return 1e5 + rng.uniform(-5, 5)
  if isinstance(kind, (list, tuple)):
    # ('shift', offset, half_width): a large common offset, small spread
    return kind[1] + rng.uniform(-kind[2], kind[2])
  return rng.uniform(-10, 10)


def _big_offset(rng):
  """Offset 1e6 .. 1e8 (either sign), spread 0.5 .. 50: timestamps, ids, cents."""
  off = 10 ** rng.uniform(6, 8) * rng.choice([1, 1, 1, -1])
  if rng.random() < 0.5:
    off = float(round(off))
  return ['shift', off, rng.choice([0.5, 2.0, 5.0, 50.0])]


def _numeric_batches(rng, p_nan):
  kind = rng.choice(['int', 'dyadic', 'float', 'big', 'offset', 'offset5', 'offset5',
                     'shift', 'shift'])
  if kind == 'shift':
    kind = _big_offset(rng)
  nb = rng.choice([1, 1, 2, 3])
  ncol = rng.choice([0, 0, 1, 2, 3, 4])  # 0 -> 1-D batches
  nan_cols = set()
  if ncol and rng.random() < 0.3:
    nan_cols = {rng.randrange(ncol)}  # a column that is all-NaN in some batch
  batches = []
  for bi in range(nb):
    rows = rng.choice([1, 2, 3, 5, 8, 12])
    kill = bi == rng.randrange(nb) and nan_cols
    def val(j=None):
      if kill and j in nan_cols:
        return NAN
      return NAN if rng.random() < p_nan else _number(rng, kind)
    if ncol:
      batches.append([[val(j) for j in range(ncol)] for _ in range(rows)])
    else:
      batches.append([val() for _ in range(rows)])
  return batches


def gen_stats_inf(rng):
  """Mean / MeanAndVariance / Var on data that holds +inf / -inf among finite
  values and no NaN, cut into 1-4 non-empty batches (1-D or 2-4 columns)."""
  sub = rng.choice(['mean', 'mean', 'meanvar', 'meanvar', 'var'])
  kind = rng.choice(['int', 'dyadic', 'float'])
  signs = rng.choice([(INF,), (INF,), (-INF,), (INF, -INF), (INF, -INF)])
  p_inf = rng.choice([0.08, 0.2, 0.5])
  ncol = rng.choice([0, 0, 0, 2, 3, 4])
  inf_cols = None if (not ncol or rng.random() < 0.4) else {rng.randrange(ncol)}
  def val(j=None):
    if (inf_cols is None or j in inf_cols) and rng.random() < p_inf:
      return rng.choice(signs)
    return _number(rng, kind)
  batches = []
  for _ in range(rng.choice([1, 2, 2, 3, 4])):
    rows = rng.choice([1, 1, 2, 3, 5, 8])
    if ncol:
      batches.append([[val(j) for j in range(ncol)] for _ in range(rows)])
    else:
      batches.append([val() for _ in range(rows)])
  flat = [v for b in batches for r in b for v in (r if ncol else [r])]
  if not any(v in (INF, -INF) for v in flat):
    b = rng.choice(batches)
    i = rng.randrange(len(b))
    if ncol:
      b[i][min(inf_cols) if inf_cols else rng.randrange(ncol)] = rng.choice(signs)
    else:
      b[i] = rng.choice(signs)
  return {'family': 'stats', 'sub': sub, 'config': {'inf': True},
          'input': {'batches': batches}}


def gen_stats(rng):
  sub = rng.choice(['mean', 'meanvar', 'meanvar', 'var', 'minmax', 'hist', 'hist',
                    'counter', 'calib', 'calib'])
  if sub in ('mean', 'meanvar', 'var'):
    if rng.random() < 0.12:
      # integer containers (int32 / int64), magnitudes beyond sqrt(2**31)
      dtype = rng.choice(['int32', 'int32', 'int64'])
      lo, hi = rng.choice([(-2_000_000, 2_000_000), (46_342, 1_000_000),
                           (1_000_000, 1_000_050), (-30, 30)])
      ncol = rng.choice([0, 0, 2, 3])
      batches = []
      for _ in range(rng.choice([1, 2, 3])):
        rows = rng.choice([1, 2, 3, 5, 8, 12])
        if ncol:
          batches.append([[rng.randint(lo, hi) for _ in range(ncol)] for _ in range(rows)])
        else:
          batches.append([rng.randint(lo, hi) for _ in range(rows)])
      return {'family': 'stats', 'sub': sub, 'config': {'dtype': dtype},
              'input': {'batches': batches}}
    p_nan = rng.choice([0.0, 0.0, 0.15, 0.5, 1.0 if rng.random() < 0.2 else 0.3])
    return {'family': 'stats', 'sub': sub, 'config': {},
            'input': {'batches': _numeric_batches(rng, p_nan)}}
  if sub == 'minmax':
    score = rng.choice([None, None, None, 'len', 'sum'])
    # axis: None (all values), 0 (column-wise for 2-D batches, scalar for 1-D), -1 (1-D only)
    axis = None if score else rng.choice([None, None, 0, 0, -1])
    nb = rng.choice([1, 2, 3])
    ncol = rng.choice([2, 3, 4])
    intlike = rng.random() < 0.6
    sign = rng.choice(['nonneg', 'neg', 'neg', 'mixed', 'mixed'])
    # columns that stay negative under 'mixed' (the others take both signs)
    neg_cols = {j for j in range(ncol) if rng.random() < 0.4}
    def v(j=None):
      mag = rng.randint(0, 30) if intlike else rng.randint(0, 400) / 8
      if sign == 'nonneg':
        return mag
      if sign == 'neg' or (j is not None and j in neg_cols):
        return -(mag + (1 if intlike else 0.125))
      return mag if rng.random() < 0.5 else -mag
    two_d = axis == 0 and rng.random() < 0.7 or (
        axis is None and not score and rng.random() < 0.5)
    batches = []
    for _ in range(nb):
      rows = rng.randint(1, 6)
      if two_d:
        batches.append([[v(j) for j in range(ncol)] for _ in range(rows)])
      else:
        batches.append([v() for _ in range(rows)])
    return {'family': 'stats', 'sub': 'minmax',
            'config': {'axis': axis, 'score': score, 'sign': sign},
            'input': {'batches': batches}}
  if sub == 'hist':
    mode = rng.choice(['pow2', 'odd', 'edges'])
    if mode == 'pow2':
      lo = rng.choice([0, -1, -4, 0.5, 2])
      hi = lo + rng.choice([1, 2, 4, 8, 0.5])
      bins, rng_ = rng.choice([1, 2, 4, 8, 16]), [lo, hi]
    elif mode == 'odd':
      lo = rng.choice([0, -1, 3])
      hi = lo + rng.choice([1, 2, 4, 0.5])
      bins, rng_ = rng.choice([3, 5, 7]), [lo, hi]
    else:
      pts = sorted(rng.sample(range(-32, 64), rng.randint(2, 6)))
      bins, rng_ = [p / 8 for p in pts], None
      lo, hi = bins[0], bins[-1]
    span = hi - lo
    def v():
      r = rng.random()
      if r < 0.15:
        return rng.choice([lo, hi])
      if r < 0.25:
        return lo + span * rng.choice([-0.25, 1.25, -1, 2])
      return lo + span * rng.randint(0, 64) / 64
    nb = rng.choice([1, 2, 3])
    batches = [[v() for _ in range(rng.randint(0, 12))] for _ in range(nb)]
    if not batches[0]:
      batches[0] = [v()]
    weights = None
    if rng.random() < 0.3:
      weights = [[rng.randint(0, 40) / 8 for _ in b] for b in batches]
    return {'family': 'stats', 'sub': 'hist', 'config': {'range': rng_, 'bins': bins},
            'input': {'batches': batches, 'weights': weights}}
  if sub == 'counter':
    items = rng.choice([['a', 'b', 'c', 'ab'], [1, 2, 3, 5], ['x', 'y']])
    nb = rng.choice([1, 2, 3])
    return {'family': 'stats', 'sub': 'counter', 'config': {},
            'input': {'batches': [[rng.choice(items) for _ in range(rng.randint(0, 9))]
                                  for _ in range(nb)]}}
  # calibration histogram
  if rng.random() < 0.7:
    lo, hi = 0, 1
  else:
    lo = rng.choice([0, -1, 0.5])
    hi = lo + rng.choice([1, 2, 4])
  bins = rng.choice([1, 2, 4, 8, 16, 3, 5, 7])
  span = hi - lo
  def pv():
    r = rng.random()
    if r < 0.1:
      return rng.choice([lo, hi])
    if r < 0.2:
      return lo + span * rng.choice([-0.125, 1.125])
    return lo + span * rng.randint(0, 64) / 64
  nb = rng.choice([1, 2])
  batches = []
  for _ in range(nb):
    m = rng.randint(1, 10)
    labels = [rng.choice([0, 1]) if (lo, hi) == (0, 1) and rng.random() < 0.8 else pv()
              for _ in range(m)]
    batches.append([labels, [pv() for _ in range(m)]])
  return {'family': 'stats', 'sub': 'calib', 'config': {'range': [lo, hi], 'bins': bins},
          'input': {'batches': batches}}


# ---------------------------------------------------------------------------
# misc: pairwise statistics, text, math utils, signals
# ---------------------------------------------------------------------------

WORDS = ['a', 'b', 'c', 'ab', 'Ab', 'the', 'The', 'x1', 'b.', 'c,c', 'd', 'AA', '42',
         'it\'s', 'z-z']
PATTERNS = ['ab', 'a', 'xyx', 'aa', 'mmm', 'b b', '.', 'yx', 'A', 'a.', '(', 'x*']
TEXT_FRAGMENTS = ['ab', 'xyx', 'xyxyx', 'aaa', 'a.a', 'b b', ' ', 'mmm', 'A', '(x*)', 'yx', '']


_SCALE_EXPONENTS = (-60, -40, -33, -30, -27, -20, 20, 30, 40)


def gen_misc(rng):
  sub = rng.choice(['r2tjur', 'r2tjur_rel', 'rreg', 'rreg', 'spd', 'ngrams', 'ngrams',
                    'patterns', 'mathutils', 'flip', 'xent', 'xent01', 'topkacc'])
  if sub in ('r2tjur', 'r2tjur_rel'):
    nb = rng.choice([1, 2, 3])
    p1 = rng.choice([0.0, 0.3, 0.5, 0.8, 1.0])
    batches = []
    for _ in range(nb):
      m = rng.randint(1, 10)
      yt = [int(rng.random() < p1) for _ in range(m)]
      zero_neg = rng.random() < 0.15
      yp = [0.0 if (zero_neg and t == 0) else rng.randint(0, 64) / 64 for t in yt]
      batches.append([yt, yp])
    return {'family': 'misc', 'sub': sub, 'config': {}, 'input': {'batches': batches}}
  if sub == 'rreg':
    nb = rng.choice([1, 2, 3])
    ncol = rng.choice([0, 0, 1, 2, 3])
    data = rng.choice(['grid', 'grid', 'grid', 'offset', 'offset', 'int32'])
    config = {'center': rng.random() < 0.6, 'data': data}
    corr = rng.choice([0.0, 0.5, 1.0, -1.0])
    if data == 'grid':
      const_col = rng.randrange(ncol) if ncol and rng.random() < 0.2 else None
      const_1d = ncol == 0 and rng.random() < 0.1
      cval = rng.randint(-64, 64) / 8
      def yv():
        return rng.randint(-64, 64) / 8
      def xv(y, j=None):
        if const_1d or (j is not None and j == const_col):
          return cval
        if abs(corr) == 1.0:
          return corr * y
        return y if rng.random() < corr else rng.randint(-64, 64) / 8
    elif data == 'offset':
      # features (and sometimes the target) with a large common offset and a
      # small spread; integer-valued 50% of the time. No constant columns.
      xk = [_big_offset(rng) for _ in range(max(ncol, 1))]
      yk = _big_offset(rng) if rng.random() < 0.3 else ['shift', 0.0, rng.choice([1.0, 8.0])]
      whole = rng.random() < 0.5
      def q(val):
        return float(round(val)) if whole else val
      if whole:
        for kd in xk + [yk]:
          kd[2] = max(kd[2], 5.0)
      def yv():
        return q(_number(rng, yk))
      def xv(y, j=None):
        kd = xk[j or 0]
        if rng.random() < abs(corr):
          # linear in y (up to the integer rounding), sign of corr
          return q(kd[1] + (y - yk[1]) * kd[2] / yk[2] * (1 if corr >= 0 else -1))
        return q(_number(rng, kd))
    else:
      # integer features in an int32 array, magnitudes beyond sqrt(2**31) = 46341
      lo, hi = rng.choice([(-2_000_000, 2_000_000), (46_342, 1_000_000),
                           (-300_000, -46_342), (0, 150_000)])
      config['y_int32'] = rng.random() < 0.3
      config['int_dtype'] = rng.choice(['int32', 'int32', 'int64'])
      def yv():
        return (float(rng.randint(lo, hi)) if config['y_int32']
                else rng.randint(-64, 64) / 8)
      def xv(y, j=None):
        if abs(corr) == 1.0 and config['y_int32']:
          return corr * y
        return float(rng.randint(lo, hi))
    batches = []
    for _ in range(nb):
      m = rng.randint(2, 9)
      y = [yv() for _ in range(m)]
      if ncol:
        x = [[xv(v_, j) for j in range(ncol)] for v_ in y]
      else:
        x = [xv(v_) for v_ in y]
      batches.append([x, y])
    if data == 'offset':
      # every column needs a spread that is far above the float resolution
      cols = list(zip(*[r for b in batches for r in b[0]])) if ncol else [
          [v_ for b in batches for v_ in b[0]]]
      ys = [v_ for b in batches for v_ in b[1]]
      if any(max(c) - min(c) < 0.25 for c in cols + [ys]):
        config['data'] = 'grid'
        batches = [[[[1.0 * i * (j + 1) for j in range(ncol)] for i in range(3)]
                    if ncol else [0.0, 1.0, 3.0], [0.0, 2.0, 1.0]]]
    return {'family': 'misc', 'sub': 'rreg', 'config': config,
            'input': {'batches': batches}}
  if sub == 'spd':
    nb = rng.choice([1, 2])
    batches = []
    for _ in range(nb):
      m = rng.randint(1, 9)
      x = [rng.randint(-40, 40) / 8 for _ in range(m)]
      y = [-v if rng.random() < 0.15 else (v if rng.random() < 0.1 else rng.randint(-40, 40) / 8)
           for v in x]
      batches.append([x, y])
    config = {}
    if rng.random() < 0.4:
      # the same data in other units (exact: a power of two): the metric is a ratio
      # and does not depend on the unit; 2**-30 ~ 1e-9, 2**-40 ~ 1e-12
      k = rng.choice(_SCALE_EXPONENTS)
      config['scale_exp'] = k
      batches = [[[v * 2.0 ** k for v in col] for col in b] for b in batches]
    return {'family': 'misc', 'sub': 'spd', 'config': config, 'input': {'batches': batches}}
  if sub == 'ngrams':
    nb = rng.choice([1, 2])
    def text():
      ws = [rng.choice(WORDS) for _ in range(rng.randint(0, 6))]
      return ''.join(w + ' ' * rng.choice([1, 1, 2]) for w in ws).rstrip(
          ' ' if rng.random() < 0.7 else '')
    batches = [[text() for _ in range(rng.randint(1, 5))] for _ in range(nb)]
    config = {'k': rng.choice([1, 2, 3, 10]), 'n': rng.choice([1, 1, 2, 2, 3]),
              'use_first_ngram_only': rng.random() < 0.3,
              'count_duplicate': rng.random() < 0.6}
    return {'family': 'misc', 'sub': 'ngrams', 'config': config,
            'input': {'batches': batches}}
  if sub == 'patterns':
    nb = rng.choice([1, 2])
    def text():
      return ''.join(rng.choice(TEXT_FRAGMENTS) for _ in range(rng.randint(0, 5)))
    batches = [[text() for _ in range(rng.randint(1, 4))] for _ in range(nb)]
    pats = rng.sample(PATTERNS, rng.randint(1, 4))
    return {'family': 'misc', 'sub': 'patterns',
            'config': {'patterns': pats, 'count_duplicate': rng.random() < 0.6},
            'input': {'batches': batches}}
  if sub == 'mathutils':
    m = rng.randint(1, 6)
    def v(pz):
      r = rng.random()
      if r < pz:
        return 0.0
      if r < pz + 0.15:
        return NAN
      return rng.choice([rng.randint(-9, 9) * 1.0, rng.randint(-80, 80) / 8,
                         rng.uniform(-100, 100)])
    a, b = [v(0.15) for _ in range(m)], [v(0.35) for _ in range(m)]
    config = {}
    if rng.random() < 0.4:
      # operands of other magnitudes (exact scaling by powers of two): a quotient
      # of two tiny numbers is an ordinary number, 0 is the only zero denominator
      ka, kb = rng.choice(_SCALE_EXPONENTS), rng.choice(_SCALE_EXPONENTS)
      if rng.random() < 0.5:
        ka = kb
      config['scale_exp'] = [ka, kb]
      a = [x * 2.0 ** ka for x in a]
      b = [x * 2.0 ** kb for x in b]
    return {'family': 'misc', 'sub': 'mathutils', 'config': config,
            'input': {'a': a, 'b': b}}
  if sub == 'flip':
    m = rng.randint(1, 6)
    mode = rng.choice(['bool', 'int', 'thr', 'thr'])
    if mode == 'thr':
      thr = rng.randint(0, 8) / 8
      base = [rng.randint(0, 8) / 8 for _ in range(m)]
      model = [rng.randint(0, 8) / 8 for _ in range(m)]
    else:
      thr = None
      cast = bool if mode == 'bool' else int
      base = [cast(rng.random() < 0.5) for _ in range(m)]
      model = [cast(rng.random() < 0.5) for _ in range(m)]
      if rng.random() < 0.3:
        thr = 0.5
    return {'family': 'misc', 'sub': 'flip', 'config': {},
            'input': {'base': base, 'model': model, 'threshold': thr}}
  if sub == 'xent':
    m = rng.randint(1, 8)
    y_true = [rng.choice([0, 1]) for _ in range(m)]
    if 1 not in y_true:
      y_true[0] = 1
    return {'family': 'misc', 'sub': 'xent', 'config': {},
            'input': {'y_true': y_true,
                      'y_pred': [rng.randint(1, 63) / 64 for _ in range(m)]}}
  if sub == 'xent01':
    # categorical cross entropy with probabilities on the closed interval:
    # exact 0.0 / 1.0 entries (one-hot predictions, impossible classes)
    m = rng.randint(1, 6)
    y_true = [0] * m
    for i in rng.sample(range(m), 1 if rng.random() < 0.8 else rng.randint(1, m)):
      y_true[i] = 1
    style = rng.choice(['onehot', 'zeros', 'zeros', 'decimal'])
    if style == 'onehot':
      hot = rng.randrange(m)
      y_pred = [1.0 if i == hot else 0.0 for i in range(m)]
    elif style == 'zeros':
      y_pred = [0.0 if rng.random() < 0.4 else rng.randint(1, 16) / 16 for _ in range(m)]
    else:
      parts = [rng.randint(0, 5) for _ in range(m)]
      tot = sum(parts) or 1
      y_pred = [p / tot for p in parts]
    if not any(y_pred):
      y_pred[rng.randrange(m)] = 1.0
    return {'family': 'misc', 'sub': 'xent01', 'config': {},
            'input': {'y_true': y_true, 'y_pred': y_pred}}
  # topkacc
  m = rng.randint(2, 6)
  scores = [s / 16 for s in rng.sample(range(1, 32), m)]
  weights = None
  r = rng.random()
  if r < 0.3:
    weights = rng.choice([0.5, 2.0, 1.0])
  elif r < 0.6:
    for _ in range(20):
      weights = [rng.choice([0.25, 0.5, 1.0, 2.0, 4.0]) for _ in range(m)]
      if len({s * w for s, w in zip(scores, weights)}) == m:
        break
    else:
      weights = None
  return {'family': 'misc', 'sub': 'topkacc', 'config': {},
          'input': {'y_pred': scores, 'label': rng.randrange(m), 'weights': weights,
                    'k': rng.randint(1, m)}}


def gen_clsbig(rng):
  """A classification data set with 150k-400k examples, described by its
  sampling parameters only (expanded vectorised by c07_check_large.expand)."""
  it = rng.choice(['binary', 'binary', 'multiclass-indicator', 'multiclass'])
  n = rng.randint(150_000, 400_000)
  config = {'input_type': it, 'n': n, 'nbatch': rng.choice([1, 4, 16]),
            'vocab': None, 'pos_label': 1}
  inp = {'data_seed': rng.getrandbits(32), 'agree': rng.choice([0.5, 0.7, 0.9, 0.97])}
  if it == 'binary':
    neg, pos = rng.choice([(0, 1), (-1, 1), (2, 7), (False, True)])
    inp['labels'] = [neg, pos]
    inp['class_p'] = [rng.choice([0.2, 0.35, 0.5, 0.5, 0.65, 0.8])]
    inp['class_p'].insert(0, 1 - inp['class_p'][0])
    config['average'] = rng.choice(['binary', 'binary', 'micro', 'macro'])
    config['pos_label'] = pos if rng.random() < 0.8 else neg
  else:
    ncls = rng.choice([2, 3, 4])
    w = [rng.choice([1, 1, 2, 3]) for _ in range(ncls)]
    inp['class_p'] = [x / sum(w) for x in w]
    config['average'] = rng.choice(['micro', 'macro'])
    if it == 'multiclass':
      labels = rng.sample(range(10), ncls)
      inp['labels'] = labels
      config['vocab'] = labels[::-1] if rng.random() < 0.5 else list(labels)
    else:
      inp['labels'] = list(range(ncls))
  return {'family': 'clsbig', 'config': config, 'input': inp}


# ---------------------------------------------------------------------------
# fourth audit round: input classes drawn from a SIDE stream (the main stream of
# every family is untouched, so the cases of the earlier rounds stay the same)
# ---------------------------------------------------------------------------

VALUEACC_METRICS = {
    # (concat mode, number of inputs) -> names of the metric functions
    ('concat', 1): ['sum', 'len', 'max', 'mean'],
    ('concat', 2): ['dot', 'len2', 'sumdiff'],
    ('append', 1): ['nbatches', 'total', 'maxlen'],
    ('append', 2): ['nbatches2', 'total2'],
}
SCORE_FNS = ['abs', 'neg', 'half']


def thr_inject_repeats(case, rng):
  """Turns a thresholded-retrieval case into one whose rankings repeat an id
  (several chunks of one document, a merged candidate list): 1-3 extra copies of
  a relevant or an irrelevant id in one or several rows, at any position, each
  with its own probability (drawn from the values that occur in the case, the
  thresholds, 0 and 1; or the probability of the first occurrence)."""
  cfg, inp = case['config'], case['input']
  y_true, y_pred, y_prob = inp['y_true'], inp['y_pred'], inp['y_prob']
  n = len(y_true)
  pool_p = sorted({0.0, 1.0, *cfg['thresholds'],
                   *(v for row in (y_prob or []) for v in row)})
  which = rng.choice(['relevant', 'relevant', 'relevant', 'irrelevant', 'any'])
  for i in sorted(rng.sample(range(n), rng.randint(1, n))):
    t, p = y_true[i], y_pred[i]
    pr = y_prob[i] if y_prob is not None else None
    for _ in range(rng.choice([1, 1, 2, 3])):
      want = which if which != 'any' else rng.choice(['relevant', 'irrelevant'])
      rel = [x for x in p if x in t]
      irr = [x for x in p if x not in t]
      if want == 'relevant' and not rel:
        # the ranking holds no relevant id yet: retrieve one first
        pos = rng.randint(0, len(p))
        p.insert(pos, rng.choice(t))
        if pr is not None:
          pr.insert(pos, rng.choice(pool_p))
        rel = [p[pos]]
      item = rng.choice(rel if want == 'relevant' else (irr or rel))
      first = p.index(item)
      pos = rng.choice([first + 1, len(p), rng.randint(0, len(p))])
      p.insert(pos, item)
      if pr is not None:
        first_p = pr[first]  # (pr has not received the copy yet)
        pr.insert(pos, first_p if rng.random() < 0.2 else rng.choice(pool_p))
  cfg['repeated_ids'] = which
  return case


def gen_stats_configured(rng):
  """Accumulators of rolling_stats with a NON-DEFAULT configuration, to be run
  through the one-shot call, add() + result() and as_agg_fn()(batch):
  ValueAccumulator (concat_fn None / list concat / array concat, metric_fns
  None / one callable / a dict of callables, 1-2 inputs) and Mean /
  MeanAndVariance / Var with a batch_score_fn."""
  if rng.random() < 0.6:
    nargs = rng.choice([1, 1, 2])
    concat = rng.choice([None, 'list', 'list', 'array'])
    names = VALUEACC_METRICS[('concat' if concat else 'append', nargs)]
    r = rng.random()
    if r < 0.15:
      metric = None
    elif r < 0.6:
      metric = rng.choice(names)
    else:
      metric = sorted(rng.sample(names, rng.randint(1, len(names))))
    batches = []
    for _ in range(rng.choice([1, 2, 3, 4])):
      m = rng.randint(1, 7)
      batches.append([[rng.randint(-50, 50) for _ in range(m)] for _ in range(nargs)])
    return {'family': 'stats', 'sub': 'valueacc',
            'config': {'concat': concat, 'metric': metric, 'nargs': nargs},
            'input': {'batches': batches}}
  sub = rng.choice(['mean', 'meanvar', 'meanvar', 'var'])
  p_nan = rng.choice([0.0, 0.0, 0.15, 0.4])
  return {'family': 'stats', 'sub': sub, 'config': {'score': rng.choice(SCORE_FNS)},
          'input': {'batches': _numeric_batches(rng, p_nan)}}


# share of the cases of a family that is drawn from the side stream
SIDE_SHARE = {'thr': 0.22, 'stats': 0.15}


GENERATORS = {'clsbig': gen_clsbig, 'cls': gen_cls, 'retr': gen_retr, 'thr': gen_thr,
              'stats': gen_stats, 'statsinf': gen_stats_inf, 'misc': gen_misc}


def gen(family, rseed, index):
  side = None
  if family in SIDE_SHARE:
    side = _rng(family + ':round4', rseed, index)
    if side.random() >= SIDE_SHARE[family]:
      side = None
  if side is not None and family == 'stats':
    case = gen_stats_configured(side)
  else:
    case = GENERATORS[family](_rng(family, rseed, index))
    if side is not None and family == 'thr':
      case = thr_inject_repeats(case, side)
  case['src'] = {'rseed': rseed, 'index': index}
  if case['family'] != family:
    case['src']['generator'] = family
  return case
