"""C02 helpers: harness aggregators, slice functions, pipeline builder, brute-force oracle.

A *case* is a JSON-able dict that fully determines one execution:

  {'family': 'row' | 'intra',
   'containers': {column: 'list' | 'array'},       # flat columns only
   'stream': [ {column: [..]}, ... ],               # literal batches
   'pre': [ {'op': 'assign'|'select'|'apply', ...}, ... ],
   'aggs': [ {'fn': name, 'in': [cols] | {'arg': col} | None, 'single': bool,
              'out': name | [n1, n2] | {name: dictkey} | None,
              'noslice': bool, 'opt': {...}}, ... ],
   'slicers': [ {'kind': ..., ...}, ... ],
   'dims': {column: dim}}                           # optional: 2-D (batch x dim) columns

An aggregate input entry is a column name or {'lit': constant} (a `Key.Literal`).
Containers: 'list' (default), 'array' (1-D ndarray), 'array2d' (batch x dim ndarray).

The pipeline side (`build`) talks to the real `TreeTransform` API. The oracle side
(`expected`) never touches the repository: it flattens the stream to rows, computes
slice memberships itself and applies the aggregate function once to the member rows.
Only the aggregate function itself is shared (that is the statement: "equals applying
the aggregate function directly to the selected input columns").
"""

from __future__ import annotations

import collections
import copy
from fractions import Fraction
import math

import numpy as np


# ---------------------------------------------------------------------------
# Plain-data helpers
# ---------------------------------------------------------------------------


def py(x):
  """Deep conversion of numpy containers/scalars to plain Python."""
  if isinstance(x, np.ndarray):
    return [py(e) for e in x.tolist()]
  if isinstance(x, np.generic):
    return x.item()
  if isinstance(x, (list, tuple)):
    return [py(e) for e in x]
  if isinstance(x, dict):
    return {k: py(v) for k, v in x.items()}
  return x


def flat(x):
  """Leaf elements of a (possibly nested, possibly ragged) column."""
  out = []
  stack = [py(x)]
  while stack:
    cur = stack.pop()
    if isinstance(cur, list):
      stack.extend(reversed(cur))
    else:
      out.append(cur)
  return out


# ---------------------------------------------------------------------------
# Harness aggregators (real objects handed to the pipeline AND applied directly
# by the oracle in one call). They never mutate a state in place and never
# return a tuple unless two outputs are meant.
# ---------------------------------------------------------------------------


def _cols(cols, named, dict_cols):
  cols = list(cols) + list(named.values())  # keyword inputs: input_keys order
  if dict_cols:
    d = cols[0]
    cols = [d[c] for c in dict_cols]
  return cols


Stats = collections.namedtuple('Stats', ['total', 'count'])


class Collect:
  """Row-collecting list: result is the list of rows [[c0, c1, ..], ...]."""

  def __init__(self, dict_cols=None, as_dict=False, lit=False):
    self.dict_cols = dict_cols
    self.as_dict = as_dict
    self.lit = lit  # the last argument is a constant (Key.Literal), not a column

  def create_state(self):
    return []

  def update_state(self, state, *cols, **named):
    cols = _cols(cols, named, self.dict_cols)
    tail = [py(cols.pop())] if self.lit else []  # recorded as it arrived, per row
    lens = {len(c) for c in cols}
    if len(lens) > 1:
      raise AssertionError(f'columns of unequal length reached the aggregator: {lens}')
    return list(state) + [[py(v) for v in row] + copy.deepcopy(tail)
                          for row in zip(*cols)]

  def merge_states(self, states):
    out = []
    for s in states:
      out = out + list(s)
    return out

  def get_result(self, state):
    rows = [list(r) for r in state]
    return {'rows': rows, 'n': len(rows)} if self.as_dict else rows


class SumCount:
  """Integer weighted sum of all leaves (column i weighs i+1) and leaf count of column 0."""

  def __init__(self, dict_cols=None, shape='list', lit=False):
    self.dict_cols = dict_cols
    self.shape = shape  # 'list' | 'dict' | 'scalar' | 'tuple' (= two outputs)
    self.lit = lit  # the last argument is an int constant (Key.Literal): a factor

  def create_state(self):
    return [0, 0]

  def update_state(self, state, *cols, **named):
    cols = _cols(cols, named, self.dict_cols)
    factor = 1
    if self.lit:
      factor = cols.pop()
      if isinstance(factor, bool) or not isinstance(factor, int):
        raise AssertionError(f'the literal factor arrived as {factor!r}')
    s = state[0]
    for i, c in enumerate(cols):
      s += factor * (i + 1) * sum(int(v) for v in flat(c))
    return [s, state[1] + len(flat(cols[0]))]

  def merge_states(self, states):
    s = n = 0
    for st in states:
      s += st[0]
      n += st[1]
    return [s, n]

  def get_result(self, state):
    if self.shape == 'dict':
      return {'sum': state[0], 'count': state[1]}
    if self.shape == 'tuple':
      return (state[0], state[1])
    if self.shape == 'scalar':
      return state[0]
    return [state[0], state[1]]


class FracMean:
  """Exact mean (Fraction) of the leaves of column 0; result [mean] or {'mean': [mean]}."""

  def __init__(self, dict_cols=None, as_dict=False):
    self.dict_cols = dict_cols
    self.as_dict = as_dict

  def create_state(self):
    return [Fraction(0), 0]

  def update_state(self, state, *cols, **named):
    cols = _cols(cols, named, self.dict_cols)
    leaves = flat(cols[0])
    return [state[0] + sum(Fraction(int(v)) for v in leaves), state[1] + len(leaves)]

  def merge_states(self, states):
    s, n = Fraction(0), 0
    for st in states:
      s += st[0]
      n += st[1]
    return [s, n]

  def get_result(self, state):
    mean = state[0] / state[1] if state[1] else None
    return {'mean': [mean], 'n': state[1]} if self.as_dict else [mean]


class FracMeanMetric:
  """MergeableMetric (add/merge/result): exact means of the leaves of each input.

  `pair=True` returns a tuple (mean of input 0, mean of input 1): two outputs.
  """

  def __init__(self, pair=False):
    self.pair = pair
    self.tot = [Fraction(0), Fraction(0)]
    self.cnt = [0, 0]

  def add(self, *cols, **named):
    cols = list(cols) + list(named.values())
    for i, c in enumerate(cols[:2]):
      leaves = flat(c)
      self.tot[i] += sum(Fraction(int(v)) for v in leaves)
      self.cnt[i] += len(leaves)

  def merge(self, other):
    for i in range(2):
      self.tot[i] += other.tot[i]
      self.cnt[i] += other.cnt[i]

  def result(self):
    means = [self.tot[i] / self.cnt[i] if self.cnt[i] else None for i in range(2)]
    if self.pair:
      return (means[0], means[1])
    return [means[0], self.cnt[0]]

  def as_agg_fn(self):
    from ml_metrics._src.aggregates import base
    return base.as_agg_fn(FracMeanMetric, pair=self.pair)


RSHAPES = ('tuple', 'namedtuple', 'list_tuple', 'dict_tuple', 'dict_namedtuple',
           'ndarray', 'ndarray2d', 'dict_ndarray')


class Shaped:
  """Integer sum s / leaf count n of column 0, reported in a typed container.

  The containers are the ones metric code really returns: a namedtuple, a tuple
  nested in a list or a dict (a confidence interval), a multi-element ndarray. A plain
  top-level tuple is only used with ONE output key (it is then stored as the value).
  """

  def __init__(self, rshape='namedtuple'):
    self.rshape = rshape

  def create_state(self):
    return [0, 0]

  def update_state(self, state, *cols, **named):
    cols = _cols(cols, named, None)
    leaves = flat(cols[0])
    return [state[0] + sum(int(v) for v in leaves), state[1] + len(leaves)]

  def merge_states(self, states):
    return [sum(st[0] for st in states), sum(st[1] for st in states)]

  def get_result(self, state):
    s, n = state
    r = self.rshape
    if r == 'tuple':
      return (s, n)
    if r == 'namedtuple':
      return Stats(s, n)
    if r == 'list_tuple':
      return [(s, n), s]
    if r == 'dict_tuple':
      return {'ci': (s, n), 'inner': {'t': (n, s), 'k': s}, 'n': n}
    if r == 'dict_namedtuple':
      return {'stats': Stats(s, n), 'n': n}
    if r == 'ndarray':
      return np.array([s, n, s + n], dtype=np.int64)
    if r == 'ndarray2d':
      return np.array([[s, n], [n, s]], dtype=np.int64)
    if r == 'dict_ndarray':
      return {'v': np.array([s, n], dtype=np.int64), 'n': n}
    raise ValueError(r)


AGG_KINDS = ('collect', 'sumcount', 'fracmean', 'fracmean_metric', 'fracmean_has',
             'meanvar', 'cm', 'shaped')


def is_literal(entry):
  return isinstance(entry, dict) and 'lit' in entry


def in_entries(a):
  """Input entries (column names / {'lit': v}) of an aggregate in call order."""
  spec = a['in']
  if spec is None:
    return []
  return list(spec.values()) if isinstance(spec, dict) else list(spec)


def has_literal(a):
  return any(is_literal(e) for e in in_entries(a))


def make_agg(a):
  """The aggregator object handed to `aggregate(fn=...)`."""
  fn, opt = a['fn'], a.get('opt') or {}
  dict_cols = opt.get('dict_cols')
  lit = has_literal(a)
  if fn == 'collect':
    return Collect(dict_cols=dict_cols, as_dict=opt.get('as_dict', False), lit=lit)
  if fn == 'sumcount':
    return SumCount(dict_cols=dict_cols, shape=opt.get('shape', 'list'), lit=lit)
  if fn == 'shaped':
    return Shaped(rshape=opt.get('rshape', 'namedtuple'))
  if fn == 'fracmean':
    return FracMean(dict_cols=dict_cols, as_dict=opt.get('as_dict', False))
  if fn == 'fracmean_metric':
    from ml_metrics._src.aggregates import base
    return base.as_agg_fn(FracMeanMetric, pair=opt.get('pair', False))
  if fn == 'fracmean_has':
    return FracMeanMetric(pair=opt.get('pair', False))
  if fn == 'meanvar':
    from ml_metrics._src.aggregates import rolling_stats
    return rolling_stats.MeanAndVariance()
  if fn == 'cm':
    from ml_metrics._src.aggregates import classification
    return classification.ConfusionMatrixAggFn(
        metrics=('precision', 'recall', 'confusion_matrix'))
  raise ValueError(fn)


def direct(a, cols, named):
  """Applies the aggregate function ONCE, directly, to complete columns."""
  fn, opt = a['fn'], a.get('opt') or {}
  if fn in ('collect', 'sumcount', 'fracmean', 'shaped'):
    agg = make_agg(a)
    return agg.get_result(agg.update_state(agg.create_state(), *cols, **named))
  if fn in ('fracmean_metric', 'fracmean_has'):
    m = FracMeanMetric(pair=opt.get('pair', False))
    m.add(*cols, **named)
    return m.result()
  if fn == 'meanvar':
    from ml_metrics._src.aggregates import rolling_stats
    m = rolling_stats.MeanAndVariance()
    m.add(np.asarray(cols[0], dtype=float))
    return m.result()
  if fn == 'cm':
    agg = make_agg(a)
    return agg.get_result(agg.update_state(
        agg.create_state(), np.asarray(cols[0]), np.asarray(cols[1])))
  raise ValueError(fn)


# ---------------------------------------------------------------------------
# Pre-aggregate batch functions (pipeline side) and their row-level twins
# ---------------------------------------------------------------------------


def col_add(a, b):
  if isinstance(a, np.ndarray) or isinstance(b, np.ndarray):
    return np.asarray(a) + np.asarray(b)
  return [x + y for x, y in zip(a, b, strict=True)]


def col_parity(a):
  if isinstance(a, np.ndarray):
    return a % 2
  return [x % 2 for x in a]


def pack_neg(*cols):
  """Forwards all columns, negating the last one; a tuple = several outputs."""
  last = cols[-1]
  neg = -last if isinstance(last, np.ndarray) else [-v for v in last]
  return tuple(cols[:-1]) + (neg,)


PRE_FNS = {'add': col_add, 'parity': col_parity, 'pack_neg': pack_neg}


def _row_pre(row, op):
  """Row-level twin of one pre-aggregate operator (independent of the repo)."""
  kind = op['op']
  if kind == 'assign':
    new = dict(row)
    if op['fn'] == 'add':
      new[op['out']] = row[op['in'][0]] + row[op['in'][1]]
    elif op['fn'] == 'parity':
      new[op['out']] = row[op['in'][0]] % 2
    else:
      raise ValueError(op['fn'])
    return new
  if kind == 'select':
    names = op.get('as') or op['keys']
    return {n: row[k] for k, n in zip(op['keys'], names, strict=True)}
  if kind == 'apply':
    vals = [row[k] for k in op['in']]
    vals[-1] = -vals[-1]
    return dict(zip(op['out'], vals, strict=True))
  raise ValueError(kind)


# ---------------------------------------------------------------------------
# Slice functions (pipeline side). Module level so that they are plain callables.
# ---------------------------------------------------------------------------


def fan_int(v):
  """0 -> no slice, 1 -> one, 2 -> two, 3 -> the same slice twice, else three."""
  v = int(v)
  if v == 0:
    return ()
  if v == 1:
    return (1,)
  if v == 2:
    return (2, 1)
  if v == 3:
    return (3, 3)
  return (v, v - 1, 0)


def fan_split(v):
  return str(v).split(' ')


def fan_pos(v):
  return tuple((i, tok) for i, tok in enumerate(str(v).split(' ')))


def fan_or(x, y):
  return (py(x), py(y))


def cross_str(x, y):
  return ((str(py(x)), str(py(y))),)


def item_of(x):
  return (py(x),)


FAN_FNS = {'fan_int': fan_int, 'fan_split': fan_split, 'fan_pos': fan_pos,
           'fan_or': fan_or, 'cross_str': cross_str, 'item_of': item_of}


def _o_fan(fn, vals):
  """Oracle twin: the SET of slice-value tuples a row belongs to."""
  if fn == 'fan_int':
    v = vals[0]
    out = {0: [], 1: [1], 2: [2, 1], 3: [3]}.get(v, [v, v - 1, 0])
    return {(s,) for s in out}
  if fn == 'fan_split':
    return {(tok,) for tok in vals[0].split(' ')}
  if fn == 'fan_pos':
    return {(i, tok) for i, tok in enumerate(vals[0].split(' '))}
  if fn == 'fan_or':
    return {(vals[0],), (vals[1],)}
  if fn == 'cross_str':
    return {(str(vals[0]), str(vals[1]))}
  if fn == 'item_of':
    return {(vals[0],)}
  raise ValueError(fn)


class RowMaskSlicer:
  """User `slice_mask_fn` over one flat column yielding whole-row masks."""

  def __init__(self, mask_type='list', bare=False):
    self.mask_type = mask_type
    self.bare = bare

  def __call__(self, col):
    values = []
    for e in col:
      e = py(e)
      if e not in values:
        values.append(e)
    for v in values:
      mask = [bool(py(e) == v) for e in col]
      if self.mask_type == 'array':
        mask = np.array(mask, dtype=bool)
      yield v, (mask if self.bare else (mask,))


class IntraSlicer:
  """User `slice_mask_fn` for intra-example slicing (element masks, nested lists).

  attrs: nested attribute columns; `masks[i]` = index of the attribute column whose
  element mask applies to aggregate input i, or None for the literal True.
  """

  def __init__(self, masks, bare=False, within=None, presence='present', vocab=()):
    self.masks = list(masks)
    self.bare = bare
    self.within = None if within is None else list(within)
    self.presence = presence
    self.vocab = list(vocab)

  def __call__(self, *attrs):
    if self.presence == 'vocab':
      keys = list(self.vocab)
    else:
      present = set()
      for attr in attrs:
        for row in attr:
          present.update(row)
      keys = sorted(present)
      if self.within is not None:
        keys = [k for k in keys if k in self.within]
    for k in keys:
      per_attr = [[[e == k for e in row] for row in attr] for attr in attrs]
      if self.bare:
        yield k, per_attr[0]
      else:
        yield k, tuple(True if m is None else per_attr[m] for m in self.masks)


# ---------------------------------------------------------------------------
# Pipeline builder (real API)
# ---------------------------------------------------------------------------


def materialize_stream(case):
  """Literal batches -> batches with the requested column containers."""
  containers = case.get('containers') or {}
  dims = case.get('dims') or {}
  out = []
  for batch in case['stream']:
    b = {}
    for k, v in batch.items():
      if containers.get(k) == 'array2d':
        b[k] = np.array(v, dtype=np.int64).reshape(len(v), dims[k])
      elif containers.get(k) == 'array':
        if v and isinstance(v[0], str) or (not v and k in case.get('str_cols', ())):
          b[k] = np.array(v, dtype='<U8')
        else:
          b[k] = np.array(v, dtype=np.int64)
      else:
        b[k] = copy.deepcopy(v)
    out.append(b)
  return out


def _in_key(entry):
  if is_literal(entry):
    from ml_metrics._src.chainables import tree
    return tree.Key.Literal(copy.deepcopy(entry['lit']))
  return entry


def _in_keys(a):
  spec = a['in']
  if spec is None:
    return None
  if isinstance(spec, dict):
    return {k: _in_key(v) for k, v in spec.items()}
  if a.get('single'):
    return _in_key(spec[0])
  return tuple(_in_key(e) for e in spec)


def _out_keys(a):
  spec = a['out']
  if spec is None:
    return None
  if isinstance(spec, dict):
    return dict(spec)
  if isinstance(spec, list):
    return tuple(spec)
  return spec


def add_pre(t, case):
  """Appends the pre-aggregate operators of the case to the transform."""
  for op in case['pre']:
    if op['op'] == 'assign':
      t = t.assign(op['out'], fn=PRE_FNS[op['fn']], input_keys=tuple(op['in'])
                   if len(op['in']) > 1 else op['in'][0])
    elif op['op'] == 'select':
      if op.get('as'):
        t = t.select(tuple(op['keys']), tuple(op['as']))
      else:
        t = t.select(tuple(op['keys']))
    elif op['op'] == 'apply':
      t = t.apply(fn=PRE_FNS[op['fn']], input_keys=tuple(op['in']),
                  output_keys=tuple(op['out']))
    else:
      raise ValueError(op)
  return t


def add_aggs(t, aggs):
  """Appends aggregates: the first through aggregate(), the others stacked."""
  for i, a in enumerate(aggs):
    kw = {'fn': make_agg(a)}
    ik, ok = _in_keys(a), _out_keys(a)
    if ik is not None:
      kw['input_keys'] = ik
    if ok is not None:
      kw['output_keys'] = ok
    if a.get('noslice'):
      kw['disable_slicing'] = True
    if i == 0:
      fn = kw.pop('fn')
      t = t.aggregate(fn, **kw)
    else:
      t = t.add_aggregate(**kw)
  return t


def build(case, with_slicers=True, data_source=None, slicer_subset=None):
  from ml_metrics._src.chainables import transform
  t = transform.TreeTransform()
  if data_source is not None:
    t = t.data_source(data_source)
  t = add_pre(t, case)
  t = add_aggs(t, case['aggs'])
  if with_slicers:
    for j, s in enumerate(case['slicers']):
      if slicer_subset is not None and j not in slicer_subset:
        continue
      t = _add_slice(t, s)
  return t


def _name(n):
  return tuple(n) if isinstance(n, list) else n


def add_slice(t, s):
  return _add_slice(t, s)


def _add_slice(t, s):
  kind = s['kind']
  kw = {}
  if s.get('replace') is not None:
    kw['replace_mask_false_with'] = s['replace']
  if kind == 'single':
    return t.add_slice(s['keys'][0], **kw)
  if kind == 'cross':
    return t.add_slice(tuple(s['keys']), **kw)
  if kind == 'within':
    values = s['values']
    values = values[0] if s.get('scalar') else tuple(values)
    if s.get('name'):
      kw['slice_name'] = s['name']
    return t.add_slice({s['keys'][0]: values}, **kw)
  if kind == 'wcross':
    # Restricted value sets over a feature cross: add_slice({'a': (..), 'b': (..)}).
    if s.get('name'):
      kw['slice_name'] = _name(s['name'])
    return t.add_slice({k: tuple(v) for k, v in zip(s['keys'], s['values'], strict=True)},
                       **kw)
  if kind == 'fan':
    keys = s['keys'][0] if len(s['keys']) == 1 else tuple(s['keys'])
    if s.get('name'):
      kw['slice_name'] = _name(s['name'])
    return t.add_slice(keys, slice_fn=FAN_FNS[s['fn']], **kw)
  if kind == 'rowmask':
    return t.add_slice(
        s['keys'][0], slice_name=s['name'],
        slice_mask_fn=RowMaskSlicer(s.get('mask_type', 'list'), s.get('bare', False)),
        **kw)
  if kind == 'intra':
    keys = s['attrs'][0] if len(s['attrs']) == 1 else tuple(s['attrs'])
    return t.add_slice(
        keys, slice_name=s['name'],
        slice_mask_fn=IntraSlicer(s['masks'], bare=s.get('bare', False),
                                  within=s.get('within'),
                                  presence=s.get('presence', 'present'),
                                  vocab=s.get('vocab') or ()),
        **kw)
  raise ValueError(kind)


# ---------------------------------------------------------------------------
# Brute-force oracle
# ---------------------------------------------------------------------------


def rows_by_batch(case):
  """Flattens every batch to row dicts and applies the pre-ops row by row."""
  out = []
  for batch in case['stream']:
    cols = list(batch)
    n = len(batch[cols[0]]) if cols else 0
    rows = []
    for i in range(n):
      row = {c: copy.deepcopy(batch[c][i]) for c in cols}
      for op in case['pre']:
        row = _row_pre(row, op)
      rows.append(row)
    out.append(rows)
  return out


def slicer_features(s):
  if s.get('name'):
    n = s['name']
    return tuple(n) if isinstance(n, list) else (n,)
  return tuple(s['keys'])


def _memberships(s, row):
  """Set of slice-value tuples the row belongs to (row slicers)."""
  kind = s['kind']
  if kind in ('single', 'cross', 'rowmask'):
    return {tuple(row[k] for k in s['keys'])}
  if kind == 'within':
    v = row[s['keys'][0]]
    return {(v,)} if v in s['values'] else set()
  if kind == 'wcross':
    # The cross value of a row whose every feature lies in its allowed set.
    vals = tuple(row[k] for k in s['keys'])
    ok = all(v in allowed for v, allowed in zip(vals, s['values'], strict=True))
    return {vals} if ok else set()
  if kind == 'fan':
    return _o_fan(s['fn'], [row[k] for k in s['keys']])
  raise ValueError(kind)


def _agg_in_cols(a):
  """(column names in call order, argument names or None)."""
  spec = a['in']
  if spec is None:
    return list((a.get('opt') or {})['dict_cols']), 'self'
  if isinstance(spec, dict):
    names = list(spec)  # keyword inputs keep the order of the input_keys dict
    return [spec[n] for n in names], names
  return list(spec), None


def _column(entry, rows):
  """The complete argument for one input entry: the rows' values, or the constant."""
  if is_literal(entry):
    return copy.deepcopy(entry['lit'])
  return [r[entry] for r in rows]


def _call_direct(a, columns):
  cols, argnames = _agg_in_cols(a)
  if argnames == 'self':
    return direct(a, [dict(zip(cols, columns))], {})
  if argnames:
    return direct(a, [], dict(zip(argnames, columns)))
  return direct(a, columns, {})


def _assign_outputs(a, value, slice_key, result):
  spec = a['out']
  if spec is None:
    result[('', slice_key)] = value
  elif isinstance(spec, dict):
    for name, dkey in spec.items():
      result[(name, slice_key)] = value[dkey]
  elif isinstance(spec, list):
    if not isinstance(value, tuple) or len(value) != len(spec):
      raise AssertionError('tuple outputs need a tuple result')
    for name, v in zip(spec, value):
      result[(name, slice_key)] = v
  else:
    result[(spec, slice_key)] = value


def expected(case, with_slicers=True, repl_rows='broadcast'):
  """{(output name, None | (features, values)): value} by brute force.

  Also returns per-slicer statistics used for the non-triviality rule.

  `repl_rows`: how replace_mask_false_with=v replaces a masked-out row of a 2-D
  (batch x dim) column: 'broadcast' = every element of the row becomes v (what a
  numpy mask does to an array), 'scalar' = the row becomes v (what a list mask does
  to a list of rows). Both readings are accepted by the check.
  """
  batches = rows_by_batch(case)
  all_rows = [r for rows in batches for r in rows]
  result = {}
  stats = {'late': False, 'max_values': 0}
  for a in case['aggs']:
    cols, _ = _agg_in_cols(a)
    value = _call_direct(a, [_column(c, all_rows) for c in cols])
    _assign_outputs(a, value, None, result)
  if not with_slicers:
    return result, stats
  for s in case['slicers']:
    feats = slicer_features(s)
    repl = s.get('replace')
    if s['kind'] == 'intra':
      per_slice = _intra_slices(case, s, batches)
    else:
      per_slice = _row_slices(s, batches)
    values = list(per_slice)
    stats['max_values'] = max(stats['max_values'], len(values))
    for v, emitted in per_slice.items():
      if emitted and emitted[0] > 0 and len(values) >= 2:
        stats['late'] = True
    for a in case['aggs']:
      if a.get('noslice'):
        continue
      cols, _ = _agg_in_cols(a)
      for v, emitted in per_slice.items():
        if s['kind'] == 'intra':
          columns = _intra_columns(s, v, emitted, batches, cols, case, repl)
        else:
          columns = _row_columns(s, v, emitted, batches, cols, repl, repl_rows)
        value = _call_direct(a, columns)
        _assign_outputs(a, value, (feats, v), result)
  return result, stats


def _row_slices(s, batches):
  """slice value -> sorted list of batch indices in which it has a member row."""
  per = {}
  for bi, rows in enumerate(batches):
    for r in rows:
      for v in _memberships(s, r):
        lst = per.setdefault(v, [])
        if not lst or lst[-1] != bi:
          lst.append(bi)
  return per


def _row_columns(s, v, emitted, batches, cols, repl, repl_rows='broadcast'):
  columns = [[] for _ in cols]
  live = [j for j, c in enumerate(cols) if not is_literal(c)]
  for bi in emitted:
    for r in batches[bi]:
      member = v in _memberships(s, r)
      if member:
        for j in live:
          columns[j].append(r[cols[j]])
      elif repl is not None:
        # Masked-out rows of a batch in which the slice occurs are replaced.
        for j in live:
          old = r[cols[j]]
          if isinstance(old, list) and repl_rows == 'broadcast':
            columns[j].append([repl] * len(old))  # a row of a 2-D column
          else:
            columns[j].append(repl)
  for j, c in enumerate(cols):
    if is_literal(c):
      columns[j] = copy.deepcopy(c['lit'])  # a constant is not a per-row column
  return columns


def _intra_slices(case, s, batches):
  per = {}
  for bi, rows in enumerate(batches):
    if s.get('presence', 'present') == 'vocab':
      keys = list(s['vocab'])
    else:
      present = set()
      for r in rows:
        for attr in s['attrs']:
          present.update(r[attr])
      keys = sorted(present)
      if s.get('within') is not None:
        keys = [k for k in keys if k in s['within']]
    for k in keys:
      per.setdefault((k,), []).append(bi)
  return per


def _intra_columns(s, v, emitted, batches, cols, case, repl):
  k = v[0]
  columns = [[] for _ in cols]
  for bi in emitted:
    for r in batches[bi]:
      for j, c in enumerate(cols):
        m = 0 if s.get('bare') else s['masks'][j]
        if m is None:
          columns[j].append(copy.deepcopy(r[c]))
          continue
        attr = r[s['attrs'][m]]
        if len(attr) != len(r[c]):
          raise AssertionError('generator error: mask not aligned with input')
        if repl is None:
          columns[j].append([x for x, e in zip(r[c], attr) if e == k])
        else:
          columns[j].append([x if e == k else repl for x, e in zip(r[c], attr)])
  return columns


# ---------------------------------------------------------------------------
# Canonical form of an observed result and comparison
# ---------------------------------------------------------------------------


def canon_value(v):
  if isinstance(v, np.ndarray):
    return canon_value(v.tolist())
  if isinstance(v, np.generic):
    return v.item()
  if isinstance(v, (list, tuple)):
    return [canon_value(e) for e in v]
  if isinstance(v, dict):
    return {str(k): canon_value(e) for k, e in v.items()}
  if isinstance(v, (int, float, Fraction, str, bool)) or v is None:
    return v
  if all(hasattr(v, n) for n in ('tp', 'tn', 'fp', 'fn')):
    return {n: canon_value(getattr(v, n)) for n in ('tp', 'tn', 'fp', 'fn')}
  if all(hasattr(v, n) for n in ('count', 'mean', 'var')):
    return {n: canon_value(getattr(v, n)) for n in ('count', 'mean', 'var')}
  return repr(v)


def typed_value(v):
  """Like canon_value, but keeps the container TYPE of tuples, namedtuples, ndarrays."""
  if isinstance(v, np.ndarray):
    return {'__ndarray__': canon_value(v.tolist()), 'shape': list(v.shape)}
  if isinstance(v, tuple) and hasattr(v, '_fields'):
    return {'__namedtuple__': type(v).__name__, 'fields': list(v._fields),
            'values': [typed_value(e) for e in v]}
  if isinstance(v, tuple):
    return {'__tuple__': [typed_value(e) for e in v]}
  if isinstance(v, list):
    return [typed_value(e) for e in v]
  if isinstance(v, dict):
    return {str(k): typed_value(e) for k, e in v.items()}
  return canon_value(v)


def untyped(t):
  """A typed_value with tuples / namedtuples demoted to plain lists (ndarrays kept)."""
  if isinstance(t, dict):
    if '__tuple__' in t:
      return [untyped(e) for e in t['__tuple__']]
    if '__namedtuple__' in t:
      return [untyped(e) for e in t['values']]
    return {k: untyped(e) for k, e in t.items()}
  if isinstance(t, list):
    return [untyped(e) for e in t]
  return t


def contains_type(v, kinds):
  """Does the raw value contain a tuple / ndarray (kinds: subset of those two)?"""
  if isinstance(v, kinds):
    return True
  if isinstance(v, (list, tuple)):
    return any(contains_type(e, kinds) for e in v)
  if isinstance(v, dict):
    return any(contains_type(e, kinds) for e in v.values())
  return False


def _is_metric_key(k):
  return hasattr(k, 'metrics') and hasattr(k, 'slice')


def _slice_of(k):
  sl = k.slice
  return (tuple(sl.features), tuple(py(list(sl.values))))


def canon_result(res, self_output, conv=canon_value):
  """Observed pipeline result -> {(name, None | (features, values)): canon value}.

  With the default output key (SELF) the un-sliced result is the root itself; slice
  results of a SELF-keyed aggregate are the root's MetricKey(SELF, slice) entries.
  """
  if self_output:
    if not (isinstance(res, dict) and any(_is_metric_key(k) for k in res)):
      return {('', None): conv(res)}
    out, root = {}, {}
    for k, v in res.items():
      if _is_metric_key(k):
        out[('', _slice_of(k))] = conv(v)
      else:
        root[k] = v
    if len(root) == 1 and repr(next(iter(root))) == "Reserved('SELF')":
      root = next(iter(root.values()))  # {SELF: value, MetricKey(SELF, slice): ..}
    out[('', None)] = conv(root)
    return out
  if not isinstance(res, dict):
    raise TypeError(f'result is not a dict: {type(res)}')
  out = {}
  for k, v in res.items():
    key = (k.metrics, _slice_of(k)) if _is_metric_key(k) else (k, None)
    if key in out:
      raise AssertionError(f'two result keys canonicalise to {key}')
    out[key] = conv(v)
  return out


def _num(x):
  return isinstance(x, (int, float, Fraction)) and not isinstance(x, bool)


def values_equal(a, b):
  if _num(a) and _num(b):
    if isinstance(a, float) or isinstance(b, float):
      fa, fb = float(a), float(b)
      if math.isnan(fa) or math.isnan(fb):
        return math.isnan(fa) and math.isnan(fb)
      scale = max(1.0, abs(fa), abs(fb))
      return abs(fa - fb) <= 1e-9 * max(abs(fa), abs(fb)) + 1e-12 * scale
    return a == b
  if isinstance(a, list) and isinstance(b, list):
    return len(a) == len(b) and all(values_equal(x, y) for x, y in zip(a, b))
  if isinstance(a, dict) and isinstance(b, dict):
    return set(a) == set(b) and all(values_equal(a[k], b[k]) for k in a)
  if isinstance(a, bool) or isinstance(b, bool):
    return type(a) is type(b) and a == b
  return type(a) is type(b) and a == b


def diff(want, got):
  """List of (kind, key, want, got); want/got are canonical dicts."""
  want = {k: canon_value(v) for k, v in want.items()}
  out = []
  for k in want:
    if k not in got:
      out.append(('key_dropped', k, want[k], None))
    elif not values_equal(want[k], got[k]):
      out.append(('value_differs' if k[1] is not None else 'unsliced_differs',
                  k, want[k], got[k]))
  for k in got:
    if k not in want:
      out.append(('key_invented', k, None, got[k]))
  return out
