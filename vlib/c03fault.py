"""C03 scenario "an aggregation fails": one pipeline, one dataset, several strategies.

The pipelines of this scenario are built so that EVERY chain of named stages has a
genuinely fused twin (one stage): the records are dict batches {'x': [ints]}, the
operators behind the first aggregation only ADD columns (assign), so an aggregation
commutes with every operator that follows it and

    a: data_source + ops + aggregate(A)  ->  b: ops' + aggregate(B)  [-> c: ops'']

is the same computation as the single stage

    data_source + ops + ops' + ops'' + aggregate(A).add_aggregate(B).

Filters (which drop batches) only stand in front of the first aggregation.

  fspec  = {'n': batches, 'rec': rows per batch, 'source': 'seq' | 'rr' | 'list',
            'els': [['assign', out, in, ['affine', a, b] | ['square']],
                    ['filter', in, m], ['agg', key, in], ...],
            'fault': None | {'agg': key, 'batch': j, 'exc': 'ValueError' | ...}}
  layout = {'kind': 'fused', 'threads': [nt]}
         | {'kind': 'chained', 'stages': [stage of source, stage of els[0], ...],
            'threads': [nt per stage]}

The aggregate `fault['agg']` raises `exc` from update_state for the batch that holds
the j-th surviving batch (identified by the first value of its input column; all
column values are unique because every operator is injective on the naturals).

Second fault class (fourth audit round): 'an operator fails OUTSIDE the per-element
skippable call'. The LAST operator of the pipeline (spec order; it is then the last
operator of its stage in every layout) is an `apply` that passes every column
through and adds one:

    ['apply', out, in, op, [columns in front of it], batch_size (0 | rows per batch)]
    fault = {'op': out, 'batch': j, 'mode': 'arity' | 'nonbatch'}

  arity    : for the j-th surviving batch the function returns one value more than
             there are output_keys (the library pairs outputs and output_keys
             strictly, behind the skippable call)
  nonbatch : apply(..., batch_size=rows per batch); for that batch the new column
             is a scalar, not a batch (the output re-batcher refuses it inside its
             generator, behind the skippable call)

The expected values (model) are plain Python; nothing here asks the library what it
should have done.
"""

from __future__ import annotations

import functools

_EXC = {'ValueError': ValueError, 'TypeError': TypeError, 'RuntimeError': RuntimeError,
        'KeyError': KeyError, 'ZeroDivisionError': ZeroDivisionError}
EXC_NAMES = tuple(_EXC)


def _h(v):
  return (int(v) * 2654435761) & 0xFFFFFFFF


class FaultySum:
  """Exact integer aggregator [sum, count, xor]; update fails on a marked value."""

  def __init__(self, bad=None, exc='ValueError'):
    self._bad = bad
    self._exc = exc

  def create_state(self):
    return [0, 0, 0]

  def update_state(self, state, xs):
    if self._bad is not None and self._bad in xs:
      raise _EXC[self._exc](f'cannot aggregate the batch holding {self._bad}')
    s, c, x = state
    for v in xs:
      s, c, x = s + int(v), c + 1, x ^ _h(v)
    return [s, c, x]

  def merge_states(self, states):
    s = c = x = 0
    for st in states:
      s, c, x = s + st[0], c + st[1], x ^ st[2]
    return [s, c, x]

  def get_result(self, state):
    return list(state)


def op_affine(xs, a=1, b=0):
  return [a * int(v) + b for v in xs]


def op_square(xs):
  return [int(v) * int(v) for v in xs]


def keep(xs, m=2):
  return sum(int(v) for v in xs) % m != 0


OP_FAULT_MODES = ('arity', 'nonbatch')


def op_apply(*cols, op=None, src_i=0, bad=None, mode=None):
  """Passes every column through and adds op(cols[src_i]); the batch holding `bad`
  gets a result the library cannot take (see the module docstring)."""
  new = _apply_op(op, cols[src_i])
  if bad is not None and bad in cols[src_i]:
    if mode == 'arity':
      return tuple(cols) + (new, new)
    if mode == 'nonbatch':
      return tuple(cols) + (int(new[0]),)
    raise ValueError(mode)
  return tuple(cols) + (new,)


def _apply_op(op, xs):
  if op[0] == 'affine':
    return op_affine(xs, op[1], op[2])
  if op[0] == 'square':
    return op_square(xs)
  raise ValueError(op)


def records(fspec):
  n, rec = fspec['n'], fspec['rec']
  return [{'x': list(range(i * rec, (i + 1) * rec))} for i in range(n)]


# -- generator ------------------------------------------------------------------


def gen_fspec(rng):
  cols = ['x']
  els = []

  def new_assign():
    src = rng.choice(cols)
    out = f'c{len(cols)}'
    op = (['affine', rng.randint(1, 3), rng.randint(0, 5)] if rng.random() < 0.7
          else ['square'])
    cols.append(out)
    return ['assign', out, src, op]

  for _ in range(rng.choice([0, 0, 1, 2])):
    if rng.random() < 0.3:
      els.append(['filter', rng.choice(cols), rng.choice([2, 3, 5])])
    else:
      els.append(new_assign())
  n_aggs = rng.choice([1, 2, 2, 2, 3])
  for a in range(n_aggs):
    els.append(['agg', f'a{a}', rng.choice(cols)])
    if a < n_aggs - 1:
      for _ in range(rng.choice([0, 0, 1, 2])):
        els.append(new_assign())
  if rng.random() < 0.25:
    els.append(new_assign())       # operators behind the last aggregation
  fspec = {'n': rng.choice([1, 2, 3, 5, 8, 12]), 'rec': rng.randint(1, 3),
           'source': rng.choice(['seq', 'seq', 'rr', 'list']), 'els': els, 'fault': None}
  outs = model(fspec)['outs']
  if outs and rng.random() < 0.75:
    key = f'a{rng.randrange(n_aggs)}'
    # a random batch; the first and the last one a little more often
    j = rng.choice([0, len(outs) - 1, rng.randrange(len(outs)), rng.randrange(len(outs))])
    fspec['fault'] = {'agg': key, 'batch': j, 'exc': rng.choice(EXC_NAMES)}
  return fspec


def with_last_apply(rng, fspec, p_fault=0.85):
  """A variant of `fspec` whose LAST operator is a column-adding `apply` (the last
  assign converted, or a new one behind the last operator: in front of, between or
  behind the aggregations), failing outside the skippable call on one random batch
  (or not at all). Returns None when no batch reaches the consumer."""
  els = [list(el) for el in fspec['els']]
  non_agg = [i for i, el in enumerate(els) if el[0] != 'agg']
  last = non_agg[-1] if non_agg else -1
  cols_at = lambda k: ['x'] + [el[1] for el in els[:k] if el[0] in ('assign', 'apply')]
  if last >= 0 and els[last][0] == 'assign' and rng.random() < 0.4:
    pos = last
    _, out, src, op = els[last]
  else:
    pos = rng.randint(last + 1, len(els))
    if pos == len(els) and last + 1 < len(els) and rng.random() < 0.7:
      pos = rng.randint(last + 1, len(els) - 1)    # a stage downstream can exist
    out, src = 'p0', rng.choice(cols_at(pos))
    op = (['affine', rng.randint(1, 3), rng.randint(0, 5)] if rng.random() < 0.7
          else ['square'])
    els.insert(pos, None)
  new = dict(fspec, els=els, fault=None)
  els[pos] = ['apply', out, src, op, cols_at(pos), 0]
  outs = model(new)['outs']
  if not outs:
    return None
  if rng.random() < p_fault:
    mode = rng.choice(OP_FAULT_MODES)
    j = rng.choice([0, len(outs) - 1, rng.randrange(len(outs)), rng.randrange(len(outs))])
    new['fault'] = {'op': out, 'batch': j, 'mode': mode}
  else:
    mode = None
  if mode == 'nonbatch' or (mode != 'nonbatch' and rng.random() < 0.4):
    els[pos][5] = fspec['rec']
  return new


def agg_keys(fspec):
  return [el[1] for el in fspec['els'] if el[0] == 'agg']


def model(fspec):
  """Plain Python: the batches that reach the consumer and the aggregates of the
  COMPLETE dataset (the fault is not part of the model)."""
  outs = []
  for rec in records(fspec):
    cur, kept = dict(rec), True
    for el in fspec['els']:
      if el[0] in ('assign', 'apply'):
        cur[el[1]] = _apply_op(el[3], cur[el[2]])
      elif el[0] == 'filter':
        if not keep(cur[el[1]], el[2]):
          kept = False
          break
    if kept:
      outs.append(cur)
  aggs = {}
  for el in fspec['els']:
    if el[0] == 'agg':
      a = FaultySum()
      st = a.create_state()
      for o in outs:
        st = a.update_state(st, o[el[2]])
      aggs[el[1]] = a.get_result(st)
  return {'outs': outs, 'aggs': aggs}


def bad_value(fspec):
  """The value whose batch the faulty aggregate refuses (None: no fault)."""
  f = fspec.get('fault')
  if not f:
    return None
  if 'op' in f:
    col = next(el[2] for el in fspec['els'] if el[0] == 'apply' and el[1] == f['op'])
  else:
    col = next(el[2] for el in fspec['els'] if el[0] == 'agg' and el[1] == f['agg'])
  return model(fspec)['outs'][f['batch']][col][0]


# -- layouts --------------------------------------------------------------------


def fused_layout(num_threads=0):
  return {'kind': 'fused', 'threads': [num_threads]}


def gen_chained_layout(rng, fspec, p_split=0.5):
  """Random split of [source] + els into >= 2 named stages. Inside one stage the
  aggregations come last (aggregate().add_aggregate()...)."""
  els = fspec['els']
  stages = None
  for attempt in range(8):
    stages, g, in_agg = [0], 0, False
    # p reaches 1.0 (every element its own stage), so >= 2 stages are certain.
    p = 1.0 if attempt == 7 else min(1.0, p_split + 0.15 * attempt)
    for el in els:
      if el[0] == 'agg':
        if rng.random() < p:
          g += 1
        in_agg = True
      else:
        if in_agg or rng.random() < p:
          g += 1
        in_agg = False
      stages.append(g)
    if g >= 1:
      break
  assert stages[-1] >= 1, stages
  return {'kind': 'chained', 'stages': stages, 'threads': [0] * (stages[-1] + 1)}


def with_threads(rng, layout, max_nt=3):
  lay = dict(layout)
  n_st = len(layout['threads'])
  threads = [rng.choice([0, rng.randint(1, max_nt)]) for _ in range(n_st)]
  if not any(threads):
    threads[rng.randrange(n_st)] = rng.randint(1, max_nt)
  lay['threads'] = threads
  return lay


def n_stages(layout):
  return len(layout['threads'])


def fault_stage(fspec, layout):
  """Stage index of the faulty aggregate / operator in this layout (None: no fault)."""
  f = fspec.get('fault')
  if not f:
    return None
  if layout['kind'] == 'fused':
    return 0
  kind, name = ('apply', f['op']) if 'op' in f else ('agg', f['agg'])
  for el, g in zip(fspec['els'], layout['stages'][1:]):
    if el[0] == kind and el[1] == name:
      return g
  raise ValueError('fault names no element of the spec')


def fault_class(fspec, layout):
  """Input class of the case: 'no-fault' | 'fault-in-final-stage' |
  'fault-in-non-final-stage' (the faulty aggregate has a stage downstream) |
  'op-fault-in-final-stage' | 'op-fault-in-non-final-stage' (the operator that fails
  outside the skippable call has a stage downstream)."""
  g = fault_stage(fspec, layout)
  if g is None:
    return 'no-fault'
  pre = 'op-fault' if 'op' in fspec['fault'] else 'fault'
  return pre + ('-in-final-stage' if g == n_stages(layout) - 1 else '-in-non-final-stage')


def layout_class(layout):
  t = 'threaded' if any(layout['threads']) else 'single-threaded'
  return f'{layout["kind"]}-{t}'


# -- building / running ------------------------------------------------------------


def _source(fspec):
  from ml_metrics._src.chainables import io
  recs = records(fspec)
  kind = fspec.get('source', 'seq')
  if kind == 'seq':
    return io.SequenceDataSource(recs)
  if kind == 'rr':
    return io.ShardedIterable(recs)
  return recs


def build(fspec, layout):
  from ml_metrics._src.chainables import transform
  T = transform.TreeTransform
  bad = bad_value(fspec)
  fault = fspec.get('fault') or {}
  els = list(fspec['els'])
  if layout['kind'] == 'fused':
    ordered = [el for el in els if el[0] != 'agg'] + [el for el in els if el[0] == 'agg']
    staged = [(0, ('source',))] + [(0, tuple(el)) for el in ordered]
  else:
    staged = [(layout['stages'][0], ('source',))] + [
        (g, tuple(el)) for el, g in zip(els, layout['stages'][1:])]
  pipeline, cur, cur_g, has_agg = None, None, None, False
  for g, el in staged:
    if g != cur_g:
      if cur is not None:
        pipeline = cur if pipeline is None else pipeline.chain(cur)
      cur, cur_g, has_agg = T.new(name=f's{g}', num_threads=layout['threads'][g]), g, False
    if el[0] == 'source':
      cur = cur.data_source(_source(fspec))
    elif el[0] == 'assign':
      op = el[3]
      fn = (functools.partial(op_affine, a=op[1], b=op[2]) if op[0] == 'affine'
            else op_square)
      cur = cur.assign(el[1], fn=fn, input_keys=el[2])
    elif el[0] == 'apply':
      _, out, src, op, cols, bs = el
      mine = fault.get('op') == out
      fn = functools.partial(op_apply, op=op, src_i=cols.index(src),
                             bad=bad if mine else None, mode=fault.get('mode'))
      cur = cur.apply(fn=fn, input_keys=tuple(cols), output_keys=tuple(cols) + (out,),
                      **({'batch_size': bs} if bs else {}))
    elif el[0] == 'filter':
      cur = cur.filter(functools.partial(keep, m=el[2]), input_keys=el[1])
    elif el[0] == 'agg':
      agg = FaultySum(bad if fault.get('agg') == el[1] else None,
                      fault.get('exc', 'ValueError'))
      if has_agg:
        cur = cur.add_aggregate(fn=agg, input_keys=el[2], output_keys=el[1])
      else:
        cur = cur.aggregate(fn=agg, input_keys=el[2], output_keys=el[1])
      has_agg = True
    else:
      raise ValueError(el)
  return cur if pipeline is None else pipeline.chain(cur)


def canon_batch(b):
  if not isinstance(b, dict):
    return ('non-batch', repr(b))
  return tuple(sorted((str(k), tuple(int(x) for x in v)) for k, v in b.items()))


def norm_agg(res):
  if res is None:
    return None
  return {str(k): [int(x) for x in v] for k, v in dict(res).items()}


def run(fspec, layout, ignore_error):
  """One run. {'cls': 'completed', 'outs', 'agg', 'ret'} or
  {'cls': 'raised', 'exc', 'cause', 'outs' (delivered before the error)}."""
  pipeline = build(fspec, layout)
  it = pipeline.make().iterate(ignore_error=ignore_error)
  outs = []
  try:
    while True:
      try:
        outs.append(canon_batch(next(it)))
      except StopIteration as e:
        ret = getattr(e.value, 'agg_result', None)
        return {'cls': 'completed', 'outs': outs, 'agg': norm_agg(it.agg_result),
                'ret': norm_agg(ret)}
  except Exception as e:  # pylint: disable=broad-exception-caught
    cause = e.__cause__
    return {'cls': 'raised', 'exc': type(e).__name__,
            'cause': type(cause).__name__ if cause is not None else None,
            'msg': str(e)[:160], 'outs': outs}
