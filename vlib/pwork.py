"""Parallel-iteration workloads (piter_multiplex / piter_fn / piter / pmap /
MultiplexIterator) under the deterministic scheduler.  Used by C13."""

from __future__ import annotations

import collections
import itertools

from vlib import qwork
from vlib.sched import core, shims


class InjectedError(Exception):
  pass


def _elem_fn(kind):
  """Element-wise iterator functions (so multisets are order independent)."""
  if kind == 'id':
    return lambda it: (x for x in it)
  if kind == 'inc':
    return lambda it: ((x, 'inc') for x in it)
  if kind == 'dup':
    def dup(it):
      for x in it:
        yield x
        yield (x, 'dup')
    return dup
  if kind == 'filter':
    return lambda it: (x for x in it if x[1] % 2 == 0)
  raise ValueError(kind)


def sequential(case):
  """Reference: plain single-threaded evaluation (no failure injected)."""
  srcs = [[(k, i) for i in range(n)] for k, n in enumerate(case['inputs'])]
  flat = list(itertools.chain.from_iterable(srcs))
  if case['api'] == 'piter_multiplex' or case['fn'] is None:
    return flat
  if case['api'] == 'pmap':
    return [(x, 'm') for x in flat]
  return list(_elem_fn(case['fn'])(iter(flat)))


def run_parallel_case(case, watchdog_s=20.0):
  from ml_metrics._src.utils import iter_utils
  took, _ = qwork.patch_iter_utils()
  sched = core.Scheduler(
      case['sched_seed'], strategy=case.get('strategy', 'random'),
      p_sync=case.get('p_sync', 0.35), p_line=case.get('p_line', 0.08),
      max_steps=case.get('max_steps', 80000))
  first_executor = len(shims.EXECUTORS)
  log = []
  info = {'shims': took}
  fail = case.get('fail')
  stop_after = case.get('stop_after')
  par = case['par']
  buf = case['buf']

  def src(k):
    n = case['inputs'][k]
    for i in range(n):
      if fail and fail['where'] == 'input' and fail['src'] == k and fail['at'] == i:
        log.append(('fail', 'input', k, i))
        raise InjectedError(f'src{k}@{i}')
      # User code can be pre-empted too (matters for the shared-input lock).
      core.ACTIVE.yield_point('user-gen')
      yield (k, i)
    if fail and fail['where'] == 'input' and fail['src'] == k and fail['at'] == n:
      log.append(('fail', 'input', k, n))
      raise InjectedError(f'src{k}@{n}')
    return f'ret{k}'

  def wrap_fn(kind):
    base = _elem_fn(kind)
    if not (fail and fail['where'] == 'fn'):
      return base

    def failing(it):
      def guarded():
        for x in it:
          if x == (fail['src'], fail['at']):
            log.append(('fail', 'fn', x[0], x[1]))
            raise InjectedError(f'fn@{x}')
          yield x
      return base(guarded())
    return failing

  def map_fn(x):
    if fail and fail['where'] == 'fn' and x == (fail['src'], fail['at']):
      log.append(('fail', 'fn', x[0], x[1]))
      raise InjectedError(f'fn@{x}')
    return (x, 'm')

  def main():
    api = case['api']
    pool = None
    if case.get('pool', 'given') == 'given' and api != 'multiplex_iter':
      pool = shims.ThreadPoolExecutor(max_workers=case.get('pool_size', 8),
                                      thread_name_prefix='given')
      info['given_pool'] = pool
    kinds = case.get('src_kinds') or ['gen'] * len(case['inputs'])

    def source(k):
      if kinds[k] == 'gen' or (fail and fail['where'] == 'input' and fail['src'] == k):
        return src(k)
      info.setdefault('sequence_inputs', []).append((k, kinds[k], case['inputs'][k]))
      rows = [(k, i) for i in range(case['inputs'][k])]
      return rows if kinds[k] == 'list' else tuple(rows)

    sources = [source(k) for k in range(len(case['inputs']))]
    obj = None
    if api == 'piter_multiplex':
      obj = iter_utils.piter_multiplex(sources, pool, buffer_size=buf)
    elif api == 'piter_fn':
      obj = iter_utils.piter_fn(
          wrap_fn(case['fn']), input_iterable=sources[0], thread_pool=pool,
          parallism=par, buffer_size=buf)
    elif api == 'piter':
      obj = iter_utils.piter(
          wrap_fn(case['fn']) if case['fn'] else None, input_iterators=sources,
          max_parallism=par, buffer_size=buf, thread_pool=pool)
    elif api == 'pmap':
      obj = iter_utils.pmap(map_fn, sources[0], max_parallism=par,
                            buffer_size=buf, thread_pool=pool)
    elif api == 'multiplex_iter':
      data_sources = [_Reiterable(s) for s in sources]
      obj = iter_utils.MultiplexIterator(
          data_sources=data_sources,
          iter_fn=wrap_fn(case['fn']) if case['fn'] else None,
          parallism=par, name='mx')
    else:
      raise ValueError(api)
    info['obj'] = obj
    is_queue = isinstance(obj, iter_utils.IteratorQueue)
    if is_queue and stop_after is not None:
      it = obj.dequeue_as_iterator(num_steps=stop_after)
    else:
      it = iter(obj)
    n = 0
    try:
      while True:
        if (stop_after is not None and not is_queue and n >= stop_after):
          if hasattr(it, 'maybe_stop'):
            it.maybe_stop()
            log.append(('stopped', n))
          break
        v = next(it)
        n += 1
        log.append(('out', v))
    except StopIteration as e:
      log.append(('end', 'stop', tuple(e.args)))
    except core.SchedAbort:
      raise
    except BaseException as e:  # pylint: disable=broad-exception-caught
      log.append(('end', 'exc', type(e).__name__, str(e)[:80]))
    if is_queue:
      log.append(('returned', tuple(obj.returned)))
    # Release phase: pools owned by the library must already be shut down;
    # pools handed in by the caller are shut down by the caller; implicit pools
    # (created inside piter/pmap and never exposed) only have to be idle.
    for ex in shims.EXECUTORS[first_executor:]:
      owner = 'given' if ex is pool else (
          'library' if api == 'multiplex_iter' else 'implicit')
      log.append(('pool', owner, ex._shutdown, ex.submitted))  # pylint: disable=protected-access
      if not ex._shutdown:  # pylint: disable=protected-access
        ex.shutdown(wait=True)
    log.append(('main_done',))

  sched.spawn(main, name='main')
  sched.run(watchdog_s)
  info['executors'] = shims.EXECUTORS[first_executor:]
  del shims.EXECUTORS[first_executor:]
  return sched, log, info


class _Reiterable:
  """Wraps a one-shot generator as an iterable data source."""

  def __init__(self, gen):
    self._gen = gen

  def __iter__(self):
    return self._gen


def analyse(case, sched, log, info):
  out = []
  if sched.status == 'deadlock':
    return [('deadlock', sched.witness)]
  if sched.status != 'ok':
    return out
  errs = sched.thread_errors()
  if errs:
    out.append(('thread_error', {k: repr(v) for k, v in errs.items()}))
  outs = [e[1] for e in log if e[0] == 'out']
  seq = sequential(case)

  def key(x):
    return repr(x)
  got, want = collections.Counter(map(key, outs)), collections.Counter(map(key, seq))
  ends = [e for e in log if e[0] == 'end']
  fail, stop_after = case.get('fail'), case.get('stop_after')
  fired = any(e[0] == 'fail' for e in log)
  if got - want:
    out.append(('unexpected_or_duplicate_output', sorted((got - want).elements())[:5]))
  if not fail and stop_after is None:
    if want - got:
      out.append(('missing_output', sorted((want - got).elements())[:5]))
    if not ends or ends[0][1] != 'stop':
      out.append(('bad_end', ends[:1]))
    rets = [e[1] for e in log if e[0] == 'returned']
    if rets and case['api'] in ('piter_multiplex', 'piter_fn', 'piter') and (
        case['api'] == 'piter_multiplex' or case['fn'] in (None, 'id_ret')):
      seq_in = {k for k, _, _ in (info or {}).get('sequence_inputs', [])}
      want_r = sorted(f'ret{k}' for k in range(len(case['inputs'])) if k not in seq_in)
      if case['api'] == 'piter_multiplex' and sorted(map(str, rets[0])) != want_r:
        out.append(('returned_values', {'got': list(rets[0]), 'want': want_r}))
  elif fail and stop_after is None:
    if fired:
      if not ends:
        out.append(('no_end_after_failure', None))
      elif ends[0][1] == 'stop':
        out.append(('clean_end_after_failure', ends[0]))
      elif ends[0][2] != 'InjectedError':
        out.append(('wrong_exception', ends[0]))
    else:
      # the failing element was never reached (e.g. filtered): behaves fault-free
      if want - got:
        out.append(('missing_output', sorted((want - got).elements())[:5]))
  elif stop_after is not None:
    if len(outs) > stop_after and not fail:
      out.append(('too_many_after_stop', len(outs)))
    if ends and ends[0][1] == 'exc' and not fired:
      out.append(('exception_on_early_stop', ends[0]))
  if ('main_done',) not in log:
    out.append(('main_not_done', log[-3:]))
  for e in log:
    if e[0] == 'pool' and e[1] == 'library' and not e[2]:
      out.append(('library_pool_not_shut_down', e))
  for ex in info.get('executors', []):
    if not ex.all_workers_finished():
      out.append(('worker_still_alive', ex._thread_name_prefix))  # pylint: disable=protected-access
  return out
