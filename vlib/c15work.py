"""Prefetching-generator protocol workloads (C15).

E2 part: a PrefetchedCourierServer is built on the transport stand-in but never
started; its bound handlers (_init_iterator, _next_batch, _stop_prefetch,
_request_shutdown) are invoked directly from controlled request threads while
the (shimmed) prefetch thread runs under the deterministic scheduler.

Scenario r2.kind == 'shutdown_supervised': the server's own supervising entry
point runs as a controlled thread too - entry 'start' (server.start(), which
runs run_until_shutdown() in a thread of its own) or entry 'direct' (the public
blocking run_until_shutdown() called directly).  After the second requester asked
for the shutdown and the entry point has RETURNED, the state is read: prefetch
thread alive, transport server still started, shutdown callback invoked, and -
if the transport server is still started - one more next-batch request.
"""

from __future__ import annotations

import itertools

from vlib import qwork
from vlib.sched import core, shims

_counter = itertools.count()
_patched = False


class GenError(KeyError):
  """Failure raised by the user generator (a non-ValueError on purpose)."""


_GATES = {}   # gate key -> predicate (evaluated by the scheduler): the gate is open
_HOOKS = {}   # 'get_batch' -> callable(queue): the queue a request dequeues from


def _gate(gate, i):
  """A slow element: the producer parks until the harness predicate holds."""
  if gate is None or gate[1] != i:
    return
  s = core.ACTIVE
  pred = _GATES.get(gate[0])
  if s is not None and s.controlled() and pred is not None:
    s.block(pred, 'user-gen.gate')


def make_gen(tag, n, fail_at, ret, gate=None):
  """Generator factory shipped to the server as a lazy function.

  gate = (key, position): the generator blocks before producing element
  `position` (position == n: before it returns) until _GATES[key]() holds.
  """
  def gen():
    for i in range(n):
      _gate(gate, i)
      if fail_at is not None and fail_at == i:
        raise GenError(f'{tag}@{i}')
      s = core.ACTIVE
      if s is not None:
        s.yield_point('user-gen')
      yield (tag, i)
    _gate(gate, n)
    if fail_at is not None and fail_at == n:
      raise GenError(f'{tag}@{n}')
    return ret
  return gen()


class _NoSignal:
  """Replaces the `signal` module inside courier_server (keeps faulthandler)."""

  SIGINT, SIGTERM, SIGABRT = 2, 15, 6

  @staticmethod
  def signal(*a, **k):
    return None


def patch_server_modules():
  global _patched
  from ml_metrics._src.chainables import courier_server
  took, _ = qwork.patch_iter_utils()
  took2 = shims.install(courier_server, names=('threading',))
  if not _patched:
    courier_server.signal = _NoSignal
    # Finalisers must not run library code inside whichever controlled thread
    # happens to trigger the garbage collector.
    courier_server.CourierServer.__del__ = lambda self: None
    core.install_line_yield([
        courier_server.PrefetchedCourierServer._init_iterator,  # pylint: disable=protected-access
        courier_server.PrefetchedCourierServer._next_batch,  # pylint: disable=protected-access
        courier_server.PrefetchedCourierServer._stop_prefetch,  # pylint: disable=protected-access
    ])
    # Observation only: which queue object a next-batch request dequeues from.
    from ml_metrics._src.utils import iter_utils
    orig_get_batch = iter_utils.IteratorQueue.get_batch

    def get_batch(self, *args, **kwargs):
      hook = _HOOKS.get('get_batch')
      if hook is not None:
        hook(self)
      return orig_get_batch(self, *args, **kwargs)

    iter_utils.IteratorQueue.get_batch = get_batch
    _patched = True
  return took, took2


def run_prefetch_case(case, watchdog_s=20.0):
  """case: prefetch, batch, gens=[{n, fail_at}], script for R1 and optional R2."""
  from ml_metrics._src.chainables import courier_server, lazy_fns
  took, took2 = patch_server_modules()
  sched = core.Scheduler(
      case['sched_seed'], strategy=case.get('strategy', 'random'),
      p_sync=case.get('p_sync', 0.35), p_line=case.get('p_line', 0.08),
      max_steps=case.get('max_steps', 80000))
  name = f'c15_{next(_counter)}'
  server = courier_server.PrefetchedCourierServer(
      name, prefetch_size=case['prefetch'])
  log = []
  info = {'shims': took, 'server_shims': took2, 'server': server}
  gens = case['gens']
  batch = case['batch']
  state = {'r1_batches': 0, 'r1_done': False, 'r1_requests': 0, 'r2_init_issued': False,
           'g0_queue': None, 'in_flight_at_reinit': 0}
  r2_kind = (case.get('r2') or {}).get('kind')
  gate_key = None
  if r2_kind == 'init_while_blocked':
    # g0 has one slow element: it parks its producer until the other client's
    # initialisation was issued ('issue') or has reached g0's stop ('stopped').
    gate_key = name

    def gate_open():
      if state['r1_done']:
        return True
      if case['r2'].get('gate', 'issue') == 'issue':
        return state['r2_init_issued']
      q = state['g0_queue']
      return state['r2_init_issued'] and q is not None and (
          getattr(q, '_stop_requested', False) or q.exception is not None or q.exhausted)

    _GATES[gate_key] = gate_open
  supervised = r2_kind == 'shutdown_supervised'
  if supervised:
    # Observation only: is the shutdown callback (= _stop_prefetch) ever invoked?
    state['callback_calls'] = 0
    orig_callback = server._shutdown_callback  # pylint: disable=protected-access

    def counted_callback(*a, **k):
      state['callback_calls'] += 1
      return orig_callback(*a, **k)

    server._shutdown_callback = counted_callback  # pylint: disable=protected-access
  used = {}   # requester -> queue its current request dequeues from

  def transport_up():
    srv = server._server  # pylint: disable=protected-access
    return srv is not None and srv.has_started

  def on_get_batch(q):
    st = core.ACTIVE.me() if core.ACTIVE is not None else None
    if st is not None and st.name in ('R1', 'R2'):
      used[st.name] = q

  _HOOKS['get_batch'] = on_get_batch

  def lazy_gen(gi):
    g = gens[gi]
    gate = (gate_key, g['gate_at']) if gate_key and g.get('gate_at') is not None else None
    return lazy_fns.trace(make_gen)(f'g{gi}', g['n'], g.get('fail_at'), f'ret{gi}', gate)

  def do_init(who, gi):
    r = server._init_iterator(lazy_gen(gi))  # pylint: disable=protected-access
    log.append(('init', who, gi, None if r is None else type(r).__name__))
    return r

  def request(who):
    """One next-batch request; returns (items, marker)."""
    used[who] = None
    if who == 'R1':
      state['r1_requests'] += 1
      state['r1_in_request'] = True
    # (a request can only reach the handler while the transport server is started)
    issued_after_shutdown_returned = bool(state.get('sup_returned')) and transport_up()
    raw = server._next_batch(batch)  # pylint: disable=protected-access
    # No yield point between the handler's return and these observations.
    q = used.get(who)
    if who == 'R1':
      state['r1_in_request'] = False
    out = lazy_fns.pickler.loads(raw)
    items = []
    marker = None
    meta = {'replaced': bool(q is not None and server._generator is not q)}  # pylint: disable=protected-access
    if issued_after_shutdown_returned:
      meta['issued_after_shutdown_returned'] = True
    for x in out:
      if isinstance(x, StopIteration):
        items.append(('END', x.value))
        marker = 'end'
        if q is not None:
          # the end marker must be the one of the queue this request dequeued from
          # (a stop request may legitimately arrive after the queue was drained,
          # so only the carried return value is compared)
          meta['end_ok'] = bool(list(q.returned)[:1] == [x.value])
      elif isinstance(x, BaseException):
        items.append(('EXC', type(x).__name__, str(x)[:60]))
        marker = 'exc'
      else:
        items.append(tuple(x))
    log.append(('batch', who, items, meta))
    if who == 'R1':
      state['r1_batches'] += 1
    return items, marker

  def read_until_marker(who, max_requests=60):
    """Mimics the client loop: request batches until a terminal marker."""
    for _ in range(max_requests):
      _, marker = request(who)
      if marker:
        return marker
    log.append(('no_marker', who))
    return None

  def supervisor():
    # The server's own entry point; returns once the shutdown was carried out.
    try:
      if case['r2']['entry'] == 'direct':
        server.run_until_shutdown()
      else:
        server.start().join()
    finally:
      state['sup_returned'] = True
      log.append(('supervisor_returned', case['r2']['entry']))

  def r1():
    try:
      if supervised:
        # a client can only talk to a server whose transport is up
        core.ACTIVE.block(lambda: transport_up() or state.get('sup_returned'), 'r1.wait-server')
      do_init('R1', 0)
      state['g0_queue'] = server._generator  # pylint: disable=protected-access
      marker = None
      reinit_at = case.get('reinit_at')
      if reinit_at is not None:
        # read `reinit_at` batches of g0, then initialise g1 from the same client
        for _ in range(reinit_at):
          _, m = request('R1')
          if m:
            break
        do_init('R1', 1)
        log.append(('reinit_done', 'R1'))
      marker = read_until_marker('R1')
      log.append(('r1_end', marker))
    finally:
      state['r1_done'] = True

  def r2():
    try:
      _r2()
    finally:
      state['r2_done'] = True

  def _r2():
    act = case['r2']
    s = core.ACTIVE
    if act['kind'] == 'init_while_blocked':
      # Wait until R1 has issued its (after+1)-th request, then initialise g1.
      s.block(lambda: state['r1_requests'] >= act['after'] + 1 or state['r1_done'],
              'r2.wait-request')
    else:
      s.block(lambda: state['r1_batches'] >= act['after'] or state['r1_done'],
              'r2.wait')
    log.append(('r2_act', act['kind']))
    if act['kind'] == 'init_while_blocked':
      state['r2_init_issued'] = True
      if state.get('r1_in_request'):
        state['in_flight_at_reinit'] += 1
      do_init('R2', 1)
      marker = read_until_marker('R2')
      log.append(('r2_end', marker))
    elif act['kind'] == 'init':
      do_init('R2', 1)
      marker = read_until_marker('R2')
      log.append(('r2_end', marker))
    elif act['kind'] == 'stop_prefetch':
      server._stop_prefetch()  # pylint: disable=protected-access
      log.append(('r2_done',))
    elif act['kind'] == 'shutdown_supervised':
      previous = server._generator  # "the previous one"  # pylint: disable=protected-access
      info['unfinished_at_shutdown_request'] = bool(
          previous is not None and not previous.exhausted)
      server._request_shutdown()  # pylint: disable=protected-access
      s.block(lambda: state.get('sup_returned'), 'r2.wait-shutdown-returned')
      # -- the entry point has returned: read the state it left behind ---------
      th, gen = server._enqueue_thread, server._generator  # pylint: disable=protected-access
      after = {'entry': act['entry'],
               'prefetch_thread_alive': bool(th is not None and th.is_alive()),
               'generator_exhausted': None if gen is None else bool(gen.exhausted),
               'generator_stopped': None if gen is None else bool(
                   getattr(gen, '_stop_requested', False) or gen.exception is not None),
               'transport_still_started': bool(transport_up()),
               'shutdown_callback_calls': state['callback_calls'],
               # False: an initialisation that was in flight when the shutdown was
               # requested installed this generator afterwards (observed, not judged)
               'generator_installed_before_the_shutdown_request': bool(
                   gen is not None and gen is previous)}
      log.append(('after_shutdown', after))
      if (gen is not None and gen is not previous and after['prefetch_thread_alive']
          and not after['generator_stopped'] and after['generator_exhausted'] is False):
        info.setdefault('observations', []).append(
            'init_in_flight_at_shutdown_installed_a_generator_that_keeps_running')
      if after['transport_still_started']:
        # the transport would still route this request to the handler
        request('R2')
      r = server._init_iterator(lazy_gen(1))  # pylint: disable=protected-access
      log.append(('init_after_shutdown', None if r is None else type(r).__name__))
      log.append(('r2_done',))
    elif act['kind'] == 'shutdown':
      server._request_shutdown()  # pylint: disable=protected-access
      # _shutdown_server() runs the shutdown callback (= _stop_prefetch)
      server._stop_prefetch()  # pylint: disable=protected-access
      log.append(('r2_done',))
      r = server._init_iterator(lazy_gen(1))  # pylint: disable=protected-access
      log.append(('init_after_shutdown', None if r is None else type(r).__name__))

  def finaliser():
    # A generator nobody drains keeps its prefetch thread parked on the full
    # buffer; that is not a blocked *request*.  Release it once every requester
    # is done, so that whatever still hangs afterwards is a genuine hang.
    s = core.ACTIVE
    s.block(lambda: state['r1_done'] and state.get('r2_done', True), 'finaliser.wait')
    server._stop_prefetch()  # pylint: disable=protected-access
    log.append(('finalised',))

  if supervised:
    sched.spawn(supervisor, name='S')
  sched.spawn(r1, name='R1')
  if case.get('r2'):
    state['r2_done'] = False
    sched.spawn(r2, name='R2')
  sched.spawn(finaliser, name='F')
  try:
    sched.run(watchdog_s)
  finally:
    _HOOKS.pop('get_batch', None)
    if gate_key is not None:
      _GATES.pop(gate_key, None)
    if supervised and server._server is not None:  # pylint: disable=protected-access
      try:
        server._server.Stop()  # pylint: disable=protected-access
      except Exception:  # pylint: disable=broad-exception-caught
        pass
  info['in_flight_at_reinit'] = state['in_flight_at_reinit']
  return sched, log, info


def analyse(case, sched, log, info):
  out = []
  if sched.status == 'deadlock':
    return [('deadlock', sched.witness)]
  if sched.status != 'ok':
    return out
  errs = {k: v for k, v in sched.thread_errors().items()
          if not isinstance(v, GenError)}  # the prefetch thread re-raises the user error
  if errs:
    out.append(('thread_error', {k: repr(v) for k, v in errs.items()}))
  gens = case['gens']
  batch = case['batch']
  for who in ('R1', 'R2'):
    batches = [e[2] for e in log if e[0] == 'batch' and e[1] == who]
    if not batches:
      continue
    flat = [x for b in batches for x in b]
    # no batch mixes two generators; no element of an older generator after a newer one
    seen_tags = []
    for b in batches:
      tags = {x[0] for x in b if x[0] not in ('END', 'EXC')}
      if len(tags) > 1:
        out.append(('mixed_batch', {'who': who, 'batch': b}))
      for t in tags:
        if t in seen_tags and seen_tags[-1] != t:
          out.append(('old_generator_after_new', {'who': who, 'batch': b}))
        if t not in seen_tags:
          seen_tags.append(t)
    # per generator: elements in order, no duplicates, contiguous from 0
    per = {}
    for x in flat:
      if x[0] in ('END', 'EXC'):
        continue
      per.setdefault(x[0], []).append(x[1])
    for t, idxs in per.items():
      if any(b <= a for a, b in zip(idxs, idxs[1:])):
        out.append(('order_or_duplicate', {'who': who, 'gen': t, 'got': idxs}))
    # terminal markers: at most one per generator segment, and nothing after it
    segments, cur = [], []
    for e in log:
      if e[0] == 'reinit_done' and e[1] == who:
        segments.append(cur)
        cur = []
      elif e[0] == 'batch' and e[1] == who:
        cur.extend(e[2])
    segments.append(cur)
    for seg in segments:
      markers = [x for x in seg if x[0] in ('END', 'EXC')]
      if len([m for m in markers if m[0] == 'END']) > 1:
        out.append(('two_end_markers', {'who': who, 'markers': markers}))
    if flat and any(x[0] in ('END', 'EXC') for x in flat) and flat[-1][0] not in ('END', 'EXC'):
      out.append(('marker_not_last', {'who': who, 'tail': flat[-3:]}))
  # a response without terminal marker carries exactly one full batch, and an end
  # marker is the one of the queue the request dequeued from
  batch_events = [e for e in log if e[0] == 'batch']
  for i, e in enumerate(batch_events):
    items, meta = e[2], (e[3] if len(e) > 3 else {})
    has_marker = any(x[0] in ('END', 'EXC') for x in items)
    later = [x[0] for f in batch_events[i + 1:] if f[1] == e[1] for x in f[2]
             if x[0] not in ('END', 'EXC')]
    if not has_marker and len(items) != batch:
      out.append(('short_batch_without_marker',
                  {'who': e[1], 'batch': items, 'replaced': meta.get('replaced'),
                   'generators_received_afterwards': sorted(set(later))}))
    if meta.get('end_ok') is False:
      out.append(('end_marker_of_other_generator',
                  {'who': e[1], 'batch': items, 'replaced': meta.get('replaced')}))
  # exactly once across both readers
  allelems = [x for e in log if e[0] == 'batch' for x in e[2]
              if x[0] not in ('END', 'EXC')]
  if len(set(allelems)) != len(allelems):
    out.append(('duplicate_across_readers',
                sorted({x for x in allelems if allelems.count(x) > 1})[:5]))
  ends = [e for e in log if e[0] in ('r1_end', 'r2_end')]
  if any(e[1] is None for e in ends) or any(e[0] == 'no_marker' for e in log):
    out.append(('no_terminal_marker', ends))
  if not any(e[0] == 'r1_end' for e in log):
    out.append(('r1_not_finished', log[-3:]))
  # -- the undisturbed single-generator protocol ------------------------------
  undisturbed = not case.get('r2') and case.get('reinit_at') is None
  if undisturbed or case.get('reinit_at') is not None:
    gi = 1 if case.get('reinit_at') is not None else 0
    g = gens[gi]
    start = None
    if gi == 1:
      # only the batches after the re-initialisation returned
      idx = [i for i, e in enumerate(log) if e[0] == 'reinit_done']
      start = idx[0] if idx else None
    evs = log if start is None else log[start:]
    batches = [e[2] for e in evs if e[0] == 'batch' and e[1] == 'R1']
    flat = [x for b in batches for x in b]
    elems = [x for x in flat if x[0] not in ('END', 'EXC')]
    markers = [x for x in flat if x[0] in ('END', 'EXC')]
    fail_at = g.get('fail_at')
    n_ok = g['n'] if fail_at is None else fail_at
    want = [(f'g{gi}', i) for i in range(n_ok)]
    if elems != want:
      kind = 'elements_lost_before_failure' if fail_at is not None else 'elements_differ'
      out.append((kind, {'got': elems, 'want': want, 'batches': batches}))
    if fail_at is None:
      if markers != [('END', f'ret{gi}')]:
        out.append(('end_marker', {'markers': markers, 'want': f'ret{gi}'}))
    else:
      if len(markers) != 1 or markers[0][0] != 'EXC' or markers[0][1] != 'GenError':
        out.append(('failure_marker', {'markers': markers}))
  if case.get('r2') and case['r2']['kind'] == 'shutdown_supervised':
    # "shutting down stops the previous one": judged from the state the entry point
    # left behind when it returned, and from requests issued after it returned.
    after = next((e[1] for e in log if e[0] == 'after_shutdown'), None)
    if after is None:
      out.append(('shutdown_did_not_return', log[-3:]))
    else:
      # (a thread that merely has not been scheduled to end after its generator was
      # consumed or stopped is not "running the generator")
      if (after['prefetch_thread_alive'] and after['generator_exhausted'] is False
          and not after['generator_stopped']
          and after['generator_installed_before_the_shutdown_request']):
        out.append(('prefetch_running_after_shutdown_returned', dict(after)))
      served = [{'who': e[1], 'batch': e[2]} for e in batch_events
                if (e[3] if len(e) > 3 else {}).get('issued_after_shutdown_returned')
                and any(x[0] not in ('END', 'EXC') for x in e[2])]
      if served:
        out.append(('elements_served_after_shutdown_returned',
                    dict(after, requests_issued_after_the_return=served[:3])))
  if case.get('r2') and case['r2']['kind'] in ('shutdown', 'shutdown_supervised'):
    e = [x for x in log if x[0] == 'init_after_shutdown']
    if e and e[0][1] != 'TimeoutError':
      out.append(('init_after_shutdown_not_refused', e[0]))
  return out
