"""Imports a seeded change from its scratch worktree into /verif/seeded/<id>/ and verifies it.

usage: tools_seed_import.py <ID> "<what it needs to manifest>" [round]
Checks: patch applies to /repo HEAD (on a scratch copy), demo passes without / fails with the
change, and the touched modules' tests (and optionally the full suite, FULL=1) pass with it.
"""
import json, os, shutil, subprocess, sys, tempfile

def run(cmd, **kw):
  return subprocess.run(cmd, capture_output=True, text=True, **kw)

def main():
  pid, needs = sys.argv[1], sys.argv[2]
  rnd = sys.argv[3] if len(sys.argv) > 3 else ''      # '' first round, '2' second round ...
  wt = f'/tmp/seed{rnd}-{pid}'
  out = f'/verif/seeded/{pid}' + ({'': '', '2': 'b', '3': 'c', '4': 'd'}[rnd])
  os.makedirs(out, exist_ok=True)
  diff = run(['git', '-C', wt, 'diff', '--', 'ml_metrics']).stdout
  open(f'{out}/patch.diff', 'w').write(diff)
  shutil.copy(f'{wt}/seed_demo.py', f'{out}/seed_demo.py')
  if os.path.isdir(f'{wt}/seed_stub'):
    shutil.rmtree(f'{out}/seed_stub', ignore_errors=True)
    shutil.copytree(f'{wt}/seed_stub', f'{out}/seed_stub')
  # scratch copy of current /repo HEAD
  d = tempfile.mkdtemp(prefix=f'seedchk-{pid}-')
  try:
    run(['git', '-C', '/repo', 'worktree', 'add', '-q', '--detach', d + '/w', 'HEAD'])
    w = d + '/w'
    shutil.copy(f'{out}/seed_demo.py', w)
    if os.path.isdir(f'{out}/seed_stub'):
      shutil.copytree(f'{out}/seed_stub', w + '/seed_stub')
    env = dict(os.environ, PYTHONPATH=w)
    r0 = run(['/venv/bin/python', 'seed_demo.py'], cwd=w, env=env, timeout=600)
    ap = run(['git', '-C', w, 'apply', f'{out}/patch.diff'])
    r1 = run(['/venv/bin/python', 'seed_demo.py'], cwd=w, env=env, timeout=600)
    files = sorted({l[6:].strip() for l in diff.splitlines() if l.startswith('+++ b/')})
    tests = [f.replace('.py', '_test.py') for f in files if os.path.exists(os.path.join(w, f.replace('.py', '_test.py')))]
    if os.environ.get('FULL'):
      t = run(['/venv/bin/python', '-m', 'pytest', '-q', '-p', 'no:cacheprovider', '--timeout=900', '--continue-on-collection-errors'], cwd=w, env=env, timeout=3000)
    else:
      t = run(['/venv/bin/python', '-m', 'pytest', '-q', '-p', 'no:cacheprovider', '--timeout=900', '--continue-on-collection-errors'] + tests, cwd=w, env=env, timeout=3000)
    tail = (t.stdout.strip().splitlines() or ['?'])[-1]
    meta = {
        'property': pid,
        'files': files,
        'needs_to_manifest': needs,
        'patch_applies_to_repo_head': ap.returncode == 0,
        'demo_without_change_exit': r0.returncode,
        'demo_with_change_exit': r1.returncode,
        'tests_with_change': ('full suite: ' if os.environ.get('FULL') else 'touched modules: ') + tail,
        'verified_by': 'tools_seed_import.py on a scratch worktree of /repo HEAD ' + run(['git', '-C', '/repo', 'log', '--format=%h', '-1']).stdout.strip(),
    }
    old = {}
    if os.path.exists(f'{out}/meta.json'):
      old = json.load(open(f'{out}/meta.json'))
    old.update(meta)
    json.dump(old, open(f'{out}/meta.json', 'w'), indent=1)
    print(json.dumps(meta, indent=1))
  finally:
    run(['git', '-C', '/repo', 'worktree', 'remove', '--force', d + '/w'])
    shutil.rmtree(d, ignore_errors=True)

if __name__ == '__main__':
  main()
