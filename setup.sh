#!/bin/sh
# Offline setup: optional contract libraries next to the checks (ignored dir).
HERE="$(cd "$(dirname "$0")" && pwd)"
cd "$HERE" || exit 1
if [ ! -d .deps/icontract ]; then
  /venv/bin/pip install --quiet --no-index --find-links /opt/veriftools/wheels \
    --target .deps icontract >/dev/null 2>&1 || echo "icontract not installed (optional)"
fi
/venv/bin/python -c "import sys; sys.path.insert(0, '/repo'); import ml_metrics" || exit 1
exit 0
