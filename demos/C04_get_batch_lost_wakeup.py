"""Real-thread demonstration of the get_batch(block=True) lost wake-up (fixed by 623e3b2).

usage: /venv/bin/python demos/C04_get_batch_lost_wakeup.py <path to an ml-metrics tree>
On a tree without the fix prints `consumer hung: True received: [[0, 1]]`.
"""
import sys, threading, time
sys.path.insert(0, sys.argv[1] if len(sys.argv) > 1 else '/repo')
from absl import logging as al; al.set_verbosity(al.FATAL)
from ml_metrics._src.utils import iter_utils
def slow(lock, notify, notify_all=False):
    lock.release()
    try:
        with notify:
            notify.notify_all() if notify_all else notify.notify()
        if threading.current_thread().name == 'consumer':
            time.sleep(0.3)   # widen the window: the dequeue lock is released here
    finally:
        lock.acquire()
iter_utils._release_and_notify = slow
def gen():
    yield 0; yield 1; yield 2
    time.sleep(0.1)           # the generator finishes while the consumer is in the window
q = iter_utils.IteratorQueue(2, name='q')
out = []
def consumer():
    try:
        while True:
            out.append(q.get_batch(2, block=True))
    except StopIteration as e:
        out.append(('stop', e.args))
t = threading.Thread(target=consumer, name='consumer', daemon=True); t.start()
threading.Thread(target=q.enqueue_from_iterator, args=(gen(),), daemon=True).start()
t.join(3)
print('consumer hung:', t.is_alive(), 'received:', out)
