"""Deterministic demonstration of the C06 known finding
`zombie-next-batch-steals-from-reinitialised-generator`.

A next-batch request whose deadline expired on the client is still executed by
the worker later.  If the (retried) task has meanwhile re-initialised the
generator on the same worker, the late handler dequeues a batch of the NEW
generator and its reply goes nowhere: that output batch is never delivered.

usage: PYTHONPATH=/verif:/verif/vlib/fakecourier:/repo /venv/bin/python demos/C06_zombie_next_batch.py
"""
import sys, time, threading
sys.path[:0] = ['/verif', '/verif/vlib/fakecourier']
from absl import logging as al; al.set_verbosity(al.FATAL)
import logging; logging.disable(logging.CRITICAL)
import courier
from vlib import cwork
cwork.setup(scale=1.0)
from ml_metrics._src.chainables import lazy_fns

def gen(tag, n):
  for i in range(n):
    yield (tag, i)

srv = cwork.start_servers(1, 'zombie')[0]
fast = courier.Client(srv.address, call_timeout=5)
slow = courier.Client(srv.address, call_timeout=0.2)          # short deadline
assert fast.init_generator(lazy_fns.pickler.dumps(lazy_fns.trace(gen)('old', 4))) is None
# the first next-batch request is delayed on the server beyond the client's deadline
courier.sim.fault_plan = lambda addr, method, idx: (
    {'kind': 'ok', 'delay': 0.6} if method == 'next_batch_from_generator' and idx == 0 else None)
with courier.sim.lock: courier.sim.call_counts = {}
try:
  slow.next_batch_from_generator(1)
except Exception as e:
  print('client saw:', type(e).__name__, 'code', getattr(e, 'code', None))
# the task is retried: the generator is re-initialised on the same worker
assert fast.init_generator(lazy_fns.pickler.dumps(lazy_fns.trace(gen)('new', 4))) is None
time.sleep(0.8)                                               # the zombie handler runs now
got = []
while True:
  batch = lazy_fns.pickler.loads(fast.next_batch_from_generator(1))
  got.extend(x for x in batch if not isinstance(x, Exception))
  if any(isinstance(x, Exception) for x in batch):
    break
print('delivered of the new generator:', got)
print('LOST:', [('new', i) for i in range(4) if ('new', i) not in got])
cwork.stop_servers([srv])
