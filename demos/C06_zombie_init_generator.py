"""Deterministic demonstration of the C06 known finding
`zombie-init-generator-replaces-running-generator`.

An init_generator request whose deadline expired on the client is still executed
by the worker later.  The driver has meanwhile given the worker another shard
(init_generator of the new shard succeeded and its batches are being fetched):
the late handler replaces the running generator, so the remaining batches of
the new shard are never delivered and the batches (and the final aggregate) of
the old shard - which the driver re-runs elsewhere - are delivered twice.

usage: PYTHONPATH=/verif:/verif/vlib/fakecourier:/repo /venv/bin/python demos/C06_zombie_init_generator.py
"""
import sys, time
sys.path[:0] = ['/verif', '/verif/vlib/fakecourier']
from absl import logging as al; al.set_verbosity(al.FATAL)
import logging; logging.disable(logging.CRITICAL)
import courier
from vlib import cwork
cwork.setup(scale=1.0)
from ml_metrics._src.chainables import lazy_fns


def gen(tag, n):
  for i in range(n):
    yield (tag, i)


srv = cwork.start_servers(1, 'zombie-init')[0]
fast = courier.Client(srv.address, call_timeout=5)
slow = courier.Client(srv.address, call_timeout=0.2)          # short deadline
# the first init_generator request is delayed on the server beyond the client's deadline
courier.sim.fault_plan = lambda addr, method, idx: (
    {'kind': 'ok', 'delay': 0.6} if method == 'init_generator' and idx == 0 else None)
with courier.sim.lock: courier.sim.call_counts = {}
try:
  slow.init_generator(lazy_fns.pickler.dumps(lazy_fns.trace(gen)('old-shard', 4)))
except Exception as e:
  print('client saw:', type(e).__name__, 'code', getattr(e, 'code', None))
# the driver re-queues the old shard and hands this worker the next shard
assert fast.init_generator(lazy_fns.pickler.dumps(lazy_fns.trace(gen)('new-shard', 4))) is None
got = list(x for x in lazy_fns.pickler.loads(fast.next_batch_from_generator(1)))
time.sleep(0.8)                                               # the zombie handler runs now
while True:
  batch = lazy_fns.pickler.loads(fast.next_batch_from_generator(1))
  got.extend(x for x in batch if not isinstance(x, Exception))
  if any(isinstance(x, Exception) for x in batch):
    break
print('delivered to the consumer of the new shard:', got)
print('LOST of the new shard:', [('new-shard', i) for i in range(4) if ('new-shard', i) not in got])
print('FOREIGN (old shard, re-run elsewhere as well):', [x for x in got if x[0] == 'old-shard'])
cwork.stop_servers([srv])
