"""hunt_1: C17 (and C14) - a cached LazyFn is re-evaluated after every
serialisation round trip when its function (or an argument) hashes by identity.

Property text violated: "a cached call evaluates once and afterwards returns the
identical object until the cache is cleared or [evicted]", "... also after a
serialisation round trip" (C17) and "remote evaluation returns the same value
as evaluating it locally" (C14).

Cause: LazyFn.__eq__ (lazy_fns.py:461-469) treats two LazyFns with the same
`id` as equal, but LazyFn.__hash__ (lazy_fns.py:455-459) hashes
(value, args, kwargs) and only falls back to the id when that raises TypeError.
A function that cloudpickle ships by value (anything defined in __main__, a
lambda, a closure, a local function, a functools.partial of those) or an
argument object with the default identity hash becomes a *new* object on every
unpickle, so two unpickled copies of the very same LazyFn are `==` but have
different hashes. The LRU cache in _maybe_lru_cache therefore misses on every
call: `trace(load_model)(cache_result_=True)` sent to a server re-runs
load_model() on each request, stateful cached objects lose their state, and the
cache fills up with dead entries.
"""
import os
import sys

sys.path.insert(0, os.path.dirname(os.path.abspath(__file__)))
from absl import logging as alog

alog.set_verbosity(alog.FATAL)
import hunt_stub  # pylint: disable=unused-import  (stub `courier` package)
from ml_metrics._src.chainables import courier_server
from ml_metrics._src.chainables import lazy_fns
from ml_metrics._src.utils import courier_utils

trace, maybe_make, pickler = lazy_fns.trace, lazy_fns.maybe_make, lazy_fns.pickler


class Model:

  def __init__(self):
    self.n = 0

  def bump(self):
    self.n += 1
    return self.n


def load_model():  # defined in __main__ => cloudpickle pickles it by value.
  return Model()


def round_trip(x):
  return pickler.loads(pickler.dumps(x))


def main():
  bad = False
  lazy_model = trace(load_model)(cache_result_=True)

  # Reference behaviour: no serialisation.
  lazy_fns.clear_cache()
  eager_like = [maybe_make(lazy_model.bump()) for _ in range(3)]
  print('no round trip      : bump x3 ->', eager_like, lazy_fns.cache_info())

  # 1. Local, through the library pickler.
  lazy_fns.clear_cache()
  a, b = round_trip(lazy_model), round_trip(lazy_model)
  print(f'two unpickled copies: a == b: {a == b}, same id: {a.id == b.id},'
        f' hash(a) == hash(b): {hash(a) == hash(b)}')
  same_obj = maybe_make(a) is maybe_make(b)
  print('maybe_make(a) is maybe_make(b):', same_obj)
  lazy_fns.clear_cache()
  after_rt = [maybe_make(round_trip(lazy_model.bump())) for _ in range(3)]
  info = lazy_fns.cache_info()
  print('after round trip   : bump x3 ->', after_rt, info)
  if after_rt != eager_like or not same_obj or info.misses != 1:
    bad = True

  # 2. Remote, through CourierServer / CourierClient.
  server = courier_server.CourierServer('hunt1')
  server.start()
  client = courier_utils.CourierClient('hunt1', call_timeout=10)
  lazy_fns.clear_cache()
  remote = [client.get_result(lazy_model.bump()) for _ in range(3)]
  info = lazy_fns.cache_info()
  print('remote get_result  : bump x3 ->', remote, info)
  if remote != eager_like or info.misses != 1:
    bad = True

  # 3. Same thing with an importable function but an identity-hashed argument.
  class Cfg:  # no __eq__/__hash__: default identity hash
    pass

  lazy_fns.clear_cache()
  lazy_list = trace(list)(cache_result_=True)  # importable fn: control
  control = [client.get_result(lazy_list.append(1)) for _ in range(2)]
  control_len = client.get_result(trace(len)(lazy_list))
  print('control (importable fn, no args): len after 2 appends ->', control_len)
  cfg = Cfg()
  lazy_dict = trace(dict)(cfg=cfg, cache_result_=True)
  for i in range(2):
    client.get_result(lazy_dict.update({i: i}))
  got = client.get_result(trace(len)(lazy_dict))
  print('identity-hashed kwarg: len after 2 updates -> ', got, '(expected 3)')
  if control_len != 2 or got != 3:
    bad = True

  print('DEFECT PRESENT' if bad else 'ok')
  return 1 if bad else 0


if __name__ == '__main__':
  code = main()
  sys.stdout.flush()
  os._exit(code)
