"""Minimal in-process stand-in for DeepMind's `courier` (hunt stub).

Semantics modelled after courier/gRPC:
  * Server(name, port).Bind/Start/Stop/has_started/address
  * Client(address, call_timeout).<method>(...) blocking,
    Client(...).futures.<method>(...) -> concurrent.futures.Future
  * a handler raising -> client sees StatusNotOk(code=2, message=traceback str)
  * deadline exceeded -> StatusNotOk(code=4); the server handler KEEPS RUNNING.
  * calling an address with no started server waits (until the deadline).
"""
from concurrent import futures
import itertools
import threading
import time
import traceback

_REGISTRY = {}
_REG_LOCK = threading.Lock()
_PORTS = itertools.count(20000)
_POOL = futures.ThreadPoolExecutor(max_workers=64, thread_name_prefix='stub_handler')
_WATCH = futures.ThreadPoolExecutor(max_workers=64, thread_name_prefix='stub_call')


class StatusNotOk(Exception):

  def __init__(self, code, message):
    super().__init__(message)
    self.code = code
    self.message = message


class Server:

  def __init__(self, name=None, port=None, **_):
    self._name = name
    self._port = port or next(_PORTS)
    self._handlers = {}
    self._started = False

  @property
  def address(self):
    return f'localhost:{self._port}'

  @property
  def has_started(self):
    return self._started

  def Bind(self, name, fn):
    self._handlers[name] = fn

  def Start(self):
    with _REG_LOCK:
      _REGISTRY[self.address] = self
      if self._name:
        _REGISTRY[self._name] = self
    self._started = True

  def Stop(self):
    self._started = False
    with _REG_LOCK:
      for k in [k for k, v in _REGISTRY.items() if v is self]:
        del _REGISTRY[k]

  def Join(self):
    pass


def _lookup(address):
  with _REG_LOCK:
    s = _REGISTRY.get(address)
  return s if s is not None and s._started else None


class _Futures:

  def __init__(self, client):
    self._client = client

  def __getattr__(self, method):
    if method.startswith('__'):
      raise AttributeError(method)

    def call(*args, **kwargs):
      return self._client._call(method, args, kwargs)

    return call


class Client:

  def __init__(self, address, call_timeout=None, **_):
    self.address = address
    self._timeout = call_timeout or None
    self.futures = _Futures(self)

  def _call(self, method, args, kwargs):
    out = futures.Future()
    out.set_running_or_notify_cancel()
    deadline = None if not self._timeout else time.time() + self._timeout

    def settle(fn, value):
      try:
        fn(value)
      except futures.InvalidStateError:
        pass

    def run():
      # Wait for the server to exist.
      while (server := _lookup(self.address)) is None:
        if out.done():
          return
        if deadline is not None and time.time() > deadline:
          settle(out.set_exception, StatusNotOk(4, 'Deadline Exceeded'))
          return
        time.sleep(0.005)
      handler = server._handlers.get(method)
      if handler is None:
        settle(out.set_exception, StatusNotOk(5, f'method {method} not found'))
        return

      def handle():
        try:
          settle(out.set_result, handler(*args, **kwargs))
        except BaseException as e:  # pylint: disable=broad-exception-caught
          msg = 'Python exception was raised on the server:\n' + ''.join(
              traceback.format_exception(e)
          )
          settle(out.set_exception, StatusNotOk(2, msg))

      inner = _POOL.submit(handle)
      if deadline is None:
        inner.result()
      else:
        try:
          inner.result(timeout=max(0.0, deadline - time.time()))
        except futures.TimeoutError:
          # Handler keeps running on the server, as with gRPC.
          settle(out.set_exception, StatusNotOk(4, 'Deadline Exceeded'))

    _WATCH.submit(run)
    return out

  def __getattr__(self, method):
    if method.startswith('__'):
      raise AttributeError(method)

    def call(*args, **kwargs):
      return self._call(method, args, kwargs).result()

    return call
