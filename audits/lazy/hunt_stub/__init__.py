"""Hunt helpers: puts the stub courier on sys.path before ml_metrics imports it."""
import os
import sys

_here = os.path.dirname(os.path.abspath(__file__))
if _here not in sys.path:
  sys.path.insert(0, _here)
for _m in [m for m in sys.modules if m == 'courier' or m.startswith('courier.')]:
  del sys.modules[_m]
