"""hunt_11 (adjacent to C14, "concurrent clients"): CourierClient
.async_wait_until_alive busy-spins inside the event loop, so while ONE async
client waits for a server that is not (yet / any more) alive, every other
coroutine - e.g. the async iteration of all other, healthy workers - is frozen,
for up to heartbeat_threshold_secs (360 s by default).

Why it matters for the property: C14 quantifies over concurrent clients; every
async_get_result / RemoteIteratorQueue.async_get* call starts with
`await self.async_wait_until_alive()`, and orchestrate drives all workers from
a single event loop, so one dead worker stalls the remote evaluation of all
others instead of just failing/retrying itself.

Cause (courier_utils.py:582-595): the `await asyncio.sleep(0.1)` that is meant to
be the loop body is dedented out of the `while` loop (compare the synchronous
wait_until_alive right below, which sleeps inside the loop):

    while (delta_time := time.time() - ticker) < deadline_secs:
      if self.is_alive:
        return
    await asyncio.sleep(0.1)      # <- only reached after the deadline
    raise RuntimeError(...)
"""
import asyncio
import os
import sys
import time

sys.path.insert(0, os.path.dirname(os.path.abspath(__file__)))


def main():
  from absl import logging as alog

  alog.set_verbosity(alog.FATAL)
  import hunt_stub  # pylint: disable=unused-import
  from ml_metrics._src.utils import courier_utils

  dead = courier_utils.CourierClient('hunt11_not_running', call_timeout=1)
  ticks = []

  async def other_client_work():
    # Stands for the other coroutines on the loop (other workers' iteration).
    while True:
      ticks.append(time.time())
      await asyncio.sleep(0.05)

  async def run():
    task = asyncio.create_task(other_client_work())
    await asyncio.sleep(0.2)
    start = time.time()
    try:
      await dead.async_wait_until_alive(deadline_secs=2)
    except RuntimeError as e:
      print('waiter :', e)
    end = time.time()
    task.cancel()
    return start, end

  start, end = asyncio.run(run())
  during = [t for t in ticks if start < t < end]
  print(f'other coroutine ran {len(during)} times during the {end - start:.1f}s'
        ' wait (expected ~40 with a cooperative wait)')
  bad = len(during) < 10
  print('DEFECT PRESENT' if bad else 'ok')
  return 1 if bad else 0


if __name__ == '__main__':
  code = main()
  sys.stdout.flush()
  os._exit(code)
