"""hunt_4: C14 - CourierClient.async_iter / async_remote_iter swallows the error
raised while *constructing* the remote iterable; the consumer hangs (or gets an
unrelated "Try longer timeout" TimeoutError) instead of the real exception.

Property text violated: "Evaluating a lazy expression on a server through a
client returns the same value, or raises the same exception type and message, as
evaluating it locally"; "remote iterators and remote queues ... signal
exhaustion once" (here exhaustion/failure is never signalled).

Cause: async_iter (courier_utils.py:780-805) first creates an IteratorQueue on
the server and then fires
    call(lazy_output_q.enqueue_from_iterator(lazy_iterable),
         return_exception=True, return_immediately=True)
With return_immediately the server (courier_server.py:207-209) only does
`self._thread_pool.submit(lazy_fns.maybe_make, maybe_lazy)` and drops the
future. If evaluating the *argument* `lazy_iterable` raises (data source not
found, transform.make() / model loading fails on the worker, result not
iterable), IteratorQueue.enqueue_from_iterator is never entered, so the queue
never records an exception nor an enqueuer. Every get_batch() on the returned
RemoteIteratorQueue then blocks on the server until the client's deadline; with
the default call_timeout (none) it blocks forever. Errors raised *while*
iterating are reported correctly - only construction errors are lost. This is
the path orchestrate uses for every worker (worker.async_iter(lazy_iterator)).
"""
import asyncio
import os
import sys
import time

sys.path.insert(0, os.path.dirname(os.path.abspath(__file__)))


def open_dataset(name):
  raise FileNotFoundError(f'no such dataset: {name}')


def failing_midway(n):
  yield from range(n)
  raise ValueError('mid-stream failure')


def main():
  from absl import logging as alog

  alog.set_verbosity(alog.FATAL)
  import hunt_stub  # pylint: disable=unused-import
  from ml_metrics._src.chainables import courier_server
  from ml_metrics._src.chainables import lazy_fns
  from ml_metrics._src.utils import courier_utils
  import hunt_4 as me

  trace, maybe_make = lazy_fns.trace, lazy_fns.maybe_make
  server = courier_server.CourierServer('hunt4')
  server.start()
  # A deadline is only used so that this script terminates; with the default
  # (no call timeout) the consumer below never returns.
  client = courier_utils.CourierClient('hunt4', call_timeout=3)

  async def consume(lazy_iterable):
    q = await client.async_iter(lazy_iterable, name='q')
    return [x async for x in q]

  def outcome(fn):
    t = time.time()
    try:
      r = ('returned', fn())
    except Exception as e:  # pylint: disable=broad-exception-caught
      r = ('raised', type(e).__name__, str(e)[:60])
    return r + (f'{time.time() - t:.1f}s',)

  bad = False
  cases = {
      'error while iterating (control)': trace(me.failing_midway)(2),
      'error while constructing': trace(me.open_dataset)('shard-3'),
      'result is not iterable': trace(int)('3'),
  }
  for name, expr in cases.items():
    local = outcome(lambda e=expr: list(maybe_make(e)))
    remote = outcome(lambda e=expr: asyncio.run(consume(e)))
    print(f'{name}:\n  local : {local}\n  remote: {remote}')
    bad |= local[:2] != remote[:2]

  # Same with the default client (no call timeout): the consumer never returns.
  import threading

  client = courier_utils.CourierClient('hunt4')
  done = threading.Event()

  def blocked_consumer():
    try:
      asyncio.run(consume(trace(me.open_dataset)('shard-4')))
    except Exception:  # pylint: disable=broad-exception-caught
      pass
    done.set()

  threading.Thread(target=blocked_consumer, daemon=True).start()
  hung = not done.wait(6)
  print('default client (no deadline): consumer still blocked after 6s:', hung)
  bad |= hung

  print('DEFECT PRESENT' if bad else 'ok')
  return 1 if bad else 0


if __name__ == '__main__':
  code = main()
  sys.stdout.flush()
  os._exit(code)
