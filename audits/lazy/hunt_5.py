"""hunt_5: C14 - after a stop()/start() cycle a CourierServer can never be shut
down again: stop() leaves it "shutting down" forever, it keeps serving, and
every genuine exception (including the StopIteration that signals the end of a
remote iterator) is replaced by TimeoutError('Shutdown requested ...').

Property text violated: "remote iterators ... signal exhaustion once" and
"raises the same exception type and message as evaluating it locally"; "A server
that is shutting down answers with a retriable timeout error rather than hanging
or returning a wrong value" presumes that the shutting-down state ends - here it
is permanent, so a client that retries on the "retriable" timeout spins forever,
and successful calls are still answered by a server that was asked to stop.

Cause: CourierServer.start (courier_server.py:299-312) only spawns the
run_until_shutdown thread `if not self._thread`, but self._thread is never reset
when that thread finishes. On the restart (a scenario covered by
courier_server_test.test_shutdown_and_restart) build_server() creates and starts
a fresh courier server, yet no supervising thread runs. A later stop() merely
sets _shutdown_requested (nobody calls _shutdown_server), stop().join() returns
at once because it joins the *old* dead thread, has_started stays True, and
_maybe_make (courier_server.py:216-218) rewrites every exception to
TimeoutError from then on. (The restarted server also never sends heartbeats to
its `clients` and never auto-shuts down.)
"""
import os
import sys
import time

sys.path.insert(0, os.path.dirname(os.path.abspath(__file__)))


def main():
  from absl import logging as alog

  alog.set_verbosity(alog.FATAL)
  import hunt_stub  # pylint: disable=unused-import
  from ml_metrics._src.chainables import courier_server
  from ml_metrics._src.chainables import lazy_fns
  from ml_metrics._src.utils import courier_utils

  trace = lazy_fns.trace
  server = courier_server.CourierServer('hunt5')
  first_thread = server.start()
  client = courier_utils.CourierClient('hunt5', call_timeout=5)
  print('1st run : len([1]) ->', client.get_result(trace(len)([1])))
  server.stop().join()
  print('stopped : has_started =', server.has_started)

  second_thread = server.start()  # restart, as in test_shutdown_and_restart
  print('restart : has_started =', server.has_started,
        '| supervising thread alive =', second_thread.is_alive(),
        '| same (dead) thread object =', second_thread is first_thread)
  print('2nd run : len([1, 2]) ->', client.get_result(trace(len)([1, 2])))

  server.stop().join()
  time.sleep(0.5)
  still_started = server.has_started
  print('stop() again + join(): has_started =', still_started)
  try:
    served = client.get_result(trace(len)([1, 2, 3]))
  except Exception as e:  # pylint: disable=broad-exception-caught
    served = f'raised {e!r}'
  print('call after 2nd stop  :', served)

  bad = not second_thread.is_alive() or still_started or served == 3
  if still_started:
    # Only meaningful while the zombie server still answers.
    remote_it = courier_utils.RemoteIterator.new(range(2), server_addr=client)
    try:
      elems = ('returned', list(remote_it))
    except Exception as e:  # pylint: disable=broad-exception-caught
      elems = ('raised', repr(e))
    print('list(RemoteIterator(range(2))):', elems,
          "(a live server must give ('returned', [0, 1]))")
    bad |= elems != ('returned', [0, 1])
  print('DEFECT PRESENT' if bad else 'ok')
  return 1 if bad else 0


if __name__ == '__main__':
  code = main()
  sys.stdout.flush()
  os._exit(code)
