"""Properties C17 (lazy == eager for attribute/item/call chains) and C14 (chains on a remote object).

`lazy.<name>` is traced through __getattr__, which Python only calls when the
normal lookup fails. LazyFn / RemoteObject are dataclasses with PUBLIC fields
`value`, `args`, `kwargs` (and properties `id`, `cache_result`, `lazy_result`,
`worker`, `client_configs`): for these names the attribute chain silently
returns the INTERNALS of the expression node instead of tracing
getattr(result, name). maybe_make() then returns a wrong value without any error:
  trace(Color)(3).value        -> <enum 'Color'>      (eager: 3)
  trace(partial)(f, 1).args    -> (f, 1)              (eager: (1,))
  trace(partial)(f, 1, k=2).kwargs / trace(Rec)().id  -> internals
On a remote object the same chain (`remote[0].args`) wraps the internal tuple in
a new client-side LazyObject: result_() returns the internals when client and
server share a process, LazyObjectMissingError otherwise.
The same expressions written with trace(getattr)(x, name) evaluate correctly, and
the library suffixes its own API with '_' (result_, set_, cache_result_=) to
avoid exactly this clash. Exit 1 when the defect is present.
"""
import enum
import functools
import operator
import os
import sys

_HERE = os.path.dirname(os.path.abspath(__file__))
sys.path.insert(0, os.path.join(_HERE, 'hunt_stub'))
sys.path.insert(0, _HERE)
import courier  # pylint: disable=g-import-not-at-top

assert 'hunt_stub' in courier.__file__, courier.__file__
from absl import logging as absl_logging

absl_logging.set_verbosity(absl_logging.FATAL)
from ml_metrics._src.chainables import courier_server
from ml_metrics._src.chainables import lazy_fns
from ml_metrics._src.utils import courier_utils

trace, maybe_make = lazy_fns.trace, lazy_fns.maybe_make


class Color(enum.Enum):
  RED = 3


def f(a, b=0, k=0):
  return a + b + k


class Rec:

  def __init__(self):
    self.id = 7
    self.value = 42
    self.other = 'fine'


def main():
  bad = []

  def check(label, lazy_expr, eager):
    try:
      got = maybe_make(lazy_expr)
    except Exception as e:  # pylint: disable=broad-exception-caught
      got = e
    ok = type(got) is type(eager) and got == eager
    print(f'{label:42s} lazy -> {got!r:45.45} eager -> {eager!r}')
    if not ok:
      bad.append(label)

  # Control: other names and explicit getattr are fine.
  check('trace(Rec)().other', trace(Rec)().other, Rec().other)
  check("trace(getattr)(trace(Color)(3), 'value')",
        trace(getattr)(trace(Color)(3), 'value'), Color(3).value)
  # Colliding names.
  check('trace(Color)(3).value', trace(Color)(3).value, Color(3).value)
  check('trace(Rec)().value', trace(Rec)().value, Rec().value)
  check('trace(Rec)().id', trace(Rec)().id, Rec().id)
  check('trace(partial)(f, 1).args',
        trace(functools.partial)(f, 1).args, functools.partial(f, 1).args)
  check('trace(ValueError)("a").args',
        trace(ValueError)('a').args, ValueError('a').args)
  check('trace(dict)(kwargs=5)["kwargs"] (control)',
        trace(dict)(kwargs=5)['kwargs'], 5)

  # Remote object chains.
  server = courier_server.CourierServer('hunt4_lazy_2')
  server.start()
  client = courier_utils.CourierClient('hunt4_lazy_2', call_timeout=20)
  remote = client.get_result(
      trace(list)((functools.partial(operator.add, 1),), lazy_result_=True)
  )
  local = [functools.partial(operator.add, 1)]
  for label, expr, eager in [
      ('remote[0].func (control)', lambda: remote[0].func, local[0].func),
      ('remote[0].args', lambda: remote[0].args, local[0].args),
  ]:
    try:
      got = expr().result_()
    except Exception as e:  # pylint: disable=broad-exception-caught
      got = e
    print(f'{label:42s} remote -> {got!r:43.43} local -> {eager!r}')
    if not (type(got) is type(eager) and got == eager):
      bad.append(label)
  server.stop().join()
  if bad:
    print('DEFECT: wrong value for', bad)
    return 1
  print('OK')
  return 0


if __name__ == '__main__':
  sys.exit(main())
