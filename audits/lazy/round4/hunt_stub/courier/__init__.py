"""Minimal in-process stand-in for DeepMind courier (audit stub)."""
import itertools
import threading
import time
from concurrent import futures

_servers = {}
_lock = threading.Lock()
_ports = itertools.count(20000)
_pool = futures.ThreadPoolExecutor(max_workers=256, thread_name_prefix='stubrpc')


class StatusNotOk(Exception):

  def __init__(self, message, code):
    super().__init__(message)
    self.code = code
    self.message = message

  def __reduce__(self):
    return (StatusNotOk, (self.message, self.code))


class Server:

  def __init__(self, name=None, port=None):
    self._name = name
    self._port = port or next(_ports)
    self._handlers = {}
    self.has_started = False

  @property
  def address(self):
    return self._name or f'localhost:{self._port}'

  def Bind(self, name, fn):
    self._handlers[name] = fn

  def Start(self):
    with _lock:
      _servers[self.address] = self
      if self._name:
        _servers[f'localhost:{self._port}'] = self
    self.has_started = True

  def Stop(self):
    with _lock:
      for k in [k for k, v in _servers.items() if v is self]:
        del _servers[k]
    self.has_started = False


class _Futures:

  def __init__(self, client):
    self._client = client

  def __getattr__(self, method):
    if method.startswith('__'):
      raise AttributeError(method)

    def call(*args, **kwargs):
      return self._client._call(method, args, kwargs)

    return call


class Client:

  def __init__(self, address, call_timeout=None):
    self.address = address
    self.call_timeout = call_timeout
    self.futures = _Futures(self)

  def __getattr__(self, method):
    if method.startswith('__'):
      raise AttributeError(method)

    def call(*args, **kwargs):
      return self._call(method, args, kwargs).result()

    return call

  def _call(self, method, args, kwargs):
    result = futures.Future()
    result.set_running_or_notify_cancel()
    timeout = self.call_timeout or None
    deadline = time.time() + timeout if timeout else None
    done_lock = threading.Lock()

    def finish(value=None, exc=None):
      with done_lock:
        if result.done():
          return
        if exc is not None:
          result.set_exception(exc)
        else:
          result.set_result(value)

    def run():
      # wait for ready
      while True:
        with _lock:
          server = _servers.get(self.address)
        if server is not None and server.has_started:
          break
        if deadline and time.time() > deadline:
          return
        if result.done():
          return
        time.sleep(0.005)
      fn = server._handlers.get(method)
      if fn is None:
        finish(exc=StatusNotOk(f'method {method} not found', 5))
        return
      try:
        value = fn(*args, **kwargs)
      except BaseException as e:  # pylint: disable=broad-exception-caught
        finish(exc=StatusNotOk(f'Python exception was raised on the server:\n{type(e).__name__}: {e}', 2))
        return
      finish(value)

    def watchdog():
      if deadline:
        while time.time() < deadline:
          if result.done():
            return
          time.sleep(0.005)
        finish(exc=StatusNotOk('Deadline Exceeded', 4))

    _pool.submit(run)
    if deadline:
      threading.Thread(target=watchdog, daemon=True).start()
    return result
