"""Property C14 (remote evaluation == local evaluation, the object stays on the server).

A handle to a server-side object (RemoteObject, obtained with lazy_result_=True)
that is passed as an ARGUMENT of another remote call on the same server is not
dereferenced in the server's object cache. The RemoteObject is pickled as is, the
server's maybe_make() finds a Resolvable and calls RemoteObject.result_(), i.e.
the server opens a CourierClient to ITSELF, evaluates the handle in a nested
request and receives a pickled COPY of its own object:
  * remote_list.append(remote_item) appends a copy: `lst[0] is item` is False on
    the server and later mutations through `item` are invisible through `lst`
    (locally they are the same object),
  * a handle to an object that cannot be pickled (generator, queue, lock, model)
    cannot be used as an argument at all: list(handle) fails with a pickling /
    transport error, locally list(gen) == [0, 1, 2].
Passing handle.value (the LazyObject) instead works, which shows what the
server should have done. Exit 1 when the defect is present.
"""
import os
import sys

_HERE = os.path.dirname(os.path.abspath(__file__))
sys.path.insert(0, os.path.join(_HERE, 'hunt_stub'))
sys.path.insert(0, _HERE)
import courier  # pylint: disable=g-import-not-at-top

assert 'hunt_stub' in courier.__file__, courier.__file__
from absl import logging as absl_logging

absl_logging.set_verbosity(absl_logging.FATAL)
from ml_metrics._src.chainables import courier_server
from ml_metrics._src.chainables import lazy_fns
from ml_metrics._src.utils import courier_utils

trace = lazy_fns.trace


def gen(n):
  yield from range(n)


def same_object(container, x):
  return container[0] is x


def main():
  server = courier_server.CourierServer('hunt4_lazy_1')
  server.start()
  client = courier_utils.CourierClient('hunt4_lazy_1', call_timeout=20)
  bad = []

  # --- local reference behaviour -------------------------------------------
  l_lst, l_item = [], {'a': 1}
  l_lst.append(l_item)
  l_item['b'] = 2
  print('local : lst[0] is item ->', same_object(l_lst, l_item), ', lst ->', l_lst)
  print('local : list(gen(3))   ->', list(gen(3)))

  # --- remote: identity / aliasing -----------------------------------------
  lst = client.get_result(trace(list)(lazy_result_=True))
  item = client.get_result(trace(dict)(a=1, lazy_result_=True))
  assert isinstance(lst, courier_utils.RemoteObject)
  lst.append(item).result_()  # call on a remote object with a remote argument
  item.update(b=2).result_()  # mutate the item on the server
  is_same = client.get_result(trace(same_object)(lst, item))
  seen = lst.result_()
  print('remote: lst[0] is item ->', is_same, ', lst ->', seen)
  if is_same is not True or seen != [{'a': 1, 'b': 2}]:
    bad.append('remote argument was copied instead of staying on the server')

  # --- remote: handle of an unpicklable object as argument -------------------
  g = client.get_result(trace(gen)(3, lazy_result_=True))
  try:
    out = client.get_result(trace(list)(g))
    print('remote: list(handle)   ->', out)
    if out != [0, 1, 2]:
      bad.append(f'wrong value {out}')
  except Exception as e:  # pylint: disable=broad-exception-caught
    print('remote: list(handle)   -> raised', type(e).__name__, str(e)[:120])
    bad.append('handle of an unpicklable server object unusable as argument')
  g2 = client.get_result(trace(gen)(3, lazy_result_=True))
  print(
      'remote: list(handle.value) (what the server should do) ->',
      client.get_result(trace(list)(g2.value)),
  )
  server.stop().join()
  if bad:
    print('DEFECT:', '; '.join(bad))
    return 1
  print('OK')
  return 0


if __name__ == '__main__':
  sys.exit(main())
