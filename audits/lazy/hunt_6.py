"""hunt_6: C14 - a remote evaluation that takes longer than
heartbeat_threshold_secs (default 360 s) fails with
RuntimeError('Worker disconnected') although the server is alive, answering
heartbeats within milliseconds, and about to return the right value.

Property text violated: "Evaluating a lazy expression on a server through a
client returns the same value ... as evaluating it locally" (locally the slow
expression simply returns 42).

Cause: CourierClient.get_result / async_get_result (courier_utils.py:667-703)
poll `while not future.done(): if not self.is_alive: raise RuntimeError(...)`.
is_alive (courier_utils.py:632-640) only looks at the time of the last
*completed* call (_is_heartbeat_fresh); when that is older than the threshold
it *sends* a heartbeat (_check_heartbeat) and returns False immediately without
waiting for the answer. wait_until_alive() tolerates that False and polls again,
but get_result raises on the first False. So any single blocking call that runs
longer than the threshold (model loading, a long aggregation) is aborted on a
perfectly healthy worker, unless the server was configured to push heartbeats
to a server co-located with the client (`clients=[...]`).

Note that the freshness timestamp is the *send* time of the last completed call
(_is_heartbeat_fresh refreshes the registry with state_and_time.time), so the
budget of a call is even shorter than the threshold when the previous call was
itself slow: below, after a 180 s control call, the 600 s call is aborted ~182 s
after it started.

To keep the script fast the clock *seen by courier_utils only* is dilated
(1 real second = 600 virtual seconds); all defaults are untouched
(heartbeat_threshold_secs=360, no call timeout). The remote function sleeps one
real second, i.e. 600 virtual seconds.
"""
import os
import sys
import time
import types as pytypes

sys.path.insert(0, os.path.dirname(os.path.abspath(__file__)))


def slow_identity(x, secs):
  time.sleep(secs)
  return x


def main():
  from absl import logging as alog

  alog.set_verbosity(alog.FATAL)
  import hunt_stub  # pylint: disable=unused-import
  from ml_metrics._src.chainables import courier_server
  from ml_metrics._src.chainables import lazy_fns
  from ml_metrics._src.utils import courier_utils
  import hunt_6 as me

  t0 = time.time()
  courier_utils.time = pytypes.SimpleNamespace(
      time=lambda: t0 + (time.time() - t0) * 600, sleep=time.sleep
  )

  server = courier_server.CourierServer('hunt6')
  server.start()
  client = courier_utils.CourierClient('hunt6')  # all defaults
  print('warm up: len([1]) ->', client.get_result(lazy_fns.trace(len)([1])))
  print('control: 180 virtual secs call ->',
        client.get_result(lazy_fns.trace(me.slow_identity)(7, 0.3)))
  expr = lazy_fns.trace(me.slow_identity)(42, 1.0)
  start = courier_utils.time.time()
  try:
    outcome = ('returned', client.get_result(expr))
  except Exception as e:  # pylint: disable=broad-exception-caught
    outcome = ('raised', type(e).__name__, str(e))
  virtual = courier_utils.time.time() - start
  print(f'slow call (600 virtual secs) -> {outcome} after {virtual:.0f} virtual secs')
  time.sleep(0.2)
  print('client.is_alive immediately afterwards:', client.is_alive)
  bad = outcome != ('returned', 42)
  print('DEFECT PRESENT' if bad else 'ok')
  return 1 if bad else 0


if __name__ == '__main__':
  code = main()
  sys.stdout.flush()
  os._exit(code)
