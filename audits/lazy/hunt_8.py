"""hunt_8 (lower confidence): C14 - a server-side exception whose class has a
custom __init__ signature reaches the client as an unrelated TypeError (or with a
different message); the real error type and message are lost.

Property text violated: "returns the same value, or raises the same exception
type and message, as evaluating it locally".

Cause: CourierServer._maybe_make (courier_server.py:216-226) pickles the raised
exception object itself and CourierClient._result_or_exception
(courier_utils.py:659-662) unpickles and re-raises it. BaseException pickles as
`cls(*self.args)`, so any exception class whose __init__ does not accept exactly
its `args` (very common: `def __init__(self, code, detail)` +
`super().__init__(f'...')`) cannot be rebuilt: pickler.loadz raises
`TypeError: __init__() missing ... positional argument` on the client, or
silently rebuilds the exception with a different message when defaults exist.
The server never checks that the exception survives a round trip and never
falls back to shipping type name + message, so the client cannot learn what went
wrong remotely. (This is a limitation of exception pickling, hence "lower
confidence", but nothing in the transport guards against it.)
"""
import os
import sys

sys.path.insert(0, os.path.dirname(os.path.abspath(__file__)))


class QuotaError(Exception):

  def __init__(self, user, limit):
    super().__init__(f'user {user} exceeded quota {limit}')
    self.user, self.limit = user, limit


class HttpError(Exception):

  def __init__(self, code, detail='unknown'):
    super().__init__(detail)
    self.code = code


def check_quota():
  raise QuotaError('alice', 10)


def fetch():
  raise HttpError(404, 'not found')


def main():
  from absl import logging as alog

  alog.set_verbosity(alog.FATAL)
  import hunt_stub  # pylint: disable=unused-import
  from ml_metrics._src.chainables import courier_server
  from ml_metrics._src.chainables import lazy_fns
  from ml_metrics._src.utils import courier_utils
  import hunt_8 as me

  server = courier_server.CourierServer('hunt8')
  server.start()
  client = courier_utils.CourierClient('hunt8', call_timeout=10)

  def outcome(fn):
    try:
      return ('returned', fn())
    except Exception as e:  # pylint: disable=broad-exception-caught
      return ('raised', type(e).__name__, str(e))

  bad = False
  for fn in (me.check_quota, me.fetch):
    expr = lazy_fns.trace(fn)()
    local = outcome(lambda e=expr: lazy_fns.maybe_make(e))
    remote = outcome(lambda e=expr: client.get_result(e))
    print(f'{fn.__name__}():\n  local : {local}\n  remote: {remote}')
    bad |= local != remote
  print('DEFECT PRESENT' if bad else 'ok')
  return 1 if bad else 0


if __name__ == '__main__':
  code = main()
  sys.stdout.flush()
  os._exit(code)
