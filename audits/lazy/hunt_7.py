"""hunt_7: C17 - concurrent materialisations of cached LazyFns race inside the
unsynchronised LRU cache: a correct, successfully evaluated expression raises a
bare KeyError to its caller, and the cache permanently exceeds its bound.

Property text violated: "a cached call evaluates once and afterwards returns the
identical object until ... the bounded cache evicts it in least-recently-used
order" - here maybe_make() of a valid expression raises KeyError (it is not even
the dedicated LazyObjectMissingError) and the "bounded" cache ends up holding
maxsize + 1 entries for good. C14 quantifies over concurrent clients: the
CourierServer evaluates requests on a thread pool against this process-wide
cache, so a client can receive KeyError for an expression that evaluates fine.

Cause: func_utils.LruCache.__setitem__ (func_utils.py:62-71) does
    oldest = next(iter(self.data)); del self.data[oldest]; self.currsize -= 1
without any lock, and _maybe_lru_cache (lazy_fns.py:71-76) calls it from inside
its `except KeyError` handler. Cache keys are LazyFns whose __hash__ is Python
code that hashes the user's arguments, so threads do switch between picking
`oldest` and deleting it. Two threads that both insert while the cache is full
pick the same `oldest`; the second `del` raises KeyError(oldest), which
propagates out of maybe_make, and currsize is decremented only once.

The interleaving is forced deterministically with a sleep in a user callback
(the __hash__ of the argument of the *oldest* cached entry).
"""
import os
import sys
import threading
import time

sys.path.insert(0, os.path.dirname(os.path.abspath(__file__)))
from absl import logging as alog

alog.set_verbosity(alog.FATAL)
from ml_metrics._src.chainables import lazy_fns

trace, maybe_make = lazy_fns.trace, lazy_fns.maybe_make
SLOW = threading.Event()


class Cfg:
  """A hashable user config used as an argument of the cached call."""

  def __init__(self, n):
    self.n = n

  def __hash__(self):
    if SLOW.is_set() and self.n == 0:
      time.sleep(0.3)  # widens the window while entry #0 is being evicted
    return hash(self.n)

  def __eq__(self, other):
    return isinstance(other, Cfg) and other.n == self.n


def build(cfg):
  return ('built', cfg.n)


def main():
  lazy_fns.clear_cache()
  maxsize = lazy_fns.cache_info().maxsize
  for i in range(maxsize):  # fill the cache; entry for Cfg(0) is the oldest
    maybe_make(trace(build)(Cfg(i), cache_result_=True))
  print('filled :', lazy_fns.cache_info())
  SLOW.set()
  outcome = {}

  def run(i):
    try:
      outcome[i] = ('returned', maybe_make(trace(build)(Cfg(i), cache_result_=True)))
    except BaseException as e:  # pylint: disable=broad-exception-caught
      outcome[i] = ('raised', type(e).__name__, str(e)[:70] + '...')

  threads = [threading.Thread(target=run, args=(i,)) for i in (1000, 1001)]
  for t in threads:
    t.start()
  for t in threads:
    t.join()
  SLOW.clear()
  for i, o in sorted(outcome.items()):
    print(f'maybe_make(build(Cfg({i}))) ->', o)
  # One more insertion: a bounded cache must be back at <= maxsize afterwards.
  maybe_make(trace(build)(Cfg(2000), cache_result_=True))
  info = lazy_fns.cache_info()
  print('after  :', info)
  bad = any(o[0] != 'returned' for o in outcome.values()) or (
      info.currsize > info.maxsize
  )
  print('DEFECT PRESENT' if bad else 'ok')
  return 1 if bad else 0


if __name__ == '__main__':
  sys.exit(main())
