"""hunt_2: C14 (concurrent clients) / C17 - a cached call is evaluated once per
concurrent caller, and the callers get different objects.

Property text violated: "a cached call evaluates once and afterwards returns the
identical object" (C17), quantified in C14 over "all client call orders and
concurrent clients"; remote evaluation must be observationally the same as local
evaluation, where `m = Model(); m.bump(); m.bump(); m.bump(); m.bump()` gives
1, 2, 3, 4.

Cause: _maybe_lru_cache.wrapped_fn (lazy_fns.py:63-83) does a lookup, then runs
fn(x) and stores the result with no lock and no in-flight marker, and the
CourierServer runs handlers on a thread pool. While the first evaluation of
`trace(Model)(cache_result_=True)` is still running (model loading is exactly
the slow thing people cache), every other request for the same cached
expression misses as well and constructs its own Model; the last writer wins
the cache slot. State mutations done through the losers' instances are silently
lost and the expensive constructor ran N times.
"""
import os
import sys
import threading
import time

sys.path.insert(0, os.path.dirname(os.path.abspath(__file__)))

CONSTRUCTED = []


class SlowModel:
  """Stands for a model whose loading takes a while."""

  def __init__(self):
    time.sleep(0.5)  # user callback delay that forces the interleaving
    CONSTRUCTED.append(self)
    self.n = 0

  def bump(self):
    self.n += 1
    return self.n


def main():
  from absl import logging as alog

  alog.set_verbosity(alog.FATAL)
  import hunt_stub  # pylint: disable=unused-import
  from ml_metrics._src.chainables import courier_server
  from ml_metrics._src.chainables import lazy_fns
  from ml_metrics._src.utils import courier_utils
  import hunt_2 as me  # so that SlowModel is pickled by reference

  server = courier_server.CourierServer('hunt2')
  server.start()
  lazy_model = lazy_fns.trace(me.SlowModel)(cache_result_=True)
  # Three distinct clients (distinct configs => distinct singleton instances).
  clients = [
      courier_utils.CourierClient('hunt2', call_timeout=20 + i)
      for i in range(3)
  ]
  for c in clients:
    c.wait_until_alive()
  lazy_fns.clear_cache()
  results = []

  def run(c):
    results.append(c.get_result(lazy_model.bump()))

  threads = [threading.Thread(target=run, args=(c,)) for c in clients]
  for t in threads:
    t.start()
  for t in threads:
    t.join()
  fourth = clients[0].get_result(lazy_model.bump())
  print('3 concurrent bump() results:', sorted(results), '(expected [1, 2, 3])')
  print('4th bump() result          :', fourth, '(expected 4)')
  print('Model constructed          :', len(me.CONSTRUCTED), 'times (expected 1)')
  print('server cache               :', lazy_fns.cache_info())
  bad = (
      sorted(results) != [1, 2, 3] or fourth != 4 or len(me.CONSTRUCTED) != 1
  )
  print('DEFECT PRESENT' if bad else 'ok')
  return 1 if bad else 0


if __name__ == '__main__':
  code = main()
  sys.stdout.flush()
  os._exit(code)
