"""C17 (func_utils.py) - func_utils.lru_cache stores results under
hash(arguments) instead of under the arguments: two different argument tuples
with the same hash share one entry, so a call returns the cached value of a
DIFFERENT call ("... never a stale or wrong value").  In CPython
hash(-1) == hash(-2), hash(2**61 - 1) == hash(0), hash(1) == hash(1.0) ...
Second symptom of the same cache: re-inserting a key (cache_insert_=True) does
not make it most recently used, so the eviction is not in LRU order.
"""
import sys

from ml_metrics._src.utils import func_utils

calls = []


@func_utils.lru_cache
def square(x):
  calls.append(x)
  return x * x


got = [square(-1), square(-2), square(0), square(2**61 - 1)]
expected = [1, 4, 0, (2**61 - 1) ** 2]
print('square(-1), square(-2), square(0), square(2**61-1) =', got)
print('expected                                           =', expected)
print('evaluated for', calls)
wrong_value = got != expected

# LRU order: 1 is refreshed by the re-insertion, so 2 is the eviction victim.
evaluated = []


@func_utils.lru_cache(maxsize=2)
def ident(x):
  evaluated.append(x)
  return x


ident(1)
ident(2)
ident(1, cache_insert_=True)  # re-evaluates and re-inserts 1: most recent.
ident(3)  # must evict 2.
evaluated.clear()
ident(1)
print('after refresh of 1 and insertion of 3, ident(1) re-evaluated:', evaluated)
wrong_order = evaluated == [1]

bad = wrong_value or wrong_order
print('DEFECT PRESENT' if bad else 'ok', dict(wrong_value=wrong_value, wrong_order=wrong_order))
sys.exit(1 if bad else 0)
