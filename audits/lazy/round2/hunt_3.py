"""C14 - "raises the same exception type and message as evaluating it locally".

The server ships the raised exception object itself as the pickled result
(CourierServer._maybe_make: result = e; _return_pickled(result)) and the client
unpickles it.  Exceptions do not survive that in general:
  (a) an exception class whose __init__ takes other arguments than what it puts
      in self.args (very common: HttpError(resp, content), OpError(node, op,
      msg), ...) pickles fine on the server but fails to UNPICKLE on the client:
      get_result raises "TypeError: __init__() missing ... argument" - the
      original type and message are gone;
  (b) an exception that carries an unpicklable payload makes _return_pickled
      raise TypeError on the server AFTER the return_exception handling: the
      client sees a transport error "cannot pickle ..." instead of the error.
"""
import os
import re
import sys
import threading

sys.path.insert(0, os.path.dirname(os.path.abspath(__file__)))
import hunt_stub  # pylint: disable=unused-import,g-import-not-at-top
from absl import logging

logging.set_verbosity(logging.FATAL)
from ml_metrics._src.chainables import courier_server
from ml_metrics._src.chainables import lazy_fns
from ml_metrics._src.utils import courier_utils

trace, mm = lazy_fns.trace, lazy_fns.maybe_make


class QuotaError(Exception):

  def __init__(self, user, limit):
    super().__init__(f'user {user} exceeded the quota of {limit}')
    self.user = user
    self.limit = limit


def check_quota():
  raise QuotaError('bob', 3)


def failing_with_payload():
  raise ValueError('bad handle', threading.Lock())


def outcome(fn):
  try:
    return ('value', fn())
  except Exception as e:  # pylint: disable=broad-exception-caught
    # Object addresses in the message are not stable between two raises.
    return (type(e).__name__, re.sub(r'0x[0-9a-f]+', '0x..', str(e))[:70])


server = courier_server.CourierServer('hunt3')
server.start()
client = courier_utils.CourierClient('hunt3', call_timeout=10)
bad = False
for f in (check_quota, failing_with_payload):
  local = outcome(lambda: mm(trace(f)()))
  remote = outcome(lambda: client.get_result(trace(f)()))
  same = local[0] == remote[0] and local[1] == remote[1]
  bad |= not same
  print(f'{f.__name__}:\n  local : {local}\n  remote: {remote}')
server.stop().join()
print('DEFECT PRESENT' if bad else 'ok')
sys.exit(1 if bad else 0)
