"""C17 / C14 - attribute chains on a traced / remote object silently return a
WRONG value for attribute names that are public names of the lazy wrapper.

LazyObject.__getattr__ only sees names that normal lookup does not find, and the
dataclasses LazyObject / LazyFn / RemoteObject expose the un-suffixed public
names value, args, kwargs, id, cache_result, lazy_result, new (the helper
methods were given a trailing underscore - set_, result_ - for this reason,
these were not).  So for an object that has such an attribute (Enum.value,
Exception.args, functools.partial.args, inspect.BoundArguments.args/kwargs, any
record with an `id` or `value` field):
    maybe_make(trace(Box)(3).value)     -> the class Box, not 3
    maybe_make(trace(partial)(max, 1, 2).args) -> (max, 1, 2), not (1, 2)
no error is raised, locally and through a server alike.
"""
import functools
import os
import sys

sys.path.insert(0, os.path.dirname(os.path.abspath(__file__)))
import hunt_stub  # pylint: disable=unused-import,g-import-not-at-top
from absl import logging

logging.set_verbosity(logging.FATAL)
from ml_metrics._src.chainables import courier_server
from ml_metrics._src.chainables import lazy_fns
from ml_metrics._src.utils import courier_utils

trace, mm = lazy_fns.trace, lazy_fns.maybe_make


class Box:

  def __init__(self, value):
    self.value = value
    self.id = 'box-7'
    self.payload = value  # a non-colliding name, for comparison.


def show(x):
  return repr(x)[:60]


server = courier_server.CourierServer('hunt4')
server.start()
client = courier_utils.CourierClient('hunt4', call_timeout=10)

cases = [
    ('Box(3).payload', lambda: Box(3).payload, lambda: trace(Box)(3).payload),
    ('Box(3).value', lambda: Box(3).value, lambda: trace(Box)(3).value),
    ('Box(3).id', lambda: Box(3).id, lambda: trace(Box)(3).id),
    (
        'partial(max, 1, 2).args',
        lambda: functools.partial(max, 1, 2).args,
        lambda: trace(functools.partial)(max, 1, 2).args,
    ),
]
bad = False
for name, eager, lazy in cases:
  expected = eager()
  local = mm(lazy())
  try:
    remote = client.get_result(lazy())
  except Exception as e:  # pylint: disable=broad-exception-caught
    remote = e
  ok = local == expected and remote == expected
  bad |= not ok
  print(
      f'{name:26} eager={show(expected):12} lazy={show(local):32}'
      f' remote={show(remote):32} {"ok" if ok else "WRONG"}'
  )

# The same on a handle of an object that stays on the server.
handle = client.get_result(trace(Box)(3, lazy_result_=True))
got_payload = handle.payload.result_()
value_attr = handle.value  # not a RemoteObject for Box(3).value at all
print('handle.payload.result_() =', got_payload, '; type(handle.value) =',
      type(value_attr).__name__, '; handle.id =', handle.id)
bad |= not isinstance(value_attr, courier_utils.RemoteObject)
server.stop().join()
print('DEFECT PRESENT' if bad else 'ok')
sys.exit(1 if bad else 0)
