"""C14 - comparing a RemoteObject with anything that is not a RemoteObject raises
AttributeError instead of answering False ("... on a remote object behave like
on the local object").

RemoteObject.__eq__ is `return self.value == other.value` without a type check.
This is the flaw that was repaired for LazyObject.__eq__ (it now returns
NotImplemented for non-lazy operands) but the remote wrapper still has it:
  remote == 5, remote != None, remote in [1, 2], [1, remote].index(remote),
  {remote.id: ...}.get(remote)  (hash(remote) == hash(remote.id), so the dict
  lookup compares the two keys)  all raise
  AttributeError: 'int' object has no attribute 'value'.
"""
import os
import sys

sys.path.insert(0, os.path.dirname(os.path.abspath(__file__)))
import hunt_stub  # pylint: disable=unused-import,g-import-not-at-top
from absl import logging

logging.set_verbosity(logging.FATAL)
from ml_metrics._src.chainables import courier_server
from ml_metrics._src.chainables import lazy_fns
from ml_metrics._src.utils import courier_utils

trace, mm = lazy_fns.trace, lazy_fns.maybe_make

server = courier_server.CourierServer('hunt5')
server.start()
client = courier_utils.CourierClient('hunt5', call_timeout=10)
remote = client.get_result(trace(list)((1, 2), lazy_result_=True))
local = mm(trace(list)((1, 2), lazy_result_=True))  # a LazyObject handle
assert isinstance(remote, courier_utils.RemoteObject)

cases = {
    'x == 5': lambda x: x == 5,
    'x != None': lambda x: x != None,  # pylint: disable=singleton-comparison
    'x in [1, 2]': lambda x: x in [1, 2],
    '[1, x].index(x)': lambda x: [1, x].index(x),
    '{x.id: 0}.get(x, "absent")': lambda x: {x.id: 0}.get(x, 'absent'),
}
bad = False
for name, fn in cases.items():
  results = []
  for obj in (local, remote):
    try:
      results.append(repr(fn(obj)))
    except Exception as e:  # pylint: disable=broad-exception-caught
      results.append(f'RAISED {type(e).__name__}: {e}')
      bad = True
  print(f'{name:28} local handle: {results[0]:10} remote handle: {results[1]}')
server.stop().join()
print('DEFECT PRESENT' if bad else 'ok')
sys.exit(1 if bad else 0)
