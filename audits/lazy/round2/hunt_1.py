"""C14 - a RemoteObject passed as an ARGUMENT of a call on its own server is not
used in place: the server resolves it by calling itself through a CourierClient
(RemoteObject.result_ -> worker.get_result) and receives a pickled COPY.

Property C14: "chains of ... calls on a remote object behave like on the local
object while the object itself stays on the server".  Observed instead:
  * a handle of an unpicklable object (generator, iterator, lock holder, model)
    cannot be passed at all: list(gen_handle) fails with "cannot pickle
    'generator' object" (the library's own test does exactly this with a
    picklable range: test_remote_iterator_iterate_remotely);
  * identity is lost: operator.is_(h, h) is False on the server;
  * mutations go to a copy: holder.append(item); item.append(1) leaves
    holder[0] empty.
The same expressions evaluated locally (handles = LazyObject.new) give
[0, 1, 2] / True / [[1]].
"""
import operator
import os
import sys

sys.path.insert(0, os.path.dirname(os.path.abspath(__file__)))
import hunt_stub  # pylint: disable=unused-import,g-import-not-at-top
from absl import logging

logging.set_verbosity(logging.FATAL)
from ml_metrics._src.chainables import courier_server
from ml_metrics._src.chainables import lazy_fns
from ml_metrics._src.utils import courier_utils

trace, mm = lazy_fns.trace, lazy_fns.maybe_make


def gen(n):
  yield from range(n)


def attempt(fn):
  try:
    return fn()
  except Exception as e:  # pylint: disable=broad-exception-caught
    return f'RAISED {type(e).__name__}: {e}'


# ---- local reference: handles are LazyObjects held in the local cache.
g = mm(trace(gen)(3, lazy_result_=True))
local_list = mm(trace(list)(g))
h = mm(trace(list)(lazy_result_=True))
local_is = mm(trace(operator.is_)(h, h))
holder, item = mm(trace(list)(lazy_result_=True)), mm(trace(list)(lazy_result_=True))
mm(holder.append(item))
mm(item.append(1))
local_nested = mm(holder)
print('local :', local_list, local_is, local_nested)

# ---- the same through a server.
server = courier_server.CourierServer('hunt1')
server.start()
client = courier_utils.CourierClient('hunt1', call_timeout=10)
g = client.get_result(trace(gen)(3, lazy_result_=True))
remote_list = attempt(lambda: client.get_result(trace(list)(g)))
h = client.get_result(trace(list)(lazy_result_=True))
remote_is = attempt(lambda: client.get_result(trace(operator.is_)(h, h)))
holder = client.get_result(trace(list)(lazy_result_=True))
item = client.get_result(trace(list)(lazy_result_=True))
holder.append(item).result_()
item.append(1).result_()
remote_nested = attempt(holder.result_)
print('remote:', remote_list, remote_is, remote_nested)
server.stop().join()

bad = (remote_list, remote_is, remote_nested) != (
    local_list,
    local_is,
    local_nested,
)
print('DEFECT PRESENT' if bad else 'ok')
sys.exit(1 if bad else 0)
