"""Minimal in-process stand-in for DeepMind's courier (hunt stub)."""
from __future__ import annotations

import itertools
import pickle
import threading
import time
from concurrent import futures

_SERVERS = {}
_LOCK = threading.Lock()
_PORTS = itertools.count(20000)


class DeadlineExceeded(Exception):
  code = 4  # absl::StatusCode::kDeadlineExceeded

  def __reduce__(self):
    return (DeadlineExceeded, self.args)


class RemoteError(Exception):
  code = 2


class Server:

  def __init__(self, name=None, port=None, **_):
    self._name = name
    self._port = port or next(_PORTS)
    self._handlers = {}
    self.has_started = False
    self._pool = futures.ThreadPoolExecutor(max_workers=32)

  @property
  def address(self):
    return self._name or f'localhost:{self._port}'

  def Bind(self, name, fn):
    self._handlers[name] = fn

  def Start(self):
    with _LOCK:
      _SERVERS[self.address] = self
    self.has_started = True

  def Stop(self):
    with _LOCK:
      if _SERVERS.get(self.address) is self:
        del _SERVERS[self.address]
    self.has_started = False

  def Join(self):
    pass


def _roundtrip(x):
  return pickle.loads(pickle.dumps(x))


class _Futures:

  def __init__(self, client):
    self._client = client

  def __getattr__(self, method):
    if method.startswith('__'):
      raise AttributeError(method)
    client = self._client

    def call(*args, **kwargs):
      result = futures.Future()
      result.set_running_or_notify_cancel()
      args_ = _roundtrip(args)
      kwargs_ = _roundtrip(kwargs)
      timeout = client.call_timeout or None
      done_lock = threading.Lock()

      def set_once(value=None, exc=None):
        with done_lock:
          if result.done():
            return
          if exc is not None:
            result.set_exception(exc)
          else:
            result.set_result(value)

      def run():
        start = time.time()
        # wait for the server to exist (like a channel waiting to connect).
        while True:
          with _LOCK:
            server = _SERVERS.get(client.address)
          if server is not None:
            break
          if result.done():
            return
          time.sleep(0.005)
        handler = server._handlers.get(method)
        if handler is None:
          set_once(exc=RemoteError(f'method {method} not found'))
          return

        def handle():
          try:
            value = _roundtrip(handler(*args_, **kwargs_))
          except BaseException as e:  # pylint: disable=broad-except
            set_once(exc=RemoteError(f'{type(e).__name__}: {e}'))
          else:
            set_once(value)

        server._pool.submit(handle)

      threading.Thread(target=run, daemon=True).start()
      if timeout:
        def expire():
          set_once(exc=DeadlineExceeded(f'Deadline Exceeded calling {method}'))
        t = threading.Timer(timeout, expire)
        t.daemon = True
        t.start()
      return result

    return call


class Client:

  def __init__(self, address, call_timeout=None, **_):
    self.address = address
    self.call_timeout = call_timeout
    self.futures = _Futures(self)

  def __getattr__(self, method):
    if method.startswith('__'):
      raise AttributeError(method)
    fut = getattr(self.futures, method)
    return lambda *a, **k: fut(*a, **k).result()
