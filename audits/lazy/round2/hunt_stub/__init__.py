import os, sys
_here = os.path.dirname(os.path.abspath(__file__))
if _here not in sys.path:
  sys.path.insert(0, _here)
# Drop an unrelated 'courier' that may have been imported already.
if 'courier' in sys.modules and not getattr(sys.modules['courier'], '__file__', '').startswith(_here):
  del sys.modules['courier']
import courier  # noqa
