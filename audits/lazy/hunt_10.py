"""hunt_10 (medium confidence): C14 - when a RemoteIteratorQueue.get() /
RemoteIterator.__next__ call hits the client deadline, the server-side handler
keeps waiting, later dequeues the next element(s) and hands them to nobody. The
client is told TimeoutError('Try longer timeout on ...'), and when it does try
again the stream has silently lost elements.

Property text violated: "remote iterators and remote queues yield exactly the
underlying elements in order".

Cause: RemoteIteratorQueue.get/get_batch (courier_utils.py:319-344) and
RemoteIterator.__next__ (courier_utils.py:365-368) are plain
`worker.get_result(<lazy q.get()>)` calls. The dequeue is a destructive
operation that blocks on the server (IteratorQueue.get waits for a producer),
but the client's deadline (CourierClient.call_timeout) is not propagated to it,
there is no acknowledgement, and nothing puts the element back when the reply
cannot be delivered. As with gRPC, the handler of a call whose deadline expired
keeps running: as soon as the producer enqueues, the orphaned handler pops the
element and its reply is dropped. get_result then raises the *retriable*
TimeoutError (courier_utils.py:678-680), so a consumer that follows the advice
resumes after a hole in the data. The same happens with get_batch (a whole
batch is lost) and with a slow `next()` on a RemoteIterator.
"""
import os
import sys
import threading
import time

sys.path.insert(0, os.path.dirname(os.path.abspath(__file__)))


def slow_source(n):
  for i in range(n):
    if i == 0:
      time.sleep(2)  # the first element takes longer than the client deadline
    yield i


def main():
  from absl import logging as alog

  alog.set_verbosity(alog.FATAL)
  import hunt_stub  # pylint: disable=unused-import
  from ml_metrics._src.chainables import courier_server
  from ml_metrics._src.chainables import lazy_fns
  from ml_metrics._src.utils import courier_utils
  from ml_metrics._src.utils import iter_utils
  import hunt_10 as me

  server = courier_server.CourierServer('hunt10')
  server.start()
  client = courier_utils.CourierClient('hunt10', call_timeout=1)
  client.wait_until_alive()
  bad = False

  def drain(get):
    out = []
    while True:
      try:
        out.append(get())
      except StopIteration:
        return out
      except TimeoutError as e:
        out.append(f'<TimeoutError: {str(e)[:18]}...>')
        time.sleep(2)  # "try longer": come back once the producer caught up

  # 1. Remote queue fed by a producer that is slower than the client deadline.
  q = iter_utils.IteratorQueue(name='input')  # lives on the server
  remote_q = courier_utils.RemoteIteratorQueue.new(q, server_addr=client)
  threading.Thread(
      target=q.enqueue_from_iterator, args=(me.slow_source(5),), daemon=True
  ).start()
  got = drain(remote_q.get)
  elems = [x for x in got if not isinstance(x, str)]
  print('RemoteIteratorQueue.get():', got)
  print('  elements delivered:', elems, '(underlying: [0, 1, 2, 3, 4])')
  bad |= elems != [0, 1, 2, 3, 4]

  # 2. RemoteIterator over a generator whose first next() is slow.
  remote_iterable = client.get_result(
      lazy_fns.trace(me.slow_source)(5, lazy_result_=True)
  )
  it = iter(remote_iterable)
  got = drain(lambda: next(it))
  elems = [x for x in got if not isinstance(x, str)]
  print('RemoteIterator.__next__() :', got)
  print('  elements delivered:', elems, '(underlying: [0, 1, 2, 3, 4])')
  bad |= elems != [0, 1, 2, 3, 4]

  print('DEFECT PRESENT' if bad else 'ok')
  return 1 if bad else 0


if __name__ == '__main__':
  code = main()
  sys.stdout.flush()
  os._exit(code)
