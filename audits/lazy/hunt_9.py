"""hunt_9 (lower confidence): C17 / C14 - attribute chains on a traced call or on
a RemoteObject silently return the proxy's own bookkeeping fields instead of
tracing the attribute, for the ordinary names `value`, `args`, `kwargs`, `id`
(LazyFn) and `value`, `id`, `worker`, `client_configs` (RemoteObject).

Property text violated: "Materialising a traced expression - any nesting of ...
attribute, item and call chains - yields the value the same expression yields
eagerly" (C17) and "chains of attribute access ... on a remote object behave
like on the local object" (C14).

Cause: LazyObject.__getattr__ (lazy_fns.py:394-397) and
RemoteObject.__getattr__ (courier_utils.py:273-276) are only consulted for
names that are *not* found normally, but the proxies expose public,
un-suffixed dataclass fields/properties: LazyObject.value / .id, LazyFn.args /
.kwargs, RemoteObject.value / .id / .worker / .client_configs. (The helper
methods were deliberately suffixed - result_, set_, future_ - to avoid exactly
this clash; the fields were not.) So `trace(Enum)(1).value`,
`trace(functools.partial)(f, x).args`, `remote_row.id` ... do not build a lazy
getattr; they return an unrelated object immediately and without any error, and
maybe_make() of it yields the wrong value.
"""
import enum
import functools
import os
import sys
import types as pytypes

sys.path.insert(0, os.path.dirname(os.path.abspath(__file__)))


class Color(enum.Enum):
  RED = 1


def main():
  from absl import logging as alog

  alog.set_verbosity(alog.FATAL)
  import hunt_stub  # pylint: disable=unused-import
  from ml_metrics._src.chainables import courier_server
  from ml_metrics._src.chainables import lazy_fns
  from ml_metrics._src.utils import courier_utils
  import hunt_9 as me

  trace, maybe_make = lazy_fns.trace, lazy_fns.maybe_make
  bad = False

  def show(label, eager, lazy):
    nonlocal bad
    made = maybe_make(lazy)
    ok = made == eager
    bad |= not ok
    print(f'{label}: eager={eager!r} lazy={str(made)[:60]!r} -> {"ok" if ok else "WRONG"}')

  show('Color(1).name (control)', me.Color(1).name, trace(me.Color)(1).name)
  show('Color(1).value', me.Color(1).value, trace(me.Color)(1).value)
  show(
      'partial(int, "7").args',
      functools.partial(int, '7').args,
      trace(functools.partial)(int, '7').args,
  )
  show(
      'SimpleNamespace(id=9, kwargs={}).id',
      pytypes.SimpleNamespace(id=9).id,
      trace(pytypes.SimpleNamespace)(id=9).id,
  )
  show(
      'SimpleNamespace(kwargs={"k": 1}).kwargs',
      pytypes.SimpleNamespace(kwargs={'k': 1}).kwargs,
      trace(pytypes.SimpleNamespace)(kwargs={'k': 1}).kwargs,
  )

  server = courier_server.CourierServer('hunt9')
  server.start()
  client = courier_utils.CourierClient('hunt9', call_timeout=10)
  local_row = pytypes.SimpleNamespace(name='n', id=9, value=3.5, worker='w7')
  remote_row = client.get_result(
      trace(pytypes.SimpleNamespace)(
          name='n', id=9, value=3.5, worker='w7', lazy_result_=True
      )
  )
  for attr in ('name', 'id', 'value', 'worker'):
    show(f'remote_row.{attr}', getattr(local_row, attr), getattr(remote_row, attr))

  print('DEFECT PRESENT' if bad else 'ok')
  return 1 if bad else 0


if __name__ == '__main__':
  code = main()
  sys.stdout.flush()
  os._exit(code)
