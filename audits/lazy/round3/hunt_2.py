"""C14: a healthy server is declared "disconnected" in the middle of a remote evaluation.

Property C14: "Evaluating a lazy expression on a server through a client returns
the same value, or raises the same exception type and message, as evaluating it
locally; ... remote queues yield exactly the underlying elements in order".

CourierClient.get_result / async_get_result poll `is_alive` while the call is in
flight and raise RuntimeError('Worker disconnected') on the FIRST stale
observation. But `is_alive` only *starts* a heartbeat probe when the record is
stale and returns False without waiting for its answer, and the record is only
refreshed lazily from the finished calls of the same client *instance*:

 (b) A process that does not keep a CourierClient instance alive - e.g. the
     worker that consumes the master's input queue in orchestrate through an
     unpickled RemoteIteratorQueue (RemoteObject.worker builds a client from the
     ClientConfig for each call, SingletonMeta only holds weak refs) - never
     records its successful calls. heartbeat_threshold_secs (default 360s) after
     the first probe the call that happens to be in flight fails, although the
     server answered every single request within a few seconds.
 (c) Any single remote evaluation that lasts longer than the threshold (a 6+
     minutes model load, a blocking queue.get()) fails the same way, also with
     a long lived client; the server is healthy and answers heartbeats.

Locally the same expressions simply return their values.

The script uses the DEFAULT thresholds and runs the client's clock 240x faster
(only `courier_utils.time` is replaced, the server uses the real clock), so a
0.25s answer counts as 60s. (a) is the control: same calls, but the process
holds the client instance -> everything works, which shows that the server and
the clock trick are fine.  Exit code 1 when the defect is present.
"""
import gc
import os
import sys
import threading
import time as real_time

import hunt_common  # noqa: F401  (puts the courier stub on sys.path)
from absl import logging as alog

alog.set_verbosity(alog.FATAL)

import hunt_mod
from ml_metrics._src.chainables import courier_server
from ml_metrics._src.chainables import lazy_fns
from ml_metrics._src.utils import courier_utils
from ml_metrics._src.utils import iter_utils

SPEED = 240.0
_T0 = real_time.time()


class _FastClock:
  """`time` module stand-in for the client side only."""

  @staticmethod
  def time():
    now = real_time.time()
    return _T0 + (now - _T0) * SPEED

  sleep = staticmethod(real_time.sleep)


courier_utils.time = _FastClock
trace = lazy_fns.trace
ADDR = 'hunt2_master'
N, DT = 10, 0.25  # an element every 0.25s == 60 "client seconds".


def host_queue(name):
  """What orchestrate does on the master: a local queue served remotely."""
  q = iter_utils.IteratorQueue(name=name)
  threading.Thread(
      target=q.enqueue_from_iterator,
      args=(hunt_mod.slow_gen(N, DT),),
      daemon=True,
  ).start()
  # Only the config travels to the consumer (the remote queue is pickled).
  config = courier_utils.ClientConfig(
      address=ADDR,
      max_parallelism=1,
      heartbeat_threshold_secs=courier_utils._HRTBT_THRESHOLD_SECS,
      iterate_batch_size=1,
      call_timeout=0.0,
  )
  remote_q = courier_utils.RemoteIteratorQueue.new(
      q, server_addr=config, name=name
  )
  return lazy_fns.pickler.loads(lazy_fns.pickler.dumps(remote_q))


def consume(remote_q):
  out, t0 = [], _FastClock.time()
  try:
    while True:
      out.append(remote_q.get())
  except StopIteration:
    return out, None, _FastClock.time() - t0
  except Exception as e:  # pylint: disable=broad-exception-caught
    return out, e, _FastClock.time() - t0


def main():
  server = courier_server.CourierServer(ADDR)
  server.start()
  expected = list(range(N))
  defects = []

  # (a) control: the consumer process keeps the client instance alive.
  remote_q = host_queue('qa')
  keep = remote_q._queue.worker  # a strong reference to the singleton.
  out, err, took = consume(remote_q)
  print(f'(a) client instance held   : {out} error={err!r} ({took:.0f} client-s)')
  if err is not None or out != expected:
    print('    control failed, the demonstration is not valid')
    return 0
  del keep
  gc.collect()
  assert not courier_utils.CourierClient.all_instances

  # (b) the consumer only has the (unpickled) remote queue.
  real_time.sleep(400 / SPEED)  # the record of (a) is stale: a fresh start.
  remote_q = host_queue('qb')
  out, err, took = consume(remote_q)
  print(f'(b) no client instance held: {out} error={err!r} ({took:.0f} client-s)')
  if err is not None or out != expected:
    defects.append(
        f'(b) remote queue consumer got {type(err).__name__} after {len(out)}'
        f' of {N} elements although every request was answered'
    )

  # (c) one evaluation that outlasts the threshold, long lived client.
  client = courier_utils.CourierClient(ADDR)
  lazy = trace(hunt_mod.sleep_and_return)(2.0, 'done')  # 480 client seconds.
  print(f'(c) local evaluation       : {lazy_fns.maybe_make(lazy)!r}')
  t0 = _FastClock.time()
  try:
    value = client.get_result(lazy)
    print(f'(c) remote evaluation      : {value!r}')
  except Exception as e:  # pylint: disable=broad-exception-caught
    print(
        f'(c) remote evaluation      : {type(e).__name__}: {e}'
        f' (after {_FastClock.time() - t0:.0f} client-s)'
    )
    defects.append(f'(c) long remote evaluation raised {type(e).__name__}')
  alive = client.send_heartbeat('hunt2_probe').result() is None
  print(f'    the server still answers heartbeats: {alive}')

  server.stop().join()
  if defects:
    print('DEFECT:')
    for d in defects:
      print('  -', d)
    return 1
  print('OK')
  return 0


if __name__ == '__main__':
  rc = main()
  sys.stdout.flush()
  os._exit(rc)
