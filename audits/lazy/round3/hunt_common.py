import os, sys
HERE = os.path.dirname(os.path.abspath(__file__))
sys.path.insert(0, os.path.join(HERE, 'hunt_stub'))
sys.path.insert(1, HERE)
import courier  # noqa  (the stub)
assert 'hunt_stub' in courier.__file__, courier.__file__
import ml_metrics
assert ml_metrics.__file__.startswith(HERE), ml_metrics.__file__
