"""C14: a bounded iteration (num_steps) over a REMOTE queue does not behave like on the local queue.

Property C14: "remote iterators and remote queues yield exactly the underlying
elements in order and signal exhaustion once", "behave like on the local object".

`IterableQueue.dequeue_as_iterator(num_steps=n)` / `async_dequeue_as_iterator`
are inherited by courier_utils.RemoteIteratorQueue.
  * local IteratorQueue:   list(q.dequeue_as_iterator(num_steps=3)) == [0, 1, 2]
                           and the queue is stopped (producers released).
  * RemoteIteratorQueue:   the same expression raises a bare AssertionError
                           instead of signalling exhaustion, because
                           DequeueIterator.maybe_stop() asserts that the queue
                           is an iter_utils.IteratorQueue and the remote queue
                           has no maybe_stop at all.
  * the async twin (repaired by "fix: the async dequeue iterator stops the queue
    after num_steps elements") silently skips the stop for a remote queue
    (`isinstance(q, IteratorQueue)` is False): the producer on the server stays
    blocked in put() for ever (a leaked thread of the server's shared pool),
    while the producer of a local queue is released.

Exit code 1 when the defect is present.
"""
import asyncio
import sys
import time

import hunt_common  # noqa: F401  (puts the courier stub on sys.path)
from absl import logging as alog

alog.set_verbosity(alog.FATAL)

from ml_metrics._src.chainables import courier_server
from ml_metrics._src.chainables import lazy_fns
from ml_metrics._src.utils import courier_utils
from ml_metrics._src.utils import iter_utils

trace = lazy_fns.trace
N, STEPS = 50, 3


def main():
  defects = []
  server = courier_server.CourierServer('hunt1_server')
  server.start()
  client = courier_utils.CourierClient('hunt1_server', call_timeout=10)

  # ---- local reference behaviour -----------------------------------------
  local_q = iter_utils.IteratorQueue(1, name='local')
  import threading
  t = threading.Thread(
      target=local_q.enqueue_from_iterator, args=(range(N),), daemon=True
  )
  t.start()
  local_out = list(local_q.dequeue_as_iterator(num_steps=STEPS))
  t.join(2)
  print(f'local  sync : {local_out}, producer released={not t.is_alive()}')

  # ---- remote, sync --------------------------------------------------------
  async def make_remote():
    return await client.async_iter(trace(range)(N), buffer_size=1, name='rq')

  remote_q = asyncio.run(make_remote())
  try:
    remote_out = list(remote_q.dequeue_as_iterator(num_steps=STEPS))
    print(f'remote sync : {remote_out}')
    if remote_out != local_out:
      defects.append('remote sync iterator yields other elements')
  except BaseException as e:  # pylint: disable=broad-exception-caught
    print(f'remote sync : raised {type(e).__name__}({e})')
    defects.append(
        f'remote sync bounded iterator raised {type(e).__name__} instead of'
        ' ending after num_steps elements'
    )

  # ---- remote, async -------------------------------------------------------
  remote_q2 = asyncio.run(make_remote())

  async def take():
    return [x async for x in remote_q2.async_dequeue_as_iterator(STEPS)]

  remote_async_out = asyncio.run(take())
  time.sleep(0.5)
  # `enqueue_done` of the queue that lives on the server.
  released = remote_q2._queue.enqueue_done.result_()
  print(
      f'remote async: {remote_async_out}, producer on the server'
      f' released={released}'
  )

  # local async twin for comparison.
  async def local_async():
    q = iter_utils.AsyncIteratorQueue(1, name='local_async')
    th = threading.Thread(
        target=q.enqueue_from_iterator, args=(range(N),), daemon=True
    )
    th.start()
    out = [x async for x in q.async_dequeue_as_iterator(STEPS)]
    th.join(2)
    return out, not th.is_alive()

  out, local_released = asyncio.run(local_async())
  print(f'local  async: {out}, producer released={local_released}')
  if remote_async_out != out:
    defects.append('remote async iterator yields other elements')
  if local_released and not released:
    defects.append(
        'remote async bounded iterator leaves the producer on the server'
        ' blocked (the local one releases it)'
    )

  server.stop().join()
  if defects:
    print('DEFECT:')
    for d in defects:
      print('  -', d)
    return 1
  print('OK: remote bounded iteration behaves like the local one')
  return 0


if __name__ == '__main__':
  rc = main()
  sys.stdout.flush()
  # The producers leaked on the (in-process) server sit in a non-daemon thread
  # pool that is joined at interpreter exit: leave without joining it.
  import os
  os._exit(rc)
